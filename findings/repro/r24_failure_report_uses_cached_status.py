# C13/R14: BaseTrigger.report_invocation_failure builds the ExceptionContext with `invocation.status` - the invocation
# object's 100 ms status cache - while its sibling report_invocation_result asks the orchestrator ("to avoid caching").
# A runner that looked at the invocation's status (RUNNING) less than cached_status_time before the body raised reports
# the failure with status RUNNING: the on_exception condition (status FAILED) is not satisfied and the handler task is
# launched ZERO times.  Documentation only.
import logging, sys
logging.disable(logging.CRITICAL)
from pynenc.invocation.status import InvocationStatus
from pynenc.runner.runner_context import RunnerContext
import t_trig

app = t_trig.app
app.purge()
app.register_deferred_triggers()
results = {}
rc = RunnerContext(runner_cls="ThreadRunner", runner_id="r24", pid=1, hostname="h", thread_id=1)
app.orchestrator.register_runner_heartbeats([rc.runner_id])
for n, (label, peek) in enumerate((("status read 0 ms before the failure", True), ("status not looked at before the failure", False), ("status read 0 ms before the failure (again)", True))):
    before = len(app.trigger.get_valid_conditions())
    inv = t_trig.boom(n)                                   # routed, REGISTERED
    app.orchestrator.set_invocation_status(inv.invocation_id, InvocationStatus.PENDING, rc)
    app.orchestrator.set_invocation_status(inv.invocation_id, InvocationStatus.RUNNING, rc)
    if peek:
        assert inv.status == InvocationStatus.RUNNING      # what a runner loop does; cached for cached_status_time
    app.orchestrator.set_invocation_exception(inv, ValueError(f"boom {n}"), rc)
    assert app.orchestrator.get_invocation_status(inv.invocation_id) == InvocationStatus.FAILED
    results[label] = len(app.trigger.get_valid_conditions()) - before
print("new pending occurrences of the on_exception condition after each reported failure:", results)
sys.exit(1 if 0 in results.values() else 0)
