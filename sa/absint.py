"""Finite-domain evaluator for the pure decision functions of ``pynenc/invocation/status.py``.

The checker interprets the *AST* of the module over a finite abstract domain in which the
abstraction is exact (enum members, None, booleans, small frozen records).  CPython never
executes repository code.  A construct outside the whitelist raises AnalysisError (exit 2),
it is never guessed.
"""

from __future__ import annotations

import ast
from dataclasses import dataclass, field

from .loader import AnalysisError, ClassInfo, FuncInfo, ModuleInfo, Repo


@dataclass(frozen=True)
class EnumVal:
    cls: str
    name: str
    value: str

    def __repr__(self) -> str:
        return f"{self.cls}.{self.name}"


@dataclass(frozen=True)
class EnumClass:
    name: str


class Obj:
    def __init__(self, cls: ClassInfo, fields: dict) -> None:
        self.cls = cls
        self.fields = fields
        self.cache: dict = {}

    def __repr__(self) -> str:
        return f"{self.cls.name}({', '.join(f'{k}={v!r}' for k, v in self.fields.items())})"


@dataclass
class ExcObj:
    cls: str
    kwargs: dict = field(default_factory=dict)


class Raised(Exception):
    def __init__(self, exc: ExcObj) -> None:
        super().__init__(exc.cls)
        self.exc = exc


@dataclass(frozen=True)
class Opaque:
    what: str


class _Return(Exception):
    def __init__(self, v):
        self.v = v


class _Break(Exception):
    pass


class _Continue(Exception):
    pass


def _unsupported(node: ast.AST, why: str = "") -> AnalysisError:
    return AnalysisError(
        f"absint: unsupported construct at line {getattr(node, 'lineno', '?')}: {type(node).__name__} {why} :: {ast.unparse(node)[:80]}"
    )


class Interp:
    def __init__(self, repo: Repo, module: ModuleInfo, enum_cls: ClassInfo, members: dict[str, str]):
        self.repo = repo
        self.m = module
        self.enum_cls = enum_cls
        self.enum_vals = {n: EnumVal(enum_cls.name, n, v) for n, v in members.items()}
        self.globals: dict = {}
        self.steps = 0
        self._module_vals: dict = {}

    # ---------------------------------------------------------------- module scope
    def global_name(self, name: str):
        if name in self._module_vals:
            return self._module_vals[name]
        if name == self.enum_cls.name:
            return EnumClass(name)
        if name in self.m.classes:
            return self.m.classes[name]
        if name in self.m.functions:
            return self.m.functions[name]
        if name in self.m.assigns:
            v = self.eval(self.m.assigns[name], {})
            self._module_vals[name] = v
            return v
        if name in self.m.imports:
            tgt = self.repo.resolve_name(self.m, name)
            if isinstance(tgt, ClassInfo):
                return tgt
            return Opaque(self.m.imports[name])
        if name in ("frozenset", "set", "list", "tuple", "len", "bool", "isinstance", "str", "any", "all",
                    "ValueError", "KeyError", "TypeError", "RuntimeError", "Exception", "dict", "sorted", "next", "iter", "repr", "int", "getattr", "hasattr"):
            return ("builtin", name)
        raise AnalysisError(f"absint: unknown name {name}")

    # ---------------------------------------------------------------- calls
    def call_function(self, f: FuncInfo, args: list, kwargs: dict):
        self.steps += 1
        if self.steps > 2_000_000:
            raise AnalysisError("absint: step budget exceeded")
        env: dict = {}
        a = f.node.args
        params = a.posonlyargs + a.args
        defaults = [None] * (len(params) - len(a.defaults)) + list(a.defaults)
        for i, p in enumerate(params):
            if i < len(args):
                env[p.arg] = args[i]
            elif p.arg in kwargs:
                env[p.arg] = kwargs[p.arg]
            elif defaults[i] is not None:
                env[p.arg] = self.eval(defaults[i], {})
            else:
                raise AnalysisError(f"absint: missing argument {p.arg} calling {f.qualname}")
        for p, d in zip(a.kwonlyargs, a.kw_defaults):
            if p.arg in kwargs:
                env[p.arg] = kwargs[p.arg]
            elif d is not None:
                env[p.arg] = self.eval(d, {})
        try:
            self.exec_body(f.node.body, env)
        except _Return as r:
            return r.v
        return None

    def construct(self, c: ClassInfo, args: list, kwargs: dict):
        if any(b in ("Exception", "BaseException") for k in c.mro() for b in k.external_base_names()) or c.module.name.endswith("exceptions"):
            return ExcObj(c.name, dict(kwargs))
        # dataclass-like: annotated fields in order over the MRO
        names: list[str] = []
        defaults: dict = {}
        for k in reversed(c.mro()):
            for n in k.class_annots:
                if n not in names:
                    names.append(n)
                if n in k.class_attrs:
                    defaults[n] = k.class_attrs[n]
        fields: dict = {}
        for i, v in enumerate(args):
            if i >= len(names):
                raise AnalysisError(f"absint: too many positional args constructing {c.name}")
            fields[names[i]] = v
        for k2, v in kwargs.items():
            if k2 not in names:
                raise AnalysisError(f"absint: unknown field {k2} constructing {c.name}")
            fields[k2] = v
        for n in names:
            if n not in fields:
                if n not in defaults:
                    raise AnalysisError(f"absint: missing field {n} constructing {c.name}")
                d = defaults[n]
                if isinstance(d, ast.Call) and ast.unparse(d.func).split(".")[-1] == "field":
                    fac = [kw.value for kw in d.keywords if kw.arg == "default_factory"]
                    dflt = [kw.value for kw in d.keywords if kw.arg == "default"]
                    if fac:
                        if isinstance(fac[0], ast.Lambda):
                            fields[n] = self._opaque_or_eval(fac[0].body)
                        else:
                            fv = self.eval(fac[0], {})
                            fields[n] = self.call(fv, [], {}, fac[0])
                    elif dflt:
                        fields[n] = self.eval(dflt[0], {})
                    else:
                        raise AnalysisError(f"absint: field() without default for {n}")
                else:
                    fields[n] = self.eval(d, {})
        o = Obj(c, fields)
        pi = c.find_method("__post_init__")
        if pi is not None:
            self.call_function(pi, [o], {})
        return o

    def _opaque_or_eval(self, node: ast.AST):
        try:
            return self.eval(node, {})
        except AnalysisError:
            return Opaque(ast.unparse(node))

    def call(self, fn, args: list, kwargs: dict, node: ast.AST):
        if isinstance(fn, FuncInfo):
            return self.call_function(fn, args, kwargs)
        if isinstance(fn, ClassInfo):
            return self.construct(fn, args, kwargs)
        if isinstance(fn, tuple) and fn[0] == "bound":
            _, f, selfv = fn
            return self.call_function(f, [selfv] + args, kwargs)
        if isinstance(fn, tuple) and fn[0] == "builtin":
            return self.builtin(fn[1], args, kwargs, node)
        if isinstance(fn, tuple) and fn[0] == "pymethod":
            _, recv, name = fn
            return self.pymethod(recv, name, args, kwargs, node)
        if isinstance(fn, EnumClass):
            for ev in self.enum_vals.values():
                if args and (args[0] == ev.value or args[0] == ev):
                    return ev
            raise Raised(ExcObj("ValueError"))
        if isinstance(fn, Opaque):
            return Opaque(f"{fn.what}(...)")
        raise _unsupported(node, f"call of {fn!r}")

    def builtin(self, name: str, args: list, kwargs: dict, node: ast.AST):
        if name in ("frozenset", "set"):
            return frozenset(self.iterate(args[0], node)) if args else frozenset()
        if name in ("list", "tuple", "sorted"):
            xs = list(self.iterate(args[0], node)) if args else []
            return tuple(xs)
        if name == "dict":
            return dict(args[0]) if args else {}
        if name == "len":
            return len(list(self.iterate(args[0], node)))
        if name == "bool":
            return self.truth(args[0], node)
        if name == "any":
            return any(self.truth(x, node) for x in self.iterate(args[0], node))
        if name == "all":
            return all(self.truth(x, node) for x in self.iterate(args[0], node))
        if name in ("str", "repr"):
            return Opaque("str")
        if name == "isinstance":
            v, c = args
            cs = c if isinstance(c, tuple) else (c,)
            for k in cs:
                if isinstance(k, EnumClass) and isinstance(v, EnumVal):
                    return True
                if isinstance(k, ClassInfo) and isinstance(v, Obj) and v.cls.is_subclass_of(k):
                    return True
                if k == ("builtin", "str") and isinstance(v, str):
                    return True
            return False
        if name in ("ValueError", "KeyError", "TypeError", "RuntimeError", "Exception"):
            return ExcObj(name)
        raise _unsupported(node, f"builtin {name}")

    def pymethod(self, recv, name: str, args: list, kwargs: dict, node: ast.AST):
        if isinstance(recv, dict):
            if name == "get":
                return recv.get(self.hashable(args[0]), args[1] if len(args) > 1 else None)
            if name == "items":
                return tuple(recv.items())
            if name == "keys":
                return tuple(recv.keys())
            if name == "values":
                return tuple(recv.values())
        if isinstance(recv, frozenset):
            if name in ("union",):
                return recv | frozenset(self.iterate(args[0], node))
            if name in ("intersection",):
                return recv & frozenset(self.iterate(args[0], node))
            if name == "issubset":
                return recv <= frozenset(self.iterate(args[0], node))
        raise _unsupported(node, f"method {name} on {type(recv).__name__}")

    def hashable(self, v):
        return v

    def iterate(self, v, node: ast.AST):
        if isinstance(v, (tuple, list, frozenset, set)):
            return list(v)
        if isinstance(v, dict):
            return list(v.keys())
        if isinstance(v, EnumClass):
            return list(self.enum_vals.values())
        raise _unsupported(node, f"iteration over {type(v).__name__}")

    def truth(self, v, node: ast.AST) -> bool:
        if isinstance(v, Opaque):
            raise _unsupported(node, "branch on an opaque (non-finite-domain) value")
        if isinstance(v, (Obj, EnumVal, ExcObj, ClassInfo, FuncInfo, EnumClass)):
            return True
        return bool(v)

    # ---------------------------------------------------------------- attributes
    def getattr(self, v, attr: str, node: ast.AST):
        if isinstance(v, EnumClass):
            if attr in self.enum_vals:
                return self.enum_vals[attr]
            mth = self.enum_cls.find_method(attr)
            if mth is not None and mth.is_classmethod:
                return ("bound", mth, v)
            raise Raised(ExcObj("AttributeError"))
        if isinstance(v, EnumVal):
            if attr == "value":
                return v.value
            if attr == "name":
                return v.name
            mth = self.enum_cls.find_method(attr)
            if mth is not None:
                return ("bound", mth, v)
            raise _unsupported(node, f"enum attribute {attr}")
        if isinstance(v, Obj):
            if attr in v.fields:
                return v.fields[attr]
            mth = v.cls.find_method(attr)
            if mth is not None:
                if mth.is_property:
                    if attr not in v.cache:
                        v.cache[attr] = self.call_function(mth, [v], {})
                    return v.cache[attr]
                return ("bound", mth, v)
            raise Raised(ExcObj("AttributeError"))
        if isinstance(v, ExcObj):
            return v.kwargs.get(attr)
        if isinstance(v, (dict, frozenset)):
            return ("pymethod", v, attr)
        if isinstance(v, Opaque):
            return Opaque(f"{v.what}.{attr}")
        if v is None:
            raise Raised(ExcObj("AttributeError"))
        raise _unsupported(node, f"attribute {attr} of {type(v).__name__}")

    # ---------------------------------------------------------------- expressions
    def eval(self, node: ast.AST, env: dict):
        self.steps += 1
        if isinstance(node, ast.Constant):
            return node.value
        if isinstance(node, ast.Name):
            if node.id in env:
                return env[node.id]
            return self.global_name(node.id)
        if isinstance(node, ast.Attribute):
            return self.getattr(self.eval(node.value, env), node.attr, node)
        if isinstance(node, ast.JoinedStr):
            for v in node.values:
                if isinstance(v, ast.FormattedValue):
                    try:
                        self.eval(v.value, env)
                    except AnalysisError:
                        pass
            const = "".join(str(v.value) for v in node.values if isinstance(v, ast.Constant))
            # an f-string with a non-empty literal part is a non-empty string whatever is interpolated
            return ("<fstr>" + const) if const else Opaque("fstring")
        if isinstance(node, ast.NamedExpr):
            v = self.eval(node.value, env)
            env[node.target.id] = v
            return v
        if isinstance(node, ast.BoolOp):
            last = None
            for sub in node.values:
                last = self.eval(sub, env)
                t = self.truth(last, node)
                if isinstance(node.op, ast.And) and not t:
                    return last
                if isinstance(node.op, ast.Or) and t:
                    return last
            return last
        if isinstance(node, ast.UnaryOp) and isinstance(node.op, ast.Not):
            return not self.truth(self.eval(node.operand, env), node)
        if isinstance(node, ast.IfExp):
            return self.eval(node.body if self.truth(self.eval(node.test, env), node) else node.orelse, env)
        if isinstance(node, ast.Compare):
            left = self.eval(node.left, env)
            for op, rn in zip(node.ops, node.comparators):
                right = self.eval(rn, env)
                if not self.compare(op, left, right, node):
                    return False
                left = right
            return True
        if isinstance(node, ast.BinOp):
            l, r = self.eval(node.left, env), self.eval(node.right, env)
            if isinstance(l, frozenset) and isinstance(r, frozenset):
                if isinstance(node.op, ast.BitOr):
                    return l | r
                if isinstance(node.op, ast.BitAnd):
                    return l & r
                if isinstance(node.op, ast.Sub):
                    return l - r
            raise _unsupported(node)
        if isinstance(node, (ast.Set, ast.List, ast.Tuple)):
            vals = [self.eval(e, env) for e in node.elts]
            return frozenset(vals) if isinstance(node, ast.Set) else tuple(vals)
        if isinstance(node, ast.Dict):
            return {self.eval(k, env): self.eval(v, env) for k, v in zip(node.keys, node.values)}
        if isinstance(node, ast.Subscript):
            base = self.eval(node.value, env)
            idx = self.eval(node.slice, env)
            if isinstance(base, dict):
                if idx not in base:
                    raise Raised(ExcObj("KeyError"))
                return base[idx]
            if isinstance(base, tuple) and isinstance(idx, int):
                return base[idx]
            raise _unsupported(node)
        if isinstance(node, (ast.GeneratorExp, ast.ListComp, ast.SetComp)):
            out: list = []
            self._comp(node.generators, 0, dict(env), lambda e: out.append(self.eval(node.elt, e)), node)
            return frozenset(out) if isinstance(node, ast.SetComp) else tuple(out)
        if isinstance(node, ast.DictComp):
            outd: dict = {}
            self._comp(node.generators, 0, dict(env), lambda e: outd.__setitem__(self.eval(node.key, e), self.eval(node.value, e)), node)
            return outd
        if isinstance(node, ast.Call):
            fn = self.eval(node.func, env)
            args = []
            for a in node.args:
                if isinstance(a, ast.Starred):
                    raise _unsupported(node, "star-args")
                args.append(self.eval(a, env))
            kwargs = {}
            for kw in node.keywords:
                if kw.arg is None:
                    raise _unsupported(node, "**kwargs")
                kwargs[kw.arg] = self.eval(kw.value, env)
            return self.call(fn, args, kwargs, node)
        if isinstance(node, ast.Lambda):
            return Opaque("lambda")
        raise _unsupported(node)

    def _comp(self, gens, i, env, emit, node):
        if i == len(gens):
            emit(env)
            return
        g = gens[i]
        for item in self.iterate(self.eval(g.iter, env), node):
            e2 = dict(env)
            self.bind(g.target, item, e2, node)
            if all(self.truth(self.eval(c, e2), node) for c in g.ifs):
                self._comp(gens, i + 1, e2, emit, node)

    def bind(self, target: ast.AST, value, env: dict, node: ast.AST) -> None:
        if isinstance(target, ast.Name):
            env[target.id] = value
        elif isinstance(target, (ast.Tuple, ast.List)):
            vals = list(value)
            if len(vals) != len(target.elts):
                raise _unsupported(node, "unpack arity")
            for t, v in zip(target.elts, vals):
                self.bind(t, v, env, node)
        else:
            raise _unsupported(node, "assignment target")

    def compare(self, op: ast.cmpop, l, r, node: ast.AST) -> bool:
        def eq(a, b) -> bool:
            if isinstance(a, Opaque) or isinstance(b, Opaque):
                raise _unsupported(node, "comparison with opaque value")
            if isinstance(a, EnumVal) and isinstance(b, str):
                return a.value == b
            if isinstance(b, EnumVal) and isinstance(a, str):
                return b.value == a
            return a == b

        if isinstance(op, ast.Eq):
            return eq(l, r)
        if isinstance(op, ast.NotEq):
            return not eq(l, r)
        if isinstance(op, ast.Is):
            return l is r or (l is None and r is None) or (isinstance(l, (EnumVal, bool)) and l == r)
        if isinstance(op, ast.IsNot):
            return not (l is r or (l is None and r is None) or (isinstance(l, (EnumVal, bool)) and l == r))
        if isinstance(op, (ast.In, ast.NotIn)):
            if isinstance(r, EnumClass):
                res = isinstance(l, EnumVal) or any(l == ev.value for ev in self.enum_vals.values())
            else:
                items = self.iterate(r, node)
                res = any(eq(l, x) for x in items)
            return res if isinstance(op, ast.In) else not res
        raise _unsupported(node, "comparison operator")

    # ---------------------------------------------------------------- statements
    def exec_body(self, body: list[ast.stmt], env: dict) -> None:
        for st in body:
            self.exec(st, env)

    def exec(self, st: ast.stmt, env: dict) -> None:
        self.steps += 1
        if isinstance(st, ast.Expr):
            if isinstance(st.value, ast.Constant):
                return
            if isinstance(st.value, ast.Call):
                # a discarded call on something imported from outside the analysed packages (logging,
                # warnings, ...) cannot change what the decision function returns; assumed not to raise
                root = st.value.func
                while isinstance(root, (ast.Attribute, ast.Call, ast.Subscript)):
                    root = root.func if isinstance(root, ast.Call) else root.value
                if isinstance(root, ast.Name) and root.id not in env and root.id in self.m.imports and not isinstance(self.repo.resolve_name(self.m, root.id), (ClassInfo, FuncInfo)):
                    return
            self.eval(st.value, env)
            return
        if isinstance(st, ast.Assign):
            v = self.eval(st.value, env)
            for t in st.targets:
                self.bind(t, v, env, st)
            return
        if isinstance(st, ast.AnnAssign):
            if st.value is not None:
                self.bind(st.target, self.eval(st.value, env), env, st)
            return
        if isinstance(st, ast.If):
            if self.truth(self.eval(st.test, env), st):
                self.exec_body(st.body, env)
            else:
                self.exec_body(st.orelse, env)
            return
        if isinstance(st, ast.Return):
            raise _Return(self.eval(st.value, env) if st.value is not None else None)
        if isinstance(st, ast.Raise):
            if st.exc is None:
                raise _unsupported(st, "bare raise")
            v = self.eval(st.exc, env)
            if isinstance(v, ClassInfo):
                v = ExcObj(v.name)
            if isinstance(v, tuple) and v and v[0] == "builtin":
                v = ExcObj(v[1])
            if not isinstance(v, ExcObj):
                raise _unsupported(st, "raise of non-exception")
            raise Raised(v)
        if isinstance(st, ast.Pass):
            return
        if isinstance(st, ast.For):
            for item in self.iterate(self.eval(st.iter, env), st):
                self.bind(st.target, item, env, st)
                try:
                    self.exec_body(st.body, env)
                except _Break:
                    break
                except _Continue:
                    continue
            else:
                self.exec_body(st.orelse, env)
            return
        if isinstance(st, ast.Break):
            raise _Break()
        if isinstance(st, ast.Continue):
            raise _Continue()
        if isinstance(st, ast.Assert):
            if not self.truth(self.eval(st.test, env), st):
                raise Raised(ExcObj("AssertionError"))
            return
        if isinstance(st, ast.Try):
            try:
                self.exec_body(st.body, env)
            except Raised as r:
                for h in st.handlers:
                    names = []
                    if h.type is not None:
                        names = [ast.unparse(t).split(".")[-1] for t in (h.type.elts if isinstance(h.type, ast.Tuple) else [h.type])]
                    if h.type is None or self.exc_matches(r.exc.cls, names):
                        if h.name:
                            env[h.name] = r.exc
                        self.exec_body(h.body, env)
                        break
                else:
                    self.exec_body(st.finalbody, env)
                    raise
            else:
                self.exec_body(st.orelse, env)
            self.exec_body(st.finalbody, env)
            return
        raise _unsupported(st)

    def exc_matches(self, cls: str, names: list[str]) -> bool:
        if "Exception" in names or "BaseException" in names or cls in names:
            return True
        for c in self.repo.classes_named(cls):
            if any(k.name in names for k in c.mro()):
                return True
        return False
