"""MANIFEST.setup_cmd: nothing to build (pure stdlib); verifies the interpreter and the tree parse."""

from __future__ import annotations

import sys

from .loader import Repo


def main() -> int:
    if sys.version_info < (3, 11):
        print("python >= 3.11 required")
        return 1
    r = Repo()
    print("setup ok:", r.stats())
    return 0


if __name__ == "__main__":
    sys.exit(main())
