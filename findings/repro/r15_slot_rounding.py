"""C12/R6: with margin 0 two neighbouring runners are authorised at the same instant (float rounding).

Documentation only (not a check): run with /venv/bin/python against the tree to be examined.
Exit 1 when some instant authorises two runners.
"""
import sys
from datetime import UTC, datetime

from pynenc.orchestrator.atomic_service import ActiveRunnerInfo, calculate_time_slot, can_run_atomic_service

now = datetime.now(UTC)
bad = 0
for n in range(2, 40):
    runners = [ActiveRunnerInfo(f"r{i}", now, now, True) for i in range(n)]
    for interval in (1.0, 5.0, 6.0, 7.0, 0.1):
        slots = [calculate_time_slot(i, n, interval, 0.0) for i in range(n)]
        for i in range(n - 1):
            for t in (slots[i + 1][0], slots[i][1]):
                both = [r.runner_id for r in runners if can_run_atomic_service(r.runner_id, runners, t + 1_700_000_000 // (interval * 60) * (interval * 60), interval, 0.0)]
                both0 = [r.runner_id for r in runners if can_run_atomic_service(r.runner_id, runners, t, interval, 0.0)]
                for b in (both0,):
                    if len(b) > 1:
                        bad += 1
                        if bad <= 5:
                            print(f"N={n} interval={interval}min margin=0 t={t!r}: authorised together {b}; end[{i}]={slots[i][1]!r} start[{i+1}]={slots[i+1][0]!r}")
print("instants with two authorised runners:", bad)
sys.exit(1 if bad else 0)
