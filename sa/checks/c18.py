"""C18 - workflow operations replay deterministically and never mix between workflows.

R1 no memoisation of a context-dependent value under a context-independent key: a value derived
   from the current invocation context must not be cached on an object that outlives one execution
R2 record-or-replay discipline in _deterministic_operation (key = operation:sequence, lookup before
   generation, store before return, same workflow identity)
R3 seeds derive from workflow id, operation name and sequence only; non-deterministic sources reach a
   returned value only through the record-or-replay wrapper
R4 sub-task launch keyed by call identity: lookup before launch, store after, same workflow identity
R5 both state backends key workflow data by (workflow id, data key)
"""

from __future__ import annotations

import ast

from .. import sqlmini
from ..flow import assigned_from, call_name, calls_in, cfg_node_of, derived_names, func_cfg, names_in, parent_map, self_attr
from ..loader import AnalysisError, ClassInfo, FuncInfo, walk_no_nested
from ..report import Context
from . import c01

PROPERTY = "C18"
TECHNIQUE = "static analysis: taint from invocation-context reads to memo slots on long-lived objects, ordering / def-use rules in the record-or-replay wrapper, seed-input taint, sibling storage keys"

CONTEXT_SOURCES = ("invocation", "get_dist_invocation_context", "get_sync_invocation_context")
LONG_LIVED = ("Task", "WorkflowContext", "Pynenc")
NONDET_CALLS = ("now", "uuid4", "uuid1", "time", "random", "randint", "urandom", "getrandbits")


def context_dependent(f: FuncInfo, expr: ast.AST, repo) -> str | None:
    """Why an expression depends on the invocation currently executing (None if it does not)."""
    for n in ast.walk(expr):
        if isinstance(n, ast.Attribute) and n.attr == "invocation" and isinstance(n.value, (ast.Name, ast.Attribute)):
            # <task>.invocation is a property reading the thread-local invocation context
            return ast.unparse(n)
        if isinstance(n, ast.Call) and call_name(n) in CONTEXT_SOURCES[1:]:
            return ast.unparse(n)[:60]
    return None


def _why_transitive(f: FuncInfo, expr: ast.AST, repo, depth: int = 4, seen: set | None = None) -> str | None:
    """context_dependent through the local definitions the expression is built from (flow-insensitive, bounded)"""
    why = context_dependent(f, expr, repo)
    if why is not None or depth == 0:
        return why
    seen = seen if seen is not None else set()
    for nm in sorted(names_in(expr)):
        if nm in seen or nm == "self":
            continue
        seen.add(nm)
        for v in c01._reaching_values(f, nm):
            why = _why_transitive(f, v, repo, depth - 1, seen)
            if why is not None:
                return why
    return None


def r1(ctx: Context) -> None:
    ctx.rule("R1", "no value derived from the currently executing invocation (Task.invocation / the context module) is memoised in a slot of an object that outlives one execution (Task, WorkflowContext, Pynenc: cached_property or `if self._x is None: self._x = ...`) unless the slot is keyed by that context")
    repo = ctx.repo
    # Task.invocation really is context dependent
    task = repo.cls("Task")
    inv = task.methods.get("invocation")
    ok = inv is not None and inv.is_property and any(call_name(c) in CONTEXT_SOURCES for c in calls_in(inv.node))
    ctx.add("R1", "Task.invocation::reads-execution-context", bool(ok), inv.loc() if inv else "", "" if ok else "Task.invocation no longer reads the thread-local invocation context (the taint source of this rule vanished)")
    n_slots = 0
    for cname in LONG_LIVED:
        c = repo.cls(cname)
        for m in c.methods.values():
            # any assignment self.<slot> = <value derived from the executing invocation> on a long-lived object
            for a in walk_no_nested(m.node):
                if isinstance(a, (ast.Assign, ast.AnnAssign)) and a.value is not None:
                    tgts = a.targets if isinstance(a, ast.Assign) else [a.target]
                    for t in tgts:
                        if isinstance(t, ast.Attribute) and isinstance(t.value, ast.Name) and t.value.id == "self":
                            slot = t.attr
                            n_slots += 1
                            why = _why_transitive(m, a.value, repo)
                            ok = why is None
                            ctx.add("R1", f"{m.qualname}::memo-slot::{slot}", ok, m.loc(a),
                                    "" if ok else f"self.{slot} stores {ast.unparse(a.value)[:70]}, built from {why} - the invocation executing at that moment. {cname} objects live for the whole process, so a later execution of the same task for another workflow (or a retry / replay of the same workflow) reuses the first executor: its workflow identity and its operation counters")
            # ... and any store INTO a container slot of a long-lived object (keyed or not): the same
            # invocation id executes more than once in one process (retry, recovery re-run), so a key
            # taken from the executing invocation does not make the stored value execution-scoped
            for a in walk_no_nested(m.node):
                val = None
                slot = None
                if isinstance(a, ast.Assign) and len(a.targets) == 1 and isinstance(a.targets[0], ast.Subscript):
                    t = a.targets[0]
                    base_ = t.value
                    if isinstance(base_, ast.Attribute) and isinstance(base_.value, ast.Name) and base_.value.id == "self":
                        slot, val = base_.attr, a.value
                elif isinstance(a, ast.Call) and isinstance(a.func, ast.Attribute) and a.func.attr in ("setdefault", "append", "add", "update", "insert") and isinstance(a.func.value, ast.Attribute) and isinstance(a.func.value.value, ast.Name) and a.func.value.value.id == "self" and a.args:
                    slot, val = a.func.value.attr, a.args[-1]
                if slot is None or val is None:
                    continue
                n_slots += 1
                why = _why_transitive(m, val, repo)
                ok = why is None
                ctx.add("R1", f"{m.qualname}::memo-container::{slot}", ok, m.loc(a),
                        "" if ok else f"self.{slot}[...] keeps {ast.unparse(val)[:60]}, built from {why}: {cname} objects live for the whole process and an invocation id is executed again on retry / recovery, so the second execution finds the first execution's executor with its advanced operation counters and draws fresh values instead of replaying")
            if any(d in ("cached_property", "functools.cached_property") for d in m.decorators):
                n_slots += 1
                why = None
                for r in walk_no_nested(m.node):
                    if isinstance(r, ast.Return) and r.value is not None:
                        why = why or context_dependent(m, r.value, repo)
                ok = why is None
                ctx.add("R1", f"{m.qualname}::cached-property", ok, m.loc(), "" if ok else f"cached_property computed from {why}")
    ctx.floor("R1", "memo slots on long-lived objects", n_slots, 8)
    # the executor keeps per-instance counters, so its lifetime must be one execution
    de = repo.cls("DeterministicExecutor")
    init = de.methods.get("__init__")
    ok = init is not None and "_operation_counters" in ast.unparse(init.node)
    ctx.add("R1", "DeterministicExecutor::per-instance-counters", bool(ok), init.loc() if init else "", "" if ok else "the replay position is no longer kept in the executor instance")


def r2(ctx: Context) -> None:
    ctx.rule("R2", "_deterministic_operation: key = f'{operation}:{sequence}' with sequence from the executor's counter; get_workflow_data(identity, key) precedes the generator call; a generated value is stored with set_workflow_data(same identity, same key, value) before it is returned; random / utc_now / uuid return only the wrapper's result")
    repo = ctx.repo
    de = repo.cls("DeterministicExecutor")
    f = de.methods.get("_deterministic_operation")
    if f is None:
        raise AnalysisError("anchor-vanished: _deterministic_operation")
    g = func_cfg(repo, f)
    pm = parent_map(f.node)
    p_op, p_gen = f.params[1], f.params[2]
    keys = [n for n in walk_no_nested(f.node) if isinstance(n, ast.Assign) and isinstance(n.value, ast.JoinedStr) and p_op in names_in(n.value)]
    # the sequence number: result of the counter helper, or (helper inlined by the loader) a read of the per-executor counters
    seq = assigned_from(f.node, lambda v: (isinstance(v, ast.Call) and call_name(v) == "_get_next_sequence") or any(isinstance(x, ast.Attribute) and x.attr == "_operation_counters" for x in ast.walk(v)))
    seq = derived_names(f.node, seq) if seq else seq
    key_name = None
    for k in keys:
        if names_in(k.value) & seq:
            key_name = k.targets[0].id
    ctx.add("R2", f"{f.qualname}::key=operation:sequence", key_name is not None, f.loc(), "" if key_name else "the record key is not built from the operation name and the per-executor sequence number")
    gets = [c for c in calls_in(f.node) if call_name(c) == "get_workflow_data" and len(c.args) >= 2 and isinstance(c.args[1], ast.Name) and c.args[1].id == key_name]
    sets = [c for c in calls_in(f.node) if call_name(c) == "set_workflow_data" and len(c.args) >= 3 and isinstance(c.args[1], ast.Name) and c.args[1].id == key_name]
    gens = [c for c in calls_in(f.node) if isinstance(c.func, ast.Name) and c.func.id == p_gen]
    ok = len(gets) == 1 and len(sets) == 1 and len(gens) == 1
    ctx.add("R2", f"{f.qualname}::one-lookup-one-generate-one-store", ok, f.loc(), "" if ok else f"{len(gets)} lookups / {len(gens)} generator calls / {len(sets)} stores for the record key")
    if ok:
        dom = g.dominators(exc_edges=False)
        gn = cfg_node_of(g, f.node, gets[0], pm)
        xn = cfg_node_of(g, f.node, gens[0], pm)
        sn = cfg_node_of(g, f.node, sets[0], pm)
        o = all(any(a.id in dom.get(b.id, set()) for a in gn) for b in xn)
        ctx.add("R2", f"{f.qualname}::lookup-before-generation", o, f.loc(gens[0]), "" if o else "a value can be generated without consulting the recorded one first")
        same_id = ast.unparse(gets[0].args[0]) == ast.unparse(sets[0].args[0]) == "self.workflow_identity"
        ctx.add("R2", f"{f.qualname}::same-workflow-identity", same_id, f.loc(sets[0]), "" if same_id else "lookup and store use different workflow identities")
        gv = assigned_from(f.node, lambda v: v is gens[0])
        o = isinstance(sets[0].args[2], ast.Name) and sets[0].args[2].id in gv
        ctx.add("R2", f"{f.qualname}::stores-the-generated-value", o, f.loc(sets[0]), "" if o else "the stored value is not the generated one")
        # every return after the generation is dominated by the store
        for r in [n for n in walk_no_nested(f.node) if isinstance(n, ast.Return)]:
            rn = cfg_node_of(g, f.node, r, pm)
            after_gen = all(any(a.id in dom.get(b.id, set()) for a in xn) for b in rn)
            if after_gen:
                o = all(any(a.id in dom.get(b.id, set()) for a in sn) for b in rn)
                ctx.add("R2", f"{f.qualname}::store-before-return", o, f.loc(r), "" if o else "a freshly generated value can be returned without having been recorded")
        # the replay branch returns the recorded value
        rec = assigned_from(f.node, lambda v: v is gets[0])
        rb = [n for n in walk_no_nested(f.node) if isinstance(n, ast.If) and isinstance(n.test, ast.Compare) and isinstance(n.test.ops[0], ast.IsNot) and names_in(n.test.left) & rec]
        o = bool(rb) and any(isinstance(x, ast.Return) and names_in(x.value) & rec for x in rb[0].body)
        ctx.add("R2", f"{f.qualname}::replay-returns-recorded-value", o, f.loc(), "" if o else "a recorded value is not returned as is")
    for nm in ("random", "utc_now", "uuid"):
        m = de.methods.get(nm)
        if m is None:
            raise AnalysisError(f"anchor-vanished: DeterministicExecutor.{nm}")
        wr = [c for c in calls_in(m.node) if call_name(c) == "_deterministic_operation"]
        res = assigned_from(m.node, lambda v: any(v is w for w in wr))
        rets = [n for n in walk_no_nested(m.node) if isinstance(n, ast.Return) and n.value is not None]
        o = len(wr) == 1 and all(any(x is wr[0] for x in ast.walk(r.value)) or bool(names_in(r.value) & res) for r in rets)
        ctx.add("R2", f"{m.qualname}::returns-only-the-wrapper-result", o, m.loc(), "" if o else "the public operation returns a value that did not pass through record-or-replay")
        # the public WorkflowContext method delegates
    wc = repo.cls("WorkflowContext")
    for nm in ("random", "utc_now", "uuid", "execute_task"):
        m = wc.methods.get(nm)
        if m is not None:
            o = any(isinstance(c.func, ast.Attribute) and c.func.attr == nm and "deterministic" in ast.unparse(c.func.value) for c in calls_in(m.node))
            ctx.add("R2", f"{m.qualname}::delegates-to-executor", o, m.loc(), "" if o else "")


def r3(ctx: Context) -> None:
    ctx.rule("R3", "generators seed only from workflow_identity.workflow_id, the operation name and the sequence; datetime.now / uuid4 / module-level random reach a returned value only through the record-or-replay wrapper (get_base_time stores before use)")
    repo = ctx.repo
    de = repo.cls("DeterministicExecutor")
    n = 0
    for f in repo.all_functions():
        if f.parent_func is None or f.parent_func.cls is not de:
            continue
        # nested generator functions
        n += 1
        seeds = [x for x in walk_no_nested(f.node) if isinstance(x, ast.Assign) and isinstance(x.value, ast.JoinedStr)]
        for s in seeds:
            parts = {ast.unparse(v.value) for v in s.value.values if isinstance(v, ast.FormattedValue)}
            seq_names = {t.id for n in walk_no_nested(f.node) if isinstance(n, ast.Assign) and "_operation_counters" in ast.unparse(n.value) for t in n.targets if isinstance(t, ast.Name)}
            ok = parts <= ({"self.workflow_identity.workflow_id"} | seq_names) and "self.workflow_identity.workflow_id" in parts
            ctx.add("R3", f"{f.qualname}::seed-inputs", ok, f.loc(s), "" if ok else f"seed built from {sorted(parts)}")
        bad = [ast.unparse(c)[:50] for c in calls_in(f.node) if call_name(c) in NONDET_CALLS and not (call_name(c) == "random" and isinstance(c.func, ast.Attribute) and isinstance(c.func.value, ast.Name) and c.func.value.id.startswith("temp"))]
        ctx.add("R3", f"{f.qualname}::no-nondeterministic-source", not bad, f.loc(), "" if not bad else f"non-deterministic calls inside the generator: {bad}")
    ctx.floor("R3", "value generators", n, 3)
    gb = de.methods.get("get_base_time")
    if gb is None:
        raise AnalysisError("anchor-vanished: get_base_time")
    g = func_cfg(repo, gb)
    pm = parent_map(gb.node)
    nows = [c for c in calls_in(gb.node) if call_name(c) == "now"]
    sets = [c for c in calls_in(gb.node) if call_name(c) == "set_workflow_data"]
    gets = [c for c in calls_in(gb.node) if call_name(c) == "get_workflow_data"]
    ok = len(nows) == 1 and len(sets) == 1 and len(gets) == 1
    if ok:
        dom = g.dominators(exc_edges=False)
        nn = cfg_node_of(g, gb.node, nows[0], pm)
        sn = cfg_node_of(g, gb.node, sets[0], pm)
        gn = cfg_node_of(g, gb.node, gets[0], pm)
        ok = all(any(a.id in dom.get(b.id, set()) for a in gn) for b in nn)
        for r in [x for x in walk_no_nested(gb.node) if isinstance(x, ast.Return)]:
            rn = cfg_node_of(g, gb.node, r, pm)
            if all(any(a.id in dom.get(b.id, set()) for a in nn) for b in rn):
                ok = ok and all(any(a.id in dom.get(b.id, set()) for a in sn) for b in rn)
    ctx.add("R3", f"{gb.qualname}::wall-clock-recorded-before-use", ok, gb.loc(), "" if ok else "the wall clock base time can be used without having been recorded for the workflow")
    # no other wall-clock / uuid use in the executor
    for m in de.methods.values():
        if m.name in ("get_base_time",):
            continue
        bad = [ast.unparse(c)[:40] for c in calls_in(m.node) if call_name(c) in ("now", "uuid4", "time") and "datetime" in ast.unparse(c) or call_name(c) == "uuid4"]
        ctx.add("R3", f"{m.qualname}::no-unrecorded-wall-clock", not bad, m.loc(), "" if not bad else f"{bad}")


def r4(ctx: Context) -> None:
    ctx.rule("R4", "DeterministicExecutor.execute_task: key built from call.call_id of Call(task, Arguments.from_call(...)); the recorded invocation id is looked up before the task is launched and stored after, both under self.workflow_identity; a recorded id returns the stored invocation")
    repo = ctx.repo
    de = repo.cls("DeterministicExecutor")
    f = de.methods.get("execute_task")
    if f is None:
        raise AnalysisError("anchor-vanished: DeterministicExecutor.execute_task")
    g = func_cfg(repo, f)
    pm = parent_map(f.node)
    keys = [n for n in walk_no_nested(f.node) if isinstance(n, ast.Assign) and isinstance(n.value, ast.JoinedStr) and "call_id" in ast.unparse(n.value)]
    ok = len(keys) == 1
    ctx.add("R4", f"{f.qualname}::key-from-call-identity", ok, f.loc(), "" if ok else "the sub-task record key is not derived from call.call_id")
    if not ok:
        return
    kn = keys[0].targets[0].id
    calls_ = assigned_from(f.node, lambda v: isinstance(v, ast.Call) and call_name(v) == "Call")
    args_ = assigned_from(f.node, lambda v: isinstance(v, ast.Call) and call_name(v) == "from_call")
    o = bool(names_in(keys[0].value) & calls_) and bool(args_)
    ctx.add("R4", f"{f.qualname}::identity-of-bound-arguments", o, f.loc(keys[0]), "" if o else "the identity is not computed from arguments bound through Arguments.from_call")
    gets = [c for c in calls_in(f.node) if call_name(c) == "get_workflow_data" and len(c.args) >= 2 and ast.unparse(c.args[1]) == kn]
    sets = [c for c in calls_in(f.node) if call_name(c) == "set_workflow_data" and len(c.args) >= 3 and ast.unparse(c.args[1]) == kn]
    launch = [c for c in calls_in(f.node) if isinstance(c.func, ast.Name) and c.func.id == f.params[1]]
    ok = len(gets) == 1 and len(sets) == 1 and len(launch) == 1
    ctx.add("R4", f"{f.qualname}::one-lookup-one-launch-one-store", ok, f.loc(), "" if ok else f"{len(gets)}/{len(launch)}/{len(sets)}")
    if ok:
        dom = g.dominators(exc_edges=False)
        gn, ln, sn = (cfg_node_of(g, f.node, x, pm) for x in (gets[0], launch[0], sets[0]))
        o = all(any(a.id in dom.get(b.id, set()) for a in gn) for b in ln)
        ctx.add("R4", f"{f.qualname}::lookup-before-launch", o, f.loc(launch[0]), "" if o else "the sub-task can be launched without checking for a recorded invocation")
        # launch only on the not-recorded branch
        rec = assigned_from(f.node, lambda v: v is gets[0])
        rb = [n for n in walk_no_nested(f.node) if isinstance(n, ast.If) and names_in(n.test) & rec and any(isinstance(x, ast.Return) for x in n.body)]
        o = bool(rb) and rb[0].lineno < launch[0].lineno and any("get_invocation" in ast.unparse(x) for x in rb[0].body)
        ctx.add("R4", f"{f.qualname}::recorded-invocation-returned-instead-of-relaunch", o, f.loc(), "" if o else "a recorded invocation id does not short-circuit the launch")
        inv = assigned_from(f.node, lambda v: v is launch[0])
        o = ast.unparse(gets[0].args[0]) == ast.unparse(sets[0].args[0]) == "self.workflow_identity" and any(isinstance(x, ast.Attribute) and x.attr == "invocation_id" and isinstance(x.value, ast.Name) and x.value.id in inv for x in ast.walk(sets[0].args[2]))
        ctx.add("R4", f"{f.qualname}::stores-launched-invocation-id-under-same-identity", o, f.loc(sets[0]), "" if o else "")
        # same arguments launched as hashed
        la = launch[0]
        o = any(isinstance(a, ast.Starred) for a in la.args) and any(k.arg is None for k in la.keywords)
        ctx.add("R4", f"{f.qualname}::launches-the-hashed-arguments", o, f.loc(la), "" if o else "the launched call does not forward *args/**kwargs that the identity was computed from")


def r5(ctx: Context, sites) -> None:
    ctx.rule("R5", "set_workflow_data / get_workflow_data of both state backends address values by (workflow_identity.workflow_id, key)")
    repo = ctx.repo
    sb = repo.cls("BaseStateBackend")
    for nm in ("set_workflow_data", "get_workflow_data"):
        ovs = [o for o in repo.overrides(sb, nm) if not o.is_abstract]
        if len(ovs) < 2:
            raise AnalysisError(f"anchor-vanished: fewer than two implementations of {nm}")
        for o in ovs:
            p_wf, p_key = o.params[1], o.params[2]
            ss = [s for s in sites if s.func is o]
            if ss:
                s = ss[0]
                ps = [ast.unparse(p) for p in (sqlmini.param_exprs(s) or [])]
                if s.verb == "SELECT":
                    conds = {c.split(".")[-1] for c, op, _ in sqlmini.conditions(sqlmini.where_clause(s.template)) if op == "="}
                    ok = {"workflow_id", "data_key"} <= conds or len(conds) >= 2
                else:
                    cols = sqlmini.insert_columns(s.template)
                    ok = len(cols) >= 3
                ok = ok and f"{p_wf}.workflow_id" in ps and p_key in ps
                ctx.add("R5", f"{o.qualname}::keyed-by-workflow-and-key", ok, s.where, "" if ok else f"parameters {ps}")
            else:
                txt = ast.unparse(o.node)
                ok = f"{p_wf}.workflow_id" in txt and (f"[{p_key}]" in txt or f".get({p_key}" in txt)
                ctx.add("R5", f"{o.qualname}::keyed-by-workflow-and-key", ok, o.loc(), "" if ok else "workflow data is not addressed by (workflow id, key)")
                if nm == "set_workflow_data":
                    # one record = one item store; replacing the workflow's whole mapping by an updated COPY loses the records a
                    # concurrent thread of the same workflow (the workflow task and a running sub-task) stored in between
                    from ..flow import read_copy_write_sites

                    rcw = read_copy_write_sites(o.node)
                    ctx.add("R5", f"{o.qualname}::record-stored-as-one-item", not rcw, o.loc(rcw[0][0]) if rcw else o.loc(), "" if not rcw else f"`{ast.unparse(rcw[0][0])[:70]}` replaces self.{rcw[0][1]}[...] by a value computed from a copy of it, without a lock: a record written by another thread of the same workflow between the copy and the store is lost - the re-execution launches the sub-task again / draws a new value")
            # a read that FAILED is not 'nothing recorded': the executor would generate and store a fresh value
            if nm == "get_workflow_data":
                swallow = [h for h in ast.walk(o.node) if isinstance(h, ast.ExceptHandler) and not (h.body and isinstance(h.body[-1], ast.Raise))]
                ctx.add("R5", f"{o.qualname}::read-errors-are-not-absence", not swallow, o.loc(swallow[0]) if swallow else o.loc(), "" if not swallow else f"`except {ast.unparse(swallow[0].type) if swallow[0].type else ''}` turns a failed read into the default ('no record yet'): on re-execution the deterministic executor then launches the sub-task again or stores a new value over the recorded one")


def r6(ctx: Context) -> None:
    """The replay position lives on the invocation OBJECT (WorkflowContext.deterministic keeps the executor there):
    the object must not outlive one execution."""
    from ..flow import build_cfg, cfg_node_of, parent_map, reaching_definitions

    ctx.rule("R6", "an invocation object is built anew for every lookup: each `return` of the state backends' get_invocation yields the result of a DistributedInvocation constructor call made in that same call (never a value taken from a slot of the backend), and the method is not wrapped by a cache decorator - the deterministic executor hangs on the object, so an object shared by two executions of one id (retry, recovery) makes the second draw fresh values instead of replaying")
    wc = ctx.repo.cls("WorkflowContext").methods.get("deterministic")
    on_obj = wc is not None and any(isinstance(a, ast.Assign) and any(isinstance(t, ast.Attribute) and t.attr == "_deterministic_executor" and isinstance(t.value, ast.Name) and t.value.id != "self" for t in a.targets) for a in ast.walk(wc.node))
    ctx.add("R6", "WorkflowContext.deterministic::executor-kept-on-the-invocation-object", bool(on_obj), wc.loc() if wc else "", "" if on_obj else "the executor is no longer kept on the executing invocation object: this rule's premise vanished (see R1 for slots of long-lived objects)")
    base = ctx.repo.cls("BaseStateBackend")
    n = 0
    for c in [base] + [x for x in ctx.repo.classes.values() if x is not base and base in x.mro()]:
        f = c.methods.get("get_invocation")
        if f is None:
            continue
        n += 1
        deco = [d for d in f.decorators if any(k in d for k in ("cache", "memo"))]
        ctx.add("R6", f"{f.qualname}::not-memoised", not deco, f.loc(), "" if not deco else f"decorated with {deco}: one object per id for the life of the backend")
        g = build_cfg(f.node)
        defs, IN = reaching_definitions(g)
        pm = parent_map(f.node)

        def fresh(v: ast.AST, at: ast.AST, depth: int = 0) -> str | None:
            if isinstance(v, ast.Call):
                t = ast.unparse(v.func)
                if t.split(".")[0].endswith("Invocation") or t.startswith("super()."):
                    return None
                return f"`{ast.unparse(v)[:60]}` is not a constructor call of the invocation class"
            if isinstance(v, ast.Name) and depth < 4:
                rd = {d for nd in cfg_node_of(g, f.node, at, pm) for d in IN[nd.id] if d.name == v.id}
                if not rd:
                    return f"`{v.id}` has no local definition"
                for d in rd:
                    if d.value is None or d.kind != "assign":
                        return f"`{v.id}` is bound by a {d.kind} definition"
                    holder = next((nd.ast for nd in g.nodes if nd.id == d.node and nd.ast is not None), at)
                    w = fresh(d.value, holder, depth + 1)
                    if w:
                        return w
                return None
            if isinstance(v, ast.NamedExpr):
                return fresh(v.value, at, depth + 1)
            return f"`{ast.unparse(v)[:60]}` is not built in this call"

        rets = [r for r in walk_no_nested(f.node) if isinstance(r, ast.Return) and r.value is not None]
        if not rets:
            raise AnalysisError(f"no-return: {f.qualname}")
        for k, r in enumerate(rets):
            why = fresh(r.value, r)
            ctx.add("R6", f"{f.qualname}::returns-a-freshly-built-object::{k}", why is None, f.loc(r), "" if why is None else f"{why}: a caller can receive the object of an earlier execution of the same id, with its executor and advanced operation counters")
        stores = [a for a in walk_no_nested(f.node) if isinstance(a, ast.Assign) and any(isinstance(t, (ast.Subscript, ast.Attribute)) and ast.unparse(t).startswith("self.") for t in a.targets)]
        ctx.add("R6", f"{f.qualname}::keeps-no-reference", not stores, f.loc(stores[0]) if stores else f.loc(), "" if not stores else f"`{ast.unparse(stores[0])[:70]}` keeps a reference in the backend")
    ctx.floor("R6", "get_invocation implementations", n, 1)


def run(ctx: Context) -> None:
    sites = sqlmini.sites(ctx.repo)
    r1(ctx)
    r2(ctx)
    r3(ctx)
    r4(ctx)
    r5(ctx, sites)
    r6(ctx)
    ctx.exhaustive = True
    ctx.not_decided += [
        "concurrent executions of one workflow: lookup-then-store is check-then-act (observation, not armed)",
        "the values themselves (which float / uuid) - only their provenance",
    ]
