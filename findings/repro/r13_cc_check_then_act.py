# C06/R4: the concurrency guard and the transition it guards are two store operations.
# Schedule: two runners evaluate the guard for two same-key invocations before either claims / starts.
import logging; logging.disable(logging.CRITICAL)
import threading, time
import t_tasks as T
from pynenc.runner.runner_context import RunnerContext
app = T.app; app.purge(); orch = app.orchestrator
a = T.excl(7); b = T.excl(7)                      # same key (ARGUMENTS), single-call path: both indexed
rcs = {"A": RunnerContext("A"), "B": RunnerContext("B")}
def at_barrier(orig, bar):
    def w(inv):
        r = orig(inv)
        try: bar.wait(timeout=2)
        except Exception: pass
        return r
    return w
# --- claim side: both pollers pass is_candidate before either requests PENDING
orig = orch.is_candidate_to_run_by_concurrency_control
orch.is_candidate_to_run_by_concurrency_control = at_barrier(orig, threading.Barrier(2))
got = {}
def poll(name):
    got[name] = [i.invocation_id for i in orch.get_invocations_to_run(1, rcs[name])]
ts = [threading.Thread(target=poll, args=(n,)) for n in rcs]
[t.start() for t in ts]; [t.join() for t in ts]
orch.is_candidate_to_run_by_concurrency_control = orig
print("claimed per runner:", {k: len(v) for k, v in got.items()}, " statuses:", [orch.get_invocation_status(i.invocation_id).name for i in (a, b)])
# --- run side: both workers pass is_authorize before either requests RUNNING
orig2 = orch.is_authorize_to_run_by_concurrency_control
orch.is_authorize_to_run_by_concurrency_control = at_barrier(orig2, threading.Barrier(2))
observed = []
def body(x):
    time.sleep(0.2)
    observed.append(sorted(orch.get_invocation_status(i.invocation_id).name for i in (a, b)))
    time.sleep(0.2)
    return x
T.excl.func = body
ws = [threading.Thread(target=app.state_backend.get_invocation(got[n][0]).run, args=(rcs[n],)) for n in rcs if got[n]]
[t.start() for t in ws]; [t.join() for t in ws]
print("statuses seen from inside the task bodies:", observed)
