from pynenc import Pynenc, PynencBuilder
from pynenc.conf.config_task import ConcurrencyControlType as CC
app = PynencBuilder().memory().app_id("triage").build()

@app.task
def add(x: int, y: int = 2) -> int:
    return x + y

@app.task(running_concurrency=CC.ARGUMENTS)
def excl(x: int) -> int:
    return x

@app.task(running_concurrency=CC.TASK, reroute_on_concurrency_control=False)
def excl_final(x: int) -> int:
    return x

@app.task(running_concurrency=CC.TASK, reroute_on_concurrency_control=True)
def excl_reroute(x: int) -> int:
    return x

@app.task
def three(x: int, y: int = 2, z: int = 3) -> int:
    return x


@app.task
def parent_waits_for_child(x: int) -> int:
    # the child is routed and then awaited: the parent blocks in DistributedInvocation.result
    return add(x, 1).result
