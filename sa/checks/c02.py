"""C02 - an invocation is held by at most one runner at a time under any interleaving.

R1 SQLite claim = one BEGIN IMMEDIATE critical section (status transition and queue pop)
R2 in-memory claim = read-validate-write under one per-invocation lock
R3 the per-invocation lock table hands out ONE lock per invocation (atomic get-or-create)
R4 single writer of the status record (shared with C01)
R5 losers of the race are skipped, only successfully claimed invocations are yielded
R6 the task body is reachable only through a successful, ownership-checked RUNNING request
"""

from __future__ import annotations

import ast

from .. import sqlmini
from ..critsec import inside, lock_withs, mem_section, sqlite_critical_section
from ..flow import (ExcHierarchy, call_name, calls_in, cfg_node_of, derived_names, func_cfg, names_in,
                    parent_map, self_attr, status_sites)
from ..loader import AnalysisError, FuncInfo, walk_no_nested
from ..report import Context
from ..statusmodel import extract
from . import c01

PROPERTY = "C02"
TECHNIQUE = "static analysis: critical-section automaton over the CFG (BEGIN IMMEDIATE ... commit on one connection; `with <lock>` blocks), lock-identity rule for the per-invocation lock table, single-writer rule, exception-edge rule for losers of the claim race, must-pass-through of the ownership-checked RUNNING request before the task body"
LEVEL_TEXT = "Necessary structural conditions of mutual exclusion decided on every path of the claim code of both backends; the interleaving semantics of threading.Lock and SQLite's BEGIN IMMEDIATE are trusted, not modelled."


def r1_sqlite(ctx: Context, all_sites) -> None:
    ctx.rule("R1", "SQLite: the read-validate-write of a status transition and the select-delete of a queue pop run inside one `with connection` block whose first statement is BEGIN IMMEDIATE, on one connection, with no commit between read and write")
    repo = ctx.repo
    targets: list[FuncInfo] = []
    sq = repo.cls("SQLiteOrchestrator")
    f = sq.methods.get("_atomic_status_transition")
    if f is None:
        raise AnalysisError("anchor-vanished: SQLiteOrchestrator._atomic_status_transition")
    targets.append(f)
    br = repo.cls("SQLiteBroker").methods.get("retrieve_invocation")
    if br is None:
        raise AnalysisError("anchor-vanished: SQLiteBroker.retrieve_invocation")
    targets.append(br)
    for t in targets:
        res = sqlite_critical_section(repo, t, all_sites)
        opt = False
        if t.name == "retrieve_invocation" and t.cls is not None:
            from .c08 import _optimistic_claim

            opt, _ = _optimistic_claim(ctx, t.cls, t, all_sites)
        for r in res:
            if opt and not r.ok and ("::lock-before-read::" in r.key or "::no-commit-between::" in r.key):
                ctx.ok("R1", r.key, r.where, "optimistic claim on never-reused AUTOINCREMENT ids (C08/R1)")
                continue
            ctx.add("R1", r.key, r.ok, r.where, r.detail)
    ctx.floor("R1", "functions with an atomic read-write contract", len(targets), 2)


def _lock_source(f: FuncInfo, expr: ast.AST, id_param: str):
    """Is expr a lock obtained from a per-invocation table indexed by id_param?
    Returns (ok, provider FuncInfo | None)."""
    # direct: self.locks[invocation_id] / self._get_lock(invocation_id) / name assigned from those
    cand: list[ast.AST] = [expr]
    if isinstance(expr, ast.Name):
        cand = c01._reaching_values(f, expr.id)
    # the id parameter or a plain copy of it (`k = invocation_id`, as left by an inlined helper's parameter binding)
    ids = {id_param} | {n.targets[0].id for n in walk_no_nested(f.node) if isinstance(n, ast.Assign) and len(n.targets) == 1 and isinstance(n.targets[0], ast.Name) and isinstance(n.value, ast.Name) and n.value.id == id_param}
    for v in cand:
        if not (ids & names_in(v)):
            continue
        if isinstance(v, ast.Call) and isinstance(v.func, ast.Attribute) and isinstance(v.func.value, ast.Name) and v.func.value.id == "self" and f.cls is not None:
            prov = f.cls.find_method(v.func.attr)
            if prov is not None:
                return True, prov
        if isinstance(v, (ast.Subscript, ast.Call)) and self_attr(v) is not None:
            _lock_source.last_direct = v  # type: ignore[attr-defined]  (the table access the lock is taken from)
            return True, None
    return False, None


def r2_r3_mem(ctx: Context) -> None:
    ctx.rule("R2", "in-memory: the record read, the validation and every write of the atomic transition are lexically inside `with L:` where L comes from a per-invocation lock table indexed by the invocation_id parameter")
    ctx.rule("R3", "the function handing out the per-invocation lock is an atomic get-or-create (dict.setdefault, defaultdict subscript, or check-and-insert under a table-level lock), never an unlocked check-then-insert")
    repo = ctx.repo
    mem = repo.cls("MemOrchestrator")
    f = mem.methods.get("_atomic_status_transition")
    if f is None:
        raise AnalysisError("anchor-vanished: MemOrchestrator._atomic_status_transition")
    id_param = f.params[1]
    providers: list[FuncInfo] = []
    direct_exprs: list[ast.AST] = []

    def lock_pred(e: ast.AST) -> bool:
        ok, prov = _lock_source(f, e, id_param)
        if ok and prov is not None and prov not in providers:
            providers.append(prov)
        if ok and prov is None:
            direct_exprs.append(getattr(_lock_source, "last_direct", e))
        return ok

    ws = [w for w in lock_withs(f) if any(lock_pred(i.context_expr) for i in w.items)]
    ctx.add("R2", f"{f.qualname}::per-invocation-lock-block", bool(ws), f.loc(), "" if ws else "no `with <per-invocation lock>:` block keyed by the invocation_id parameter")
    # validate call + helper calls inside the block
    for c in calls_in(f.node):
        nm = call_name(c)
        if nm == "status_record_transition" or (c01._is_helper_call(repo, f, c) and _helper_writes_record(f, c)):
            ok = any(inside(c, w) for w in ws)
            ctx.add("R2", f"{f.qualname}::under-lock::call:{nm}", ok, f.loc(c), "" if ok else f"{nm}(...) runs outside the per-invocation lock")
    for r in mem_section(f, c01.MEM_RECORD_ATTRS, lock_pred):
        ctx.add("R2", r.key, r.ok, r.where, r.detail)
    ctx.floor("R2", "in-memory section obligations", ctx.count("R2"), 4)
    # ---- R3
    if not providers and not direct_exprs:
        ctx.fail("R3", f"{f.qualname}::lock-provider", f.loc(), "cannot identify where the per-invocation lock comes from")
    seen_tables: set[str] = set()
    for e in direct_exprs:
        # the lock is taken from the table inside this very function (no hand-out helper, or the helper was inlined):
        # the same idioms are accepted, judged over this function's accesses of the table
        a = self_attr(e)
        if a is None or a in seen_tables:
            continue
        seen_tables.add(a)
        ok, why = _provider_atomic(mem, f, a)
        ctx.add("R3", f"{f.qualname}::atomic-get-or-create", ok, f.loc(e), why)
    for p in providers:
        ok, why = _provider_atomic(mem, p)
        ctx.add("R3", f"{p.qualname}::atomic-get-or-create", ok, p.loc(), why)
    # one lock per invocation for as long as anybody may be waiting on it: entries of the lock table are never removed
    # while the store lives (a waiter holds the OLD lock object, the next arrival would create a NEW one: two holders)
    tables = set(seen_tables)
    for p in providers:
        tables |= {self_attr(n) for n in walk_no_nested(p.node) if isinstance(n, (ast.Subscript, ast.Call)) and self_attr(n)}
    tables.discard(None)
    removed = []
    for m in mem.methods.values():
        if m.name in ("purge", "__init__"):
            continue
        for n in walk_no_nested(m.node):
            if isinstance(n, ast.Call) and isinstance(n.func, ast.Attribute) and n.func.attr in ("pop", "popitem", "clear") and self_attr(n.func) in tables and isinstance(n.func.value, ast.Attribute):
                removed.append((m, n))
            elif isinstance(n, ast.Delete) and any(isinstance(t, ast.Subscript) and self_attr(t) in tables for t in n.targets):
                removed.append((m, n))
            elif isinstance(n, ast.Assign) and any(isinstance(t, ast.Attribute) and isinstance(t.value, ast.Name) and t.value.id == "self" and t.attr in tables for t in n.targets):
                # the table itself is replaced (rebuilt without some keys, or from a snapshot): every lock handed out from the
                # old table - or inserted into it since the snapshot - is gone from the new one
                removed.append((m, n))
    ctx.add("R3", f"{mem.qualname}::per-invocation-locks-are-never-discarded", not removed, removed[0][0].loc(removed[0][1]) if removed else f.loc(), "" if not removed else f"`{ast.unparse(removed[0][1])[:60]}` in {removed[0][0].name} removes a per-invocation lock while another thread may be blocked on that very object: the blocked thread and the next arrival (which creates a fresh lock) both enter read-validate-write")


def _helper_writes_record(f: FuncInfo, c: ast.Call) -> bool:
    from ..flow import mem_store_writes

    h = f.cls.find_method(c.func.attr) if f.cls else None
    return h is not None and any(w.attr in c01.MEM_RECORD_ATTRS for w in mem_store_writes(h.node))


def _is_defaultdict_of_lock(cls, attr: str | None) -> bool:
    if attr is None:
        return False
    for m in cls.methods.values():
        for n in walk_no_nested(m.node):
            val = None
            if isinstance(n, ast.Assign) and any(isinstance(t, ast.Attribute) and t.attr == attr for t in n.targets):
                val = n.value
            elif isinstance(n, ast.AnnAssign) and isinstance(n.target, ast.Attribute) and n.target.attr == attr:
                val = n.value
            if isinstance(val, ast.Call) and call_name(val) == "defaultdict" and val.args and "Lock" in ast.unparse(val.args[0]):
                return True
    return False


def _provider_atomic(cls, p: FuncInfo, table: str | None = None) -> tuple[bool, str]:
    """Accepted idioms: self.T.setdefault(k, Lock()); self.T[k] with T a defaultdict(Lock); membership test +
    insert both inside one `with <table lock>` block.  With `table` given only accesses of self.<table> count
    (the hand-out happens inside a larger function)."""
    mine = (lambda a: a is not None and (table is None or a == table))  # noqa: E731
    rets = [n for n in walk_no_nested(p.node) if isinstance(n, ast.Return) and n.value is not None]
    tests = []
    for n in walk_no_nested(p.node):
        if isinstance(n, ast.Compare) and any(isinstance(op, (ast.In, ast.NotIn)) for op in n.ops) and any(mine(self_attr(c)) for c in n.comparators):
            tests.append(n)
        if isinstance(n, ast.Call) and call_name(n) == "get" and mine(self_attr(n.func)):
            tests.append(n)
    inserts = [n for n in walk_no_nested(p.node) if isinstance(n, ast.Assign) and any(isinstance(t, ast.Subscript) and mine(self_attr(t)) for t in n.targets)]
    if not tests and not inserts:
        for r in rets:
            v = r.value
            if isinstance(v, ast.Call) and call_name(v) == "setdefault" and mine(self_attr(v.func)):
                return True, ""
            if isinstance(v, ast.Subscript) and mine(self_attr(v)) and _is_defaultdict_of_lock(cls, self_attr(v)):
                return True, ""
        # setdefault assigned to a local then returned / used
        for n in walk_no_nested(p.node):
            if isinstance(n, ast.Call) and call_name(n) == "setdefault" and mine(self_attr(n.func)):
                return True, ""
            if table is not None and isinstance(n, ast.Subscript) and self_attr(n) == table and _is_defaultdict_of_lock(cls, table):
                return True, ""
        return False, "unrecognised lock hand-out idiom"
    # check-then-insert: must be inside one with-block on a lock attribute
    for w in lock_withs(p):
        if all(inside(t, w) for t in tests) and all(inside(i, w) for i in inserts) and any(self_attr(it.context_expr) for it in w.items):
            return True, ""
    return False, ("`if key not in table: table[key] = Lock()` without a table-level lock: two first-time claimers of one invocation can obtain two different locks and both pass read-validate-write")


def r5_losers(ctx: Context) -> None:
    ctx.rule("R5", "in the claiming generators every PENDING request is inside a try whose handler catches InvocationStatusError and does not yield; every yielded invocation is reachable only through the normal exit of a PENDING request for the same invocation in the same loop iteration")
    repo = ctx.repo
    hier = ExcHierarchy(repo)
    sites = [s for s in status_sites(repo) if s.status == "PENDING"]
    claimers: dict[str, FuncInfo] = {}
    for s in sites:
        claimers[s.func.qualname] = s.func
    ctx.floor("R5", "PENDING request sites", len(sites), 2)
    for s in sites:
        f = s.func
        pm = parent_map(f.node)
        # enclosing try with handler for InvocationStatusError
        handler = None
        cur = pm.get(id(s.call))
        child: ast.AST = s.call
        while cur is not None:
            if isinstance(cur, ast.Try) and any(child is b or inside(child, b) for b in cur.body):
                for h in cur.handlers:
                    if hier.handler_catches(h, "InvocationStatusTransitionError") and hier.handler_catches(h, "InvocationStatusOwnershipError"):
                        handler = h
                        break
                if handler:
                    break
            child = cur
            cur = pm.get(id(cur))
        ok = handler is not None
        ctx.add("R5", f"{f.qualname}::claim-in-try::S(PENDING)", ok, s.where, "" if ok else "a PENDING request that loses the race raises InvocationStatusError out of the poll instead of skipping the invocation")
        if handler is not None:
            ys = [n for n in ast.walk(handler) if isinstance(n, (ast.Yield, ast.YieldFrom))]
            ctx.add("R5", f"{f.qualname}::loser-not-yielded", not ys, f.loc(handler), "" if not ys else "the handler of a failed claim yields the invocation")
    # yields
    for f in claimers.values():
        g = func_cfg(repo, f)
        pm = parent_map(f.node)
        pend_nodes = set()
        for s in sites:
            if s.func is f:
                for n in cfg_node_of(g, f.node, s.call, pm):
                    pend_nodes.add(n.id)
        yields = [n for n in walk_no_nested(f.node) if isinstance(n, (ast.Yield, ast.YieldFrom))]
        ctx.floor("R5", f"yields in {f.name}", len(yields), 1)
        for y in yields:
            ynodes = cfg_node_of(g, f.node, y, pm)
            reach = c01._reachable_without_normal_exit(g, pend_nodes)
            ok = all(n.id not in reach for n in ynodes)
            # same access path: the yielded value derives from the id given to the PENDING request
            id_names = set()
            for s in sites:
                if s.func is f and s.id_expr is not None:
                    id_names |= names_in(s.id_expr)
            dn = derived_names(f.node, id_names)
            yv = names_in(y.value) if y.value is not None else set()
            same = bool(yv & dn)
            ctx.add("R5", f"{f.qualname}::yield-after-claim", ok and same, f.loc(y),
                    "" if ok and same else ("an invocation can be yielded on a path that did not successfully request PENDING for it" if not ok else f"the yielded value {sorted(yv)} is not the invocation whose PENDING request succeeded ({sorted(id_names)})"))
    # the composing generator only forwards what the claimers produced
    base = repo.cls("BaseOrchestrator")
    comp = base.methods.get("get_invocations_to_run")
    if comp is None:
        raise AnalysisError("anchor-vanished: BaseOrchestrator.get_invocations_to_run")
    claimer_names = {f.name for f in claimers.values()}
    for y in [n for n in walk_no_nested(comp.node) if isinstance(n, (ast.Yield, ast.YieldFrom))]:
        if isinstance(y, ast.YieldFrom):
            ok = isinstance(y.value, ast.Call) and call_name(y.value) in claimer_names
        else:
            # value derives from a for-loop variable iterating a claimer
            loopvars = set()
            for n in walk_no_nested(comp.node):
                if isinstance(n, ast.For) and isinstance(n.iter, ast.Call) and call_name(n.iter) in claimer_names:
                    loopvars |= names_in(n.target)
            ok = bool(names_in(y.value) & derived_names(comp.node, loopvars)) if y.value is not None else False
        ctx.add("R5", f"{comp.qualname}::forwards-only-claimed", ok, comp.loc(y), "" if ok else "get_invocations_to_run yields an invocation that did not come out of a claiming generator")
    # run loops consume it with their own runner context
    n_cons = 0
    for f in repo.all_functions():
        for c in calls_in(f.node):
            if call_name(c) == "get_invocations_to_run" and f.name != "get_invocations_to_run":
                n_cons += 1
    ctx.analysed["consumers_of_get_invocations_to_run"] = n_cons


def r6_body(ctx: Context, sm) -> None:
    ctx.rule("R6", "the task body (task.func) executes only after the normal exit of set_invocation_status(RUNNING) issued with the runner context parameter; set_invocation_status forwards runner_ctx.runner_id to the atomic transition; PENDING acquires+requires ownership, RUNNING/PAUSED/RESUMED require it")
    repo = ctx.repo
    f = repo.cls("DistributedInvocation").methods.get("run")
    if f is None:
        raise AnalysisError("anchor-vanished: DistributedInvocation.run")
    g = func_cfg(repo, f)
    pm = parent_map(f.node)
    body_calls = [c for c in calls_in(f.node) if any(isinstance(n, ast.Attribute) and n.attr == "func" and "task" in ast.unparse(n.value) for a in list(c.args) + [c.func] for n in ast.walk(a))]
    ctx.floor("R6", "task body call sites", len(body_calls), 1)
    run_sites = [s for s in status_sites(repo) if s.func is f and s.status == "RUNNING"]
    rn = set()
    for s in run_sites:
        for n in cfg_node_of(g, f.node, s.call, pm):
            rn.add(n.id)
        ok = isinstance(s.ctx_expr, ast.Name) and s.ctx_expr.id in f.params
        ctx.add("R6", f"{f.qualname}::RUNNING-uses-runner-ctx", ok, s.where, "" if ok else "the RUNNING request is not issued with the runner context handed to run()")
        ok = s.id_expr is not None and ast.unparse(s.id_expr) == "self.invocation_id"
        ctx.add("R6", f"{f.qualname}::RUNNING-for-self", ok, s.where, "" if ok else "the RUNNING request is for another invocation id")
    reach = c01._reachable_without_normal_exit(g, rn)
    for c in body_calls:
        ok = bool(rn) and all(n.id not in reach for n in cfg_node_of(g, f.node, c, pm))
        ctx.add("R6", f"{f.qualname}::body-after-RUNNING", ok, f.loc(c), "" if ok else "the task body can execute on a path that did not pass a successful RUNNING request (ownership check skipped)")
    # set_invocation_status forwards the requester id
    sis = repo.cls("BaseOrchestrator").methods.get("set_invocation_status")
    if sis is None:
        raise AnalysisError("anchor-vanished: BaseOrchestrator.set_invocation_status")
    for c in calls_in(sis.node):
        if call_name(c) == "_atomic_status_transition":
            a = list(c.args)
            ctxp = sis.params[3] if len(sis.params) > 3 else "runner_ctx"
            ok = len(a) >= 3 and ast.unparse(a[0]) == sis.params[1] and ast.unparse(a[1]) == sis.params[2] and ast.unparse(a[2]) == f"{ctxp}.runner_id"
            ctx.add("R6", "set_invocation_status::forwards-id-status-requester", ok, sis.loc(c), "" if ok else f"arguments are {[ast.unparse(x) for x in a]}")
    d = sm.defs
    facts = {
        "PENDING:acquires_ownership": d["PENDING"]["acquires_ownership"],
        "PENDING:requires_ownership": d["PENDING"]["requires_ownership"],
        "RUNNING:requires_ownership": d["RUNNING"]["requires_ownership"],
        "PAUSED:requires_ownership": d["PAUSED"]["requires_ownership"],
        "RESUMED:requires_ownership": d["RESUMED"]["requires_ownership"],
    }
    for k, v in facts.items():
        ctx.add("R6", f"table::{k}", bool(v), sm.module.relpath, "" if v else f"{k} is False in the status table")
    # nobody but recovery overrides ownership
    ok = sm.overriding == {"PENDING_RECOVERY", "RUNNING_RECOVERY"}
    ctx.add("R6", "table::only-recovery-overrides", ok, sm.module.relpath, "" if ok else f"overrides_ownership: {sorted(sm.overriding)}")
    # re-claim needs a release in between: PENDING reachable only from statuses that carry no owner
    bad = [p for p in sm.preds("PENDING") if p != "START" and not sm.defs[p]["releases_ownership"]]
    ctx.add("R6", "table::PENDING-only-from-released", not bad, sm.module.relpath, "" if not bad else f"PENDING can be entered from {bad}, which still carry an owner")


def _always_raises(stmts: list[ast.stmt]) -> bool:
    """every path through the statement list ends in `raise` (syntactic, conservative)"""
    if not stmts:
        return False
    last = stmts[-1]
    if isinstance(last, ast.Raise):
        return True
    if isinstance(last, ast.If):
        return bool(last.orelse) and _always_raises(last.body) and _always_raises(last.orelse)
    if isinstance(last, (ast.With, ast.AsyncWith)):
        return _always_raises(last.body)
    return False


def r7_refusal_propagates(ctx: Context) -> None:
    ctx.rule("R7", "a refused request is an error for its caller: in set_invocation_status (and in each backend's atomic transition around status_record_transition) no `except` around the transition ends without raising - the claiming generators skip an invocation only because the PENDING request RAISED; a refusal turned into a normal return hands the loser of a claim race the invocation the winner holds")
    bo = ctx.repo.cls("BaseOrchestrator")
    targets: list[tuple[FuncInfo, str]] = []
    f = bo.methods.get("set_invocation_status")
    if f is None:
        raise AnalysisError("anchor-vanished: BaseOrchestrator.set_invocation_status")
    targets.append((f, "_atomic_status_transition"))
    for o in ctx.repo.overrides(bo, "_atomic_status_transition"):
        if not o.is_abstract:
            targets.append((o, "status_record_transition"))
    n = 0
    for fn_, callee in targets:
        pm = parent_map(fn_.node)
        for c in [x for x in calls_in(fn_.node) if call_name(x) == callee]:
            n += 1
            bad = None
            cur: ast.AST = c
            while True:
                par = pm.get(id(cur))
                if par is None:
                    break
                if isinstance(par, ast.Try) and any(cur is b_ or any(cur is y for y in ast.walk(b_)) for b_ in par.body):
                    for h in par.handlers:
                        if not _always_raises(h.body):
                            bad = h
                cur = par
            ctx.add("R7", f"{fn_.qualname}::refusal-of::{callee}::propagates", bad is None, fn_.loc(bad) if bad is not None else fn_.loc(c), "" if bad is None else f"`except {ast.unparse(bad.type) if bad.type is not None else ''}` around {callee} has a path that ends without `raise`: the request was refused (wrong predecessor, not the owner, lost race) and the caller continues as if it had been granted")
    ctx.floor("R7", "transition call sites", n, 3)


def r8_own_identity(ctx: Context) -> None:
    ctx.rule("R8", "a runner requests statuses under an identity it owns: every runner id given to new_child_context / RunnerContext in the runner package is a parameter, a key of the runner's own worker registry, or freshly generated - never a value taken from a caught error or read back from the orchestrator / state backend (the current owner's id): ownership is checked by comparing ids, so a context built from the owner's id moves another runner's invocation")
    n = 0
    for f in ctx.repo.all_functions():
        if not f.module.name.startswith("pynenc.runner"):
            continue
        handler_names = {h.name for h in ast.walk(f.node) if isinstance(h, ast.ExceptHandler) and h.name}
        read_back: set[str] = set()
        for st in walk_no_nested(f.node):
            if isinstance(st, ast.Assign) and isinstance(st.value, (ast.Call, ast.Attribute)):
                txt = ast.unparse(st.value)
                if any(k in txt for k in ("orchestrator.", "state_backend.", "get_invocation_status_record", "status_record")):
                    read_back |= {t.id for t in st.targets if isinstance(t, ast.Name)}
        for c in calls_in(f.node):
            nm = call_name(c)
            if nm not in ("new_child_context", "RunnerContext"):
                continue
            v = next((k.value for k in c.keywords if k.arg == "runner_id"), None)
            if v is None and nm == "new_child_context" and len(c.args) > 1:
                v = c.args[1]
            if v is None and nm == "RunnerContext" and len(c.args) > 1:
                v = c.args[1]
            if v is None:
                continue
            n += 1
            names = {x.id for x in ast.walk(v) if isinstance(x, ast.Name)}
            txt = ast.unparse(v)
            why = None
            if names & handler_names:
                why = f"`{txt}` comes from the caught error `{sorted(names & handler_names)[0]}`"
            elif names & read_back or any(k in txt for k in ("orchestrator.", "state_backend.")):
                why = f"`{txt}` is read back from the orchestrator / state backend"
            ctx.add("R8", f"{f.qualname}::runner-id-is-own::{nm}", why is None, f.loc(c), "" if why is None else f"{why}: the context carries the id of whoever owns the invocation now, the ownership check passes for a runner that does not own it - e.g. a stopping runner kills and re-routes an invocation another runner is executing, and the body runs in two workers at once")
    ctx.floor("R8", "runner contexts built with an explicit id", n, 3)


def run(ctx: Context) -> None:
    sm = extract(ctx.repo)
    all_sites = sqlmini.sites(ctx.repo)
    ctx.analysed["sql_sites"] = len(all_sites)
    r1_sqlite(ctx, all_sites)
    r2_r3_mem(ctx)
    c01.r4_single_writer(ctx, sm)
    r5_losers(ctx)
    r6_body(ctx, sm)
    r7_refusal_propagates(ctx)
    r8_own_identity(ctx)
    ctx.exhaustive = True
    ctx.not_decided += [
        "that SQLite BEGIN IMMEDIATE / threading.Lock provide mutual exclusion (trusted base)",
        "overlap of task-body executions across processes after a kill (needs a schedule explorer)",
    ]
    ctx.assumptions += ["CPython dict.setdefault on str keys is atomic under the GIL"]
