"""C04 - recovery re-queues stuck PENDING/RUNNING work and never steals live work.

R1 scan predicates of both backends, normalised and compared with the property's wording
   (PENDING: status_timestamp <= now - max_pending; RUNNING: owner not none and no heartbeat
   row or last_heartbeat < now - timeout), same clock, status filter present
R2 only the recovery tasks request the recovery statuses, and the table allows them only from
   PENDING resp. RUNNING (a progressed invocation is rejected, not stolen)
R3 a recovery run that loses a race still re-queues everything it had taken (typestate engine:
   no exit with an invocation left in *_RECOVERY)
R4 the parent reports child heartbeats on every loop iteration, for live children only
R5 a spawned worker's runner id is fresh (uuid4 / new_child_context), never one an earlier worker used
"""

from __future__ import annotations

import ast

from .. import sqlmini
from ..flow import call_name, calls_in, names_in, self_attr, status_sites
from ..loader import AnalysisError, FuncInfo, walk_no_nested
from ..report import Context
from ..statusmodel import extract
from ..typestate import Budget, Engine, State
from . import c01

PROPERTY = "C04"
TECHNIQUE = "static analysis: normalised comparison extraction (Python Compare nodes vs SQL WHERE operators) against the documented predicate, who-may-call, typestate path enumeration with exception edges for the recovery tasks"

FLIP = {"<": ">", ">": "<", "<=": ">=", ">=": "<=", "==": "==", "!=": "!="}
NEG = {"<": ">=", ">": "<=", "<=": ">", ">=": "<", "==": "!=", "!=": "=="}
OPS = {ast.Lt: "<", ast.Gt: ">", ast.LtE: "<=", ast.GtE: ">=", ast.Eq: "==", ast.NotEq: "!="}


def cutoff_facts(f: FuncInfo) -> dict:
    """cutoff = now - limit with now = time(): returns {'cutoff': name, 'now_from_time': bool, 'limit': text}"""
    out = {"cutoff": None, "now_from_time": False, "limit": None}
    now_names = set()
    for n in walk_no_nested(f.node):
        if isinstance(n, ast.Assign) and isinstance(n.value, ast.Call) and call_name(n.value) == "time" and not n.value.args:
            now_names |= {t.id for t in n.targets if isinstance(t, ast.Name)}
    for n in walk_no_nested(f.node):
        if isinstance(n, ast.Assign) and isinstance(n.value, ast.BinOp) and isinstance(n.value.op, ast.Sub):
            l, r = n.value.left, n.value.right
            is_now = (isinstance(l, ast.Name) and l.id in now_names) or (isinstance(l, ast.Call) and call_name(l) == "time")
            if is_now:
                out["cutoff"] = n.targets[0].id if isinstance(n.targets[0], ast.Name) else None
                out["now_from_time"] = True
                lim = ast.unparse(r)
                if isinstance(r, ast.Name):
                    srcs = c01._reaching_values(f, r.id)
                    lim = " | ".join(ast.unparse(v) for v in srcs) or (r.id if r.id in f.params else lim)
                out["limit"] = lim
    return out


def py_compares(f: FuncInfo, cutoff: str) -> list[tuple[str, str, bool]]:
    """Comparisons against the cutoff, normalised to (stored-quantity text, OP, selects?) where the
    comparison reads 'stored OP cutoff' and selects tells whether a true outcome selects the item."""
    out = []
    for n in ast.walk(f.node):
        if isinstance(n, ast.Compare) and len(n.ops) == 1 and type(n.ops[0]) in OPS:
            l, r = n.left, n.comparators[0]
            op = OPS[type(n.ops[0])]
            if isinstance(r, ast.Name) and r.id == cutoff:
                stored = ast.unparse(l)
            elif isinstance(l, ast.Name) and l.id == cutoff:
                stored, op = ast.unparse(r), FLIP[op]
            else:
                continue
            out.append((stored, op, n))
    return out


def r1(ctx: Context, sites) -> None:
    ctx.rule("R1", "scan predicates: PENDING selected <=> status = PENDING and status_timestamp <= now - max_pending_seconds; RUNNING selected <=> status = RUNNING and owner is not none and (owner has no heartbeat row or last_heartbeat < now - timeout); cutoff = time() - limit in the same function; heartbeats are stamped with time(); both backends agree")
    repo = ctx.repo
    base = repo.cls("BaseOrchestrator")
    n_inst = 0
    for scan, status, limit_words, want_op in (
        ("get_pending_invocations_for_recovery", "PENDING", ("max_pending_seconds",), "<="),
        ("_get_running_invocations_for_recovery", "RUNNING", ("timeout_seconds",), "<"),
    ):
        ovs = [o for o in repo.overrides(base, scan) if not o.is_abstract]
        if len(ovs) < 2:
            raise AnalysisError(f"anchor-vanished: fewer than two implementations of {scan}")
        for f in ovs:
            n_inst += 1
            q = f.qualname
            cf = cutoff_facts(f)
            ok = cf["now_from_time"] and cf["cutoff"] is not None and cf["limit"] is not None and any(w in cf["limit"] for w in limit_words)
            ctx.add("R1", f"{q}::cutoff=time()-limit", ok, f.loc(), "" if ok else f"cutoff facts: {cf}; expected cutoff = time() - <{'/'.join(limit_words)}>")
            if not cf["cutoff"]:
                continue
            ss = [s for s in sites if s.func is f and s.verb == "SELECT"]
            if ss:
                s = ss[0]
                conds = sqlmini.conditions(sqlmini.where_clause(s.template))
                ps = sqlmini.param_exprs(s) or []
                # status filter bound to the right constant
                st_ok = any(c.split(".")[-1] == "status" and op == "=" for c, op, _ in conds) and any(f"InvocationStatus.{status}" in ast.unparse(p) for p in ps)
                ctx.add("R1", f"{q}::status-filter", st_ok, s.where, "" if st_ok else f"the scan is not restricted to status = {status}")
                # the time comparison: which column, which operator, bound to the cutoff
                tcol = "status_timestamp" if status == "PENDING" else "last_heartbeat"
                tc = [(c, op) for c, op, rhs in conds if c.replace("OR:", "").split(".")[-1] == tcol]
                bound = any(isinstance(p, ast.Name) and p.id == cf["cutoff"] for p in ps)
                okc = len(tc) == 1 and tc[0][1] == want_op and bound
                ctx.add("R1", f"{q}::boundary::{tcol}{want_op}cutoff", okc, s.where, "" if okc else f"time condition {tc} (parameter bound to cutoff: {bound}); the property selects exactly when {tcol} {want_op} now - limit")
                if status == "RUNNING":
                    own = any(c.split(".")[-1] == "status_runner_id" and op == "IS NOT" for c, op, _ in conds)
                    ctx.add("R1", f"{q}::owner-not-none", own, s.where, "" if own else "invocations without an owner must not be selected")
                    never = "LEFT JOIN" in s.template.upper() and any(c.startswith("OR:") and c.split(".")[-1] == "runner_id" and op == "IS" for c, op, _ in conds) and any(c.startswith("OR:") and c.split(".")[-1] == tcol for c, op, _ in conds)
                    ctx.add("R1", f"{q}::never-heartbeated-owner-selected", never, s.where, "" if never else "an owner that never sent a heartbeat (no row) must count as inactive: LEFT JOIN ... (runner_id IS NULL OR last_heartbeat < cutoff)")
            else:
                cmps = py_compares(f, cf["cutoff"])
                if status == "PENDING":
                    # iterates the PENDING index, compares status timestamp
                    idx = any(isinstance(n, ast.Subscript) and self_attr(n) == "status_index" and "PENDING" in ast.unparse(n.slice) for n in ast.walk(f.node)) or any(isinstance(n, ast.Call) and call_name(n) == "get" and self_attr(n.func) == "status_index" and n.args and "PENDING" in ast.unparse(n.args[0]) for n in ast.walk(f.node))
                    ctx.add("R1", f"{q}::status-filter", idx, f.loc(), "" if idx else "the scan does not iterate the PENDING index")
                    tc = [(st_, op, node) for st_, op, node in cmps if "timestamp" in st_]
                    okc = len(tc) == 1 and tc[0][1] == want_op and _selects_on_true(f, tc[0][2])
                    ctx.add("R1", f"{q}::boundary::status_timestamp{want_op}cutoff", okc, f.loc(tc[0][2]) if tc else f.loc(), "" if okc else f"comparison {[(a, b) for a, b, _ in tc]}; the property selects exactly when status_timestamp {want_op} now - limit")
                else:
                    idx = any("RUNNING" in ast.unparse(n) and self_attr(n) == "status_index" for n in ast.walk(f.node) if isinstance(n, (ast.Subscript, ast.Call)))
                    ctx.add("R1", f"{q}::status-filter", idx, f.loc(), "" if idx else "the scan does not iterate the RUNNING index")
                    # active set = {r : last_heartbeat >= cutoff}; selected <=> owner not in active
                    tc = [(st_, op, node) for st_, op, node in cmps if "heartbeat" in st_]
                    act = None
                    for n in walk_no_nested(f.node):
                        if isinstance(n, ast.Assign) and isinstance(n.value, (ast.SetComp, ast.ListComp, ast.DictComp)) and tc and any(x is tc[0][2] for x in ast.walk(n.value)):
                            act = n.targets[0].id if isinstance(n.targets[0], ast.Name) else None
                            src = ast.unparse(n.value.generators[0].iter)
                    # active <=> hb >= cutoff  is the complement of  inactive <=> hb < cutoff
                    okc = len(tc) == 1 and NEG[tc[0][1]] == want_op and act is not None and "runner_last_heartbeat" in src
                    ctx.add("R1", f"{q}::boundary::last_heartbeat{want_op}cutoff", okc, f.loc(tc[0][2]) if tc else f.loc(), "" if okc else f"active-runner comparison {[(a, b) for a, b, _ in tc]}: an owner is inactive exactly when last_heartbeat {want_op} now - timeout")
                    sel = [n for n in ast.walk(f.node) if isinstance(n, ast.Compare) and isinstance(n.ops[0], ast.NotIn) and isinstance(n.comparators[0], ast.Name) and n.comparators[0].id == act]
                    own = [n for n in ast.walk(f.node) if isinstance(n, ast.BoolOp) and isinstance(n.op, ast.And) and any(ast.unparse(v).endswith(".runner_id") for v in n.values)]
                    ctx.add("R1", f"{q}::owner-not-none", bool(own), f.loc(), "" if own else "invocations without an owner must not be selected")
                    ctx.add("R1", f"{q}::never-heartbeated-owner-selected", bool(sel) and all(_selects_on_true(f, s_) for s_ in sel), f.loc(), "" if sel else "selection must be 'owner not in the set of runners with a fresh heartbeat' (covers owners that never sent one)")
    ctx.floor("R1", "scan implementations", n_inst, 4)
    # same clock domain for heartbeats
    for f in [o for o in repo.overrides(base, "register_runner_heartbeats") if not o.is_abstract]:
        tn = {t.id for n in walk_no_nested(f.node) if isinstance(n, ast.Assign) and isinstance(n.value, ast.Call) and call_name(n.value) == "time" and not n.value.args for t in n.targets if isinstance(t, ast.Name)}
        ok = False
        ss = [s for s in sites if s.func is f and s.verb.startswith("INSERT")]
        if ss:
            cols = sqlmini.insert_columns(ss[0].template)
            ps = sqlmini.param_exprs(ss[0]) or []
            cm = dict(zip(cols, ps))
            ok = "last_heartbeat" in cm and isinstance(cm["last_heartbeat"], ast.Name) and cm["last_heartbeat"].id in tn and "last_heartbeat = excluded.last_heartbeat" in " ".join(ss[0].template.split())
        else:
            for n in walk_no_nested(f.node):
                if isinstance(n, ast.Assign) and any(isinstance(t, ast.Subscript) and self_attr(t) == "runner_last_heartbeat" for t in n.targets) and isinstance(n.value, ast.Name) and n.value.id in tn:
                    ok = True
        ctx.add("R1", f"{f.qualname}::heartbeat-stamped-with-time()", ok, f.loc(), "" if ok else "heartbeats are not stamped with time() (the clock the scans subtract from)")
        # every reported runner gets its heartbeat refreshed, whoever reports it and whatever it registered before
        if ss:
            t_ = " ".join(ss[0].template.split())
            tail = t_.upper().split("DO UPDATE SET", 1)[1] if "DO UPDATE SET" in t_.upper() else ""
            uncond = bool(tail) and " WHERE " not in (" " + tail + " ")
            loops = [n for n in walk_no_nested(f.node) if isinstance(n, ast.For) and ast.unparse(n.iter) == f.params[1]]
            in_loop = bool(loops) and any(x is ss[0].call for x in ast.walk(loops[0])) and not any(isinstance(x, (ast.Continue, ast.Break)) for x in ast.walk(loops[0]))
            ctx.add("R1", f"{f.qualname}::heartbeat-refreshed-for-every-reported-runner", uncond and in_loop, ss[0].where, "" if uncond and in_loop else "the upsert refreshes last_heartbeat only conditionally: a runner kept alive by its parent's reports can look dead to the running-invocation recovery, which then re-queues live work")
        else:
            loops = [n for n in walk_no_nested(f.node) if isinstance(n, ast.For) and ast.unparse(n.iter) == f.params[1]]
            okh = False
            if loops:
                body = loops[0].body
                hb = [st for st in body if isinstance(st, ast.Assign) and any(isinstance(t, ast.Subscript) and self_attr(t) == "runner_last_heartbeat" for t in st.targets)]
                skips = [x for st in body for x in ast.walk(st) if isinstance(x, (ast.Continue, ast.Break, ast.Return)) and hb and x.lineno < hb[0].lineno]
                okh = bool(hb) and not skips
            ctx.add("R1", f"{f.qualname}::heartbeat-refreshed-for-every-reported-runner", okh, f.loc(), "" if okh else "some reported runner ids do not get runner_last_heartbeat refreshed (conditional / skipped): a runner kept alive by its parent's reports can look dead to the running-invocation recovery, which then re-queues live work")


def _selects_on_true(f: FuncInfo, cmp_node: ast.AST) -> bool:
    """the comparison guards a yield/append on its true arm (not negated, not `continue`)."""
    from ..flow import parent_map

    pm = parent_map(f.node)
    cur = pm.get(id(cmp_node))
    neg = False
    child = cmp_node
    while cur is not None:
        if isinstance(cur, ast.UnaryOp) and isinstance(cur.op, ast.Not):
            neg = not neg
        if isinstance(cur, ast.If) and any(x is child for x in ast.walk(cur.test)):
            body_sel = any(isinstance(x, (ast.Yield, ast.YieldFrom)) or (isinstance(x, ast.Call) and call_name(x) in ("append", "add")) for st in cur.body for x in ast.walk(st))
            return body_sel != neg
        if isinstance(cur, ast.comprehension):
            return not neg
        child = cur
        cur = pm.get(id(cur))
    return not neg


def r2(ctx: Context, sm) -> None:
    ctx.rule("R2", "PENDING_RECOVERY / RUNNING_RECOVERY are requested only by the recovery tasks, each on the ids of its own scan; the table allows them only from PENDING resp. RUNNING and lets them lead only to REROUTED")
    ss = [s for s in status_sites(ctx.repo) if s.status in ("PENDING_RECOVERY", "RUNNING_RECOVERY")]
    ctx.floor("R2", "recovery status request sites", len(ss), 2)
    for s in ss:
        scan = "get_pending_invocations_for_recovery" if s.status == "PENDING_RECOVERY" else "get_running_invocations_for_recovery"
        ok = s.func.cls is None and any("core_tasks_registry.task" in d for d in s.func.decorators)
        loopvar_ok = False
        for n in walk_no_nested(s.func.node):
            if isinstance(n, ast.For) and isinstance(n.iter, ast.Call) and call_name(n.iter) == scan and isinstance(n.target, ast.Name) and s.id_expr is not None and ast.unparse(s.id_expr) == n.target.id and any(x is s.call for x in ast.walk(n)):
                loopvar_ok = True
        ctx.add("R2", f"recovery-request::{s.status}::{s.func.qualname}", ok and loopvar_ok, s.where, "" if ok and loopvar_ok else f"{s.status} must be requested only inside the recovery task, for the ids returned by {scan}")
    for rec, src in (("PENDING_RECOVERY", "PENDING"), ("RUNNING_RECOVERY", "RUNNING")):
        preds = sm.preds(rec)
        ctx.add("R2", f"table::{rec}-only-from-{src}", preds == {src}, sm.module.relpath, "" if preds == {src} else f"{rec} reachable from {sorted(preds)}: a progressed invocation could be stolen")
        succ = sm.succs(rec)
        ctx.add("R2", f"table::{rec}-leads-only-to-REROUTED", succ == {"REROUTED"}, sm.module.relpath, "" if succ == {"REROUTED"} else f"{rec} -> {sorted(succ)}")
        ok = sm.defs[rec]["overrides_ownership"] and sm.defs[rec]["releases_ownership"]
        ctx.add("R2", f"table::{rec}-overrides-and-releases-ownership", ok, sm.module.relpath, "")


def r3(ctx: Context, sm) -> None:
    ctx.rule("R3", "in each recovery task, on every path - including the exception edge of a later status request that lost a race - every invocation whose *_RECOVERY request succeeded reaches REROUTED and the queue")
    eng = Engine(ctx.repo, ctx.resolver, sm, loop_k=3 if ctx.tier == "thorough" else 2)
    n = 0
    for f in ctx.repo.all_functions():
        if f.cls is None and any("core_tasks_registry.task" in d for d in f.decorators) and eng.effectful(f):
            n += 1
            try:
                res = eng.run(f, {}, State())
            except Budget:
                raise AnalysisError(f"path budget exceeded for {f.qualname}")
            bad: dict[str, tuple[str, list[str]]] = {}
            for s, o in res:
                for tok, ist in s.istates.items():
                    if ist.own and ist.status and ist.status <= {"PENDING_RECOVERY", "RUNNING_RECOVERY"}:
                        how = o.kind + (f":{o.exc.cls}" if o.exc else "")
                        last = [e for e, _ in s.trace if e.kind in ("S", "S!")][-1]
                        key = f"{f.qualname}::taken-not-requeued::exit={how}"
                        bad.setdefault(key, (f"an invocation taken by this run ({sorted(ist.status)[0]}) is never rerouted when the run exits by {how} after {last.kind}({last.detail.split(':')[0]}) at {last.loc()}: it stays in a status no recovery scans and is not queued", [f"{e.loc()} {e.kind}[{e.tok}]({e.detail})" for e, _ in s.trace]))
            ctx.add("R3", f"{f.qualname}::paths", True, f.loc(), f"{len(res)} paths enumerated")
            if not bad:
                ctx.ok("R3", f"{f.qualname}::every-taken-invocation-requeued", f.loc())
            for k, (d, p) in bad.items():
                ctx.fail("R3", k, f.loc(), d, p)
    ctx.floor("R3", "recovery tasks", n, 2)


def r4(ctx: Context) -> None:
    from . import c14

    ctx.rule("R4", "BaseRunner.run reports child heartbeats at the start of every loop iteration; every get_active_child_runner_ids override keeps only live processes (shared with C14/R3)")
    sub = Context("C14", ctx.repo, ctx.tier, ctx.seed)
    sub._resolver = ctx._resolver
    c14.run(sub)
    for i in sub.instances:
        if i.rule == "R3":
            ctx.add("R4", i.key.split("/", 2)[2], i.ok, i.where, i.detail)
    # a runner's own periodic check (should_run_atomic_service) IS its heartbeat: it registers the runner's id on
    # every path, unconditionally - a heartbeat written only "when not listed" lets the stored one age past the
    # timeout while the runner is alive
    from ..flow import cfg_node_of, func_cfg, parent_map

    bo = ctx.repo.cls("BaseOrchestrator")
    f = bo.methods.get("should_run_atomic_service")
    if f is None:
        raise AnalysisError("anchor-vanished: BaseOrchestrator.should_run_atomic_service")
    g = func_cfg(ctx.repo, f)
    pm = parent_map(f.node)
    dom = g.dominators(exc_edges=False)
    regs = [c for c in calls_in(f.node) if call_name(c) == "register_runner_heartbeats" and c.args and isinstance(c.args[0], ast.List) and any(isinstance(x, ast.Attribute) and x.attr == "runner_id" and f.params[1] in names_in(x) for e in c.args[0].elts for x in ast.walk(e))]
    reg_nodes = {n.id for c in regs for n in cfg_node_of(g, f.node, c, pm)}
    ok = bool(reg_nodes) and bool(dom.get(g.exit, set()) & reg_nodes)
    ctx.add("R4", f"{f.qualname}::own-heartbeat-on-every-check", ok, f.loc(regs[0]) if regs else f.loc(), "" if ok else "the runner's periodic check does not register its own heartbeat on every path: the stored heartbeat of a live runner ages past the timeout and the running-invocation recovery re-queues its work")
    # ... and a heartbeat that could not be written is an error for the check, not a warning: the runner would go on to ask
    # "is it my turn" about a list it may not be part of (can_run_atomic_service answers True for a list of one OTHER runner)
    from ..flow import swallowing_handlers

    if regs:
        sw = [h for c in regs for h in swallowing_handlers(f.node, c)]
        ctx.add("R4", f"{f.qualname}::own-heartbeat-failure-propagates", not sw, f.loc(sw[0]) if sw else f.loc(regs[0]), "" if not sw else f"`except {ast.unparse(sw[0].type) if sw[0].type is not None else ''}` around register_runner_heartbeats continues without the heartbeat: the runner is then absent from (or stale in) the active list it is about to consult - its stored heartbeat ages although it is alive, and with exactly one other runner listed both are authorised for the global services at the same instants")
    ctx.floor("R4", "heartbeat obligations", ctx.count("R4"), 5)


def _fresh_id_expr(v: ast.AST) -> bool:
    """str(uuid.uuid4()) / uuid.uuid4() / <ctx>.new_child_context(<name>) with no runner_id argument"""
    if isinstance(v, ast.Call) and isinstance(v.func, ast.Name) and v.func.id == "str" and len(v.args) == 1:
        v = v.args[0]
    if isinstance(v, ast.Call) and call_name(v) == "uuid4" and not v.args:
        return True
    if isinstance(v, ast.Call) and call_name(v) == "new_child_context" and len(v.args) <= 1 and not any(k.arg == "runner_id" for k in v.keywords):
        return True
    return False


def r5(ctx: Context) -> None:
    ctx.rule("R5", "a spawned worker gets a FRESH runner id: every key stored into <runner>.child_runner_ids is bound, by its only assignment in the function, to str(uuid.uuid4()) or to new_child_context(<name>) (which draws one) - a recycled id keeps heart-beating for the dead worker, so its RUNNING invocations never look orphaned")
    n = 0
    for cls in ctx.repo.classes.values():
        if not cls.module.name.startswith("pynenc.runner"):
            continue
        for f in cls.methods.values():
            for st in walk_no_nested(f.node):
                if not (isinstance(st, ast.Assign) and any(isinstance(t, ast.Subscript) and self_attr(t) == "child_runner_ids" and isinstance(t.value, ast.Attribute) for t in st.targets)):
                    continue
                for t in st.targets:
                    if not (isinstance(t, ast.Subscript) and self_attr(t) == "child_runner_ids"):
                        continue
                    n += 1
                    root = t.slice
                    while isinstance(root, (ast.Attribute, ast.Subscript)):
                        root = root.value
                    key = f"{f.qualname}::child-runner-id-is-fresh"
                    if not isinstance(root, ast.Name):
                        ctx.fail("R5", key, f.loc(st), f"the child runner id `{ast.unparse(t.slice)}` is not a local bound to a fresh id")
                        continue
                    binds = []
                    for x in walk_no_nested(f.node):
                        if isinstance(x, ast.Assign) and any(isinstance(tt, ast.Name) and tt.id == root.id for tt in x.targets):
                            binds.append(x.value)
                        elif isinstance(x, ast.AnnAssign) and isinstance(x.target, ast.Name) and x.target.id == root.id and x.value is not None:
                            binds.append(x.value)
                        elif isinstance(x, ast.NamedExpr) and x.target.id == root.id:
                            binds.append(x.value)
                        elif isinstance(x, (ast.For, ast.comprehension)) and root.id in names_in(x.target):
                            binds.append(x.iter)
                    if root.id in f.params:
                        binds.append(ast.Name(id=f"<parameter {root.id}>"))
                    bad = [b for b in binds if not _fresh_id_expr(b)]
                    okf = bool(binds) and not bad
                    ctx.add("R5", key, okf, f.loc(st), "" if okf else f"`{root.id}` may be bound to `{ast.unparse(bad[0])[:80] if bad else '?'}`: a spawned worker can inherit the runner id of an earlier (dead) worker; the parent keeps reporting that id alive, so the running-invocation recovery never treats the dead worker's RUNNING invocations as orphaned")
    ctx.floor("R5", "child runner id registrations", n, 3)


def r6(ctx: Context) -> None:
    """The recovery handlers log the error they caught before they hand the taken invocations back."""
    from ..flow import may_fail_sites

    ctx.rule("R6", "rendering cannot fail: no __str__ / __repr__ / __format__ of a pynenc class (the errors the recovery handlers format into their log line before re-routing, the records and contexts logged along the way) has an element access that some state of the object makes fail, a next() without default, or a raise - the path engines (R3, C03, C11) treat formatting and logging as total; an exception there escapes the handler before reroute_invocations and strands what was already taken")
    n = 0
    for c in ctx.repo.classes.values():
        if not c.module.name.startswith("pynenc."):
            continue
        for nm in ("__str__", "__repr__", "__format__"):
            m = c.methods.get(nm)
            if m is None:
                continue
            n += 1
            bad = may_fail_sites(m.node)
            ctx.add("R6", f"{m.qualname}::cannot-raise", not bad, m.loc(bad[0][0]) if bad else m.loc(), "" if not bad else f"{bad[0][1]}: formatting this object raises for such a state - e.g. a transition error whose set of allowed statuses is empty (a final status) - inside an `except` block that was about to re-route")
    ctx.floor("R6", "rendering methods", n, 15)


def r8(ctx: Context) -> None:
    """The scans compare ages in seconds with options configured in minutes (hours for the purge)."""
    from ..flow import unit_misuse_sites

    ctx.rule("R8", "units: a configuration option named *_minutes / *_hours is a quantity in that unit; along its def-use chain (locals, parameters of resolved callees) it is only multiplied by 60 / 3600, formatted into text, or handed on - nothing else. The dead-runner timeout (runner_considered_dead_after_minutes) reaches the heartbeat cut-offs as seconds: dropped, the timeout is 60 times shorter than configured, every runner whose heartbeat is older than a few seconds counts as dead and its RUNNING invocations are taken while it is alive")
    n, bad = unit_misuse_sites(ctx.repo)
    for f, x, why in bad:
        ctx.fail("R8", f"{f.qualname}::unit-preserved::{ast.unparse(x).split('.')[-1]}", f.loc(x), f"`{ast.unparse(x)}` is {why}: minutes (hours) flow into a quantity that is compared with seconds")
    ctx.ok("R8", "pynenc::reads-of-minute-and-hour-quantities-examined", "pynenc/", f"{n} reads")
    ctx.floor("R8", "uses of minute and hour quantities", n, 10)


def run(ctx: Context) -> None:
    sm = extract(ctx.repo)
    sites = sqlmini.sites(ctx.repo)
    r1(ctx, sites)
    r2(ctx, sm)
    r3(ctx, sm)
    r4(ctx)
    r5(ctx)
    r6(ctx)
    r8(ctx)
    # R7: what the scans read is what the transitions wrote: the status record / status index (in memory) and the status
    # columns (SQLite) have no writer besides the atomic transition, registration and purge (shared with C01/R4) - a scan
    # over an index that some read-only looking query narrowed in place skips stuck invocations
    from . import c01

    ctx.rule("R7", "the stores the recovery scans iterate are written only by the atomic transition, registration, clean-up and purge, directly or through an alias / a live container handed out by a sibling method (shared with C01/R4)")
    sub = Context("C01", ctx.repo, ctx.tier, ctx.seed)
    sub._resolver = ctx._resolver
    c01.r4_single_writer(sub, sm)
    for i in sub.instances:
        k = i.key.split("/", 2)[2]
        if k.startswith(("mem-record-writer", "foreign-record-write", "sql-status-writer")):
            ctx.add("R7", k, i.ok, i.where, i.detail)
    ctx.floor("R7", "status store writers", ctx.count("R7"), 8)
    ctx.exhaustive = True
    ctx.not_decided += [
        "numeric behaviour at the boundary instant (decided only as the comparison operator)",
        "interleavings of a recovery run with a progressing owner beyond R2 (rejected by the table) and R3 (exception edges)",
        "histories of heartbeats over several runners (the scans are checked per statement, not over time)",
    ]
