# C13/R12: SQLiteTrigger._register_condition is `INSERT OR REPLACE ... (condition_id, condition_json)`: registering a
# condition again - every runner does it at start-up - replaces the row and resets last_cron_execution to NULL, so the
# tick that already fired in this window fires again.  The in-memory trigger keeps the value.  Documentation only.
import logging, sys
logging.disable(logging.CRITICAL)
from datetime import UTC, datetime
from pynenc.trigger.conditions.cron import CronCondition
import t_r11

out = {}
for kind in ("mem", "sqlite"):
    app = t_r11.app_mem if kind == "mem" else t_r11.app_sql
    app.purge()
    trig = app.trigger
    cond = CronCondition("*/5 * * * *")
    trig.register_condition(cond)
    t0 = datetime(2026, 1, 1, 12, 5, 3, tzinfo=UTC)
    first = trig._should_trigger_cron_condition(cond, t0)                      # runner 1 fires the 12:05 tick
    trig._registered_conditions.pop(cond.condition_id, None)                   # a second runner process starts: empty local registry
    trig._last_cron_execution_cache.clear()
    trig.register_condition(cond)                                              # ... and registers the same condition
    again = trig._should_trigger_cron_condition(cond, datetime(2026, 1, 1, 12, 5, 20, tzinfo=UTC))
    out[kind] = (first is not None, again is not None, trig.get_last_cron_execution(cond.condition_id) is not None)
print("(fired first, fired AGAIN 17 s later in the same tick, last execution still stored):", out)
sys.exit(1 if out["sqlite"][1] else 0)
