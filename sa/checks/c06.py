"""C06 - running concurrency control: never two RUNNING invocations with the same key.

R1 every submission path that registers invocations indexes their arguments unless a dominating
   guard establishes that running concurrency is DISABLED
R2 check before claim / before run: PENDING is requested only on the authorised arm of the
   candidate check for the same invocation; in run() a failed authorisation never reaches the body
R3 a blocked invocation never fails the poll (typestate): CONCURRENCY_CONTROLLED(_FINAL) requests
   are legal from every available status, or the rejection is handled inside the poll
R4 the concurrency guard and the transition it guards share a critical section
R5 key selection is exhaustive over the concurrency modes; lookups AND-combine every key pair with
   the task and status filters; indexing stores every argument pair
"""

from __future__ import annotations

import ast

from .. import sqlmini
from ..critsec import inside, lock_withs
from ..flow import call_args  # noqa: I001
from ..flow import (call_name, calls_in, cfg_node_of, derived_names, func_cfg, names_in, parent_map,
                    self_attr, status_sites)
from ..loader import AnalysisError, FuncInfo, walk_no_nested
from ..report import Context
from ..statusmodel import extract
from ..typestate import Budget, Engine, Inv, IState, Outcome, State

PROPERTY = "C06"
TECHNIQUE = "static analysis: must-pass-through on the CFG with guard-polarity reasoning, typestate path enumeration of the poll, lexical critical-section check, enum-exhaustiveness and sibling SQL/Python lookup comparison"

CHECKS = ("is_candidate_to_run_by_concurrency_control", "is_authorize_to_run_by_concurrency_control")


def implies_running_disabled(test: ast.AST, edge: str) -> bool:
    """Does taking `edge` ('true'/'false') of `test` imply running_concurrency == DISABLED ?"""
    if isinstance(test, ast.UnaryOp) and isinstance(test.op, ast.Not):
        return implies_running_disabled(test.operand, "false" if edge == "true" else "true")
    if isinstance(test, ast.Compare) and len(test.ops) == 1 and "running_concurrency" in ast.unparse(test.left) and ast.unparse(test.comparators[0]).endswith("DISABLED"):
        if isinstance(test.ops[0], ast.Eq):
            return edge == "true"
        if isinstance(test.ops[0], ast.NotEq):
            return edge == "false"
    if isinstance(test, ast.BoolOp):
        if isinstance(test.op, ast.Or) and edge == "false":
            # all disjuncts false
            return any(implies_running_disabled(v, "false") for v in test.values)
        if isinstance(test.op, ast.And) and edge == "true":
            return any(implies_running_disabled(v, "true") for v in test.values)
    return False


def r1(ctx: Context) -> None:
    ctx.rule("R1", "every function that registers new invocations (calls register_new_invocations) passes, on every normal path from the registration to its exit, through index_arguments_for_concurrency_control for the registered invocation(s) or through a branch edge that implies running_concurrency == DISABLED; batch selection may instead exclude tasks with running concurrency")
    repo = ctx.repo
    regs = []
    for f in repo.all_functions():
        if f.name == "register_new_invocations":
            continue
        for c in calls_in(f.node):
            if call_name(c) == "register_new_invocations":
                regs.append((f, c))
    ctx.floor("R1", "registration call sites", len(regs), 2)
    # batch gate: can_batch_process requires running concurrency disabled?
    gate_ok = False
    for f in repo.all_functions():
        if f.name == "can_batch_process":
            txt = ast.unparse(f.node)
            gate_ok = "running_concurrency == ConcurrencyControlType.DISABLED" in txt
    for f, c in regs:
        g = func_cfg(repo, f)
        pm = parent_map(f.node)
        rn = cfg_node_of(g, f.node, c, pm)
        idx_nodes = set()
        for ic in calls_in(f.node):
            if call_name(ic) == "index_arguments_for_concurrency_control":
                for n in cfg_node_of(g, f.node, ic, pm):
                    idx_nodes.add(n.id)
        # a loop over the registered collection whose body indexes each element counts as the
        # indexing point (an empty collection has nothing to index)
        reg_names = names_in(c.args[0]) if c.args else set()
        for n in g.nodes:
            if n.kind == "for" and isinstance(n.ast, ast.For) and names_in(n.ast.iter) & reg_names:
                top_level = [st for st in n.ast.body if isinstance(st, ast.Expr) and isinstance(st.value, ast.Call) and call_name(st.value) == "index_arguments_for_concurrency_control" and st.value.args and names_in(st.value.args[0]) & names_in(n.ast.target)]
                skips_before = [x for st in n.ast.body for x in ast.walk(st) if isinstance(x, (ast.Continue, ast.Break, ast.Return)) and top_level and x.lineno < top_level[0].lineno]
                if top_level and not skips_before:
                    idx_nodes.add(n.id)  # every element of the registered collection is indexed unconditionally
        # blocked edges: (test node id, label) implying disabled
        blocked = set()
        for n in g.nodes:
            if n.kind == "test" and n.ast is not None:
                for lab in ("true", "false"):
                    if implies_running_disabled(n.ast, lab):
                        blocked.add((n.id, lab))
        # a guard BEFORE the registration that raises / returns when running concurrency is enabled
        dominated_disabled = False
        dom = g.dominators(exc_edges=False)
        for n in g.nodes:
            if n.kind == "test" and n.ast is not None and rn and all(n.id in dom.get(r.id, set()) for r in rn):
                for lab in ("true", "false"):
                    if implies_running_disabled(n.ast, lab):
                        # the registration is only reachable through that edge?
                        other = "false" if lab == "true" else "true"
                        succ_other = [s for s, l in g.succ[n.id] if l == other]
                        if all(not any(g.reaches(s, r.id, exc_edges=False) or s == r.id for r in rn) for s in succ_other):
                            dominated_disabled = True
        ok = dominated_disabled
        if not ok:
            # EXIT unreachable from the registration without IDX / disabled edge
            seen = set()
            stack = [r.id for r in rn]
            reach_exit = False
            while stack:
                x = stack.pop()
                if x in seen:
                    continue
                seen.add(x)
                if x == g.exit:
                    reach_exit = True
                    break
                if x in idx_nodes:
                    continue
                for s, lab in g.succ[x]:
                    if lab == "exc" or (x, lab) in blocked:
                        continue
                    stack.append(s)
            ok = not reach_exit
        if not ok and f.name == "route_calls" and gate_ok:
            ok = True
        ctx.add("R1", f"{f.qualname}::indexes-registered-invocations", ok, f.loc(c),
                "" if ok else f"{f.name} registers and queues invocations without indexing their arguments and without establishing that running concurrency is DISABLED: same-key lookups (get_existing_invocations) cannot see them, so two invocations with the same key can both be claimed and authorised")
    # indexing happens for the invocation that was registered
    for f, c in regs:
        for ic in calls_in(f.node):
            if call_name(ic) == "index_arguments_for_concurrency_control":
                a = ic.args[0] if ic.args else None
                reg_arg = c.args[0] if c.args else None
                ok = a is not None and reg_arg is not None and bool(names_in(a) & names_in(reg_arg))
                if not ok and a is not None and reg_arg is not None:
                    # element of a loop over the registered collection
                    pm_ = parent_map(f.node)
                    cur = pm_.get(id(ic))
                    while cur is not None and not ok:
                        if isinstance(cur, ast.For) and names_in(cur.iter) & names_in(reg_arg) and names_in(a) & names_in(cur.target):
                            ok = True
                        cur = pm_.get(id(cur))
                ctx.add("R1", f"{f.qualname}::indexes-the-same-invocation", ok, f.loc(ic), "" if ok else "a different object is indexed than was registered")


def r2(ctx: Context, sm) -> None:
    ctx.rule("R2", "PENDING is requested only on the authorised arm of is_candidate_to_run_by_concurrency_control for the same invocation; DistributedInvocation.run asks is_authorize_to_run_by_concurrency_control before RUNNING and a refused invocation is rerouted and never reaches the task body (REROUTED -> RUNNING is not an edge and the rejection is handled)")
    repo = ctx.repo
    sites = [s for s in status_sites(repo) if s.status == "PENDING"]
    for s in sites:
        f = s.func
        g = func_cfg(repo, f)
        pm = parent_map(f.node)
        tests = []
        for n in g.nodes:
            if n.kind == "test" and n.ast is not None and any(isinstance(x, ast.Call) and call_name(x) == CHECKS[0] for x in ast.walk(n.ast)):
                neg = isinstance(n.ast, ast.UnaryOp) and isinstance(n.ast.op, ast.Not)
                tests.append((n, "false" if neg else "true"))
        if not tests:
            ctx.fail("R2", f"{f.qualname}::candidate-check-before-PENDING", s.where, "PENDING is requested without a preceding is_candidate_to_run_by_concurrency_control check")
            continue
        # remove authorised edges; S(PENDING) must become unreachable
        seen = set()
        stack = [g.entry]
        auth = {(n.id, lab) for n, lab in tests}
        while stack:
            x = stack.pop()
            if x in seen:
                continue
            seen.add(x)
            for su, lab in g.succ[x]:
                if (x, lab) in auth:
                    continue
                stack.append(su)
        pn = cfg_node_of(g, f.node, s.call, pm)
        ok = all(n.id not in seen for n in pn)
        ctx.add("R2", f"{f.qualname}::candidate-check-before-PENDING", ok, s.where, "" if ok else "PENDING can be requested on a path that did not pass the authorised arm of the candidate check")
        # same invocation
        chk = [x for n, _ in tests for x in ast.walk(n.ast) if isinstance(x, ast.Call) and call_name(x) == CHECKS[0]]
        idn = names_in(s.id_expr) if s.id_expr is not None else set()
        dn = derived_names(f.node, idn)
        ok = all(bool(names_in(c.args[0]) & dn) for c in chk if c.args)
        ctx.add("R2", f"{f.qualname}::candidate-check-same-invocation", ok, s.where, "" if ok else "the candidate check inspects another invocation than the one claimed")
    # run(): engine
    eng = Engine(repo, ctx.resolver, sm, loop_k=1)
    run = repo.cls("DistributedInvocation").methods.get("run")
    if run is None:
        raise AnalysisError("anchor-vanished: DistributedInvocation.run")
    has_check = any(call_name(c) == CHECKS[1] for c in calls_in(run.node))
    ctx.add("R2", f"{run.qualname}::authorisation-check-present", has_check, run.loc(), "" if has_check else "run() does not ask is_authorize_to_run_by_concurrency_control")
    st = State()
    tok = st.fresh(IState(frozenset({"PENDING"}), own=True, responsible=True), "s")
    res = eng.run(run, {"self": Inv(tok)}, st)
    bad = 0
    n_refused = 0
    for s, o in res:
        kinds = [(e.kind, e.detail) for e, _ in s.trace if e.tok == tok]
        if ("S", "REROUTED") in kinds:
            n_refused += 1
            i = kinds.index(("S", "REROUTED"))
            if any(k == "BODY" for k, _ in kinds[i:]):
                bad += 1
    ctx.add("R2", f"{run.qualname}::refused-invocation-never-runs-body", bad == 0 and n_refused > 0, run.loc(), "" if bad == 0 and n_refused > 0 else f"{bad} paths execute the task body after the invocation was refused and rerouted ({n_refused} refused paths seen)")
    # ordering of check and RUNNING
    g = func_cfg(repo, run)
    pm = parent_map(run.node)
    # polarity: the re-route belongs to the REFUSED arm, and no path refuses without re-routing
    from ..flow import conditions_at, negate as _neg

    rer = [c for c in calls_in(run.node) if call_name(c) in ("reroute_invocations", "reroute_invocation")]
    for c in rer:
        conds = conditions_at(g, run.node, c, pm)
        refused_arm = any(isinstance(t, ast.UnaryOp) and isinstance(t.op, ast.Not) and isinstance(t.operand, ast.Call) and call_name(t.operand) == CHECKS[1] for t in conds)
        granted_arm = any(isinstance(t, ast.Call) and call_name(t) == CHECKS[1] for t in conds)
        if refused_arm or granted_arm:
            ctx.add("R2", f"{run.qualname}::reroute-on-the-refused-arm", refused_arm and not granted_arm, run.loc(c), "" if refused_arm and not granted_arm else "the invocation is re-routed when the concurrency check GRANTS it and proceeds to RUNNING when the check refuses it: two invocations with the same key run together, authorised ones bounce back into the queue")
    dom = g.dominators()
    chk_nodes = [n for c in calls_in(run.node) if call_name(c) == CHECKS[1] for n in cfg_node_of(g, run.node, c, pm)]
    for s in [x for x in status_sites(repo) if x.func is run and x.status == "RUNNING"]:
        rn = cfg_node_of(g, run.node, s.call, pm)
        ok = bool(chk_nodes) and all(any(c.id in dom.get(r.id, set()) for c in chk_nodes) for r in rn)
        ctx.add("R2", f"{run.qualname}::authorisation-before-RUNNING", ok, s.where, "" if ok else "RUNNING can be requested without the authorisation check having been evaluated")


def r3(ctx: Context, sm) -> None:
    ctx.rule("R3", "typestate: no status request inside the poll (get_invocations_to_run and the generators it drives) can be rejected because of the status the invocation is known to be in, unless the rejection is handled inside the poll; in particular a blocked invocation in any available status (REGISTERED, REROUTED, RETRY) ends CONCURRENCY_CONTROLLED(_FINAL) without the poll raising")
    repo = ctx.repo
    eng = Engine(repo, ctx.resolver, sm, loop_k=1 if ctx.tier == "quick" else 2)
    f = repo.cls("BaseOrchestrator").methods.get("get_invocations_to_run")
    if f is None:
        raise AnalysisError("anchor-vanished: BaseOrchestrator.get_invocations_to_run")

    def consumer(val, s):
        yield s, Outcome("normal")

    try:
        res = eng.run(f, {}, State(), consumer)
    except Budget:
        raise AnalysisError("path budget exceeded for get_invocations_to_run")
    ctx.analysed["poll_paths"] = len(res)
    if len(res) < 10:
        raise AnalysisError("anchor-vanished: the poll enumerates implausibly few paths")
    bad: dict[str, tuple[str, str, list[str]]] = {}
    ok_sites: set[str] = set()
    for s, o in res:
        for e, _ in s.trace:
            if e.kind == "S":
                ok_sites.add(f"{e.func.split('.')[-1]}::S({e.detail})")
        if o.kind == "raise" and o.exc is not None and o.exc.cls.startswith("InvocationStatus"):
            last = [e for e, _ in s.trace if e.kind == "S!"][-1]
            req, why, frm = (last.detail.split(":") + ["", ""])[:3]
            if why != "typestate":
                key = f"{last.func}::S({req})::unhandled-race"
                bad.setdefault(key, (last.loc(), f"a {req} request that loses a race raises out of the poll", [f"{e.loc()} {e.kind}[{e.tok}]({e.detail})" for e, _ in s.trace]))
                continue
            for src in frm.replace("from=", "").split(","):
                key = f"{last.func}::S({req})::from={src}"
                bad.setdefault(key, (last.loc(), f"an invocation in {src} (an available status) that is blocked by concurrency control is sent to {req}, but {src} -> {req} is not an edge of the status table and the rejection is not handled: InvocationStatusTransitionError escapes get_invocations_to_run, the popped message is gone and the runner loop iteration fails", [f"{e.loc()} {e.kind}[{e.tok}]({e.detail})" for e, _ in s.trace]))
    for k in sorted(ok_sites):
        ctx.ok("R3", f"site::{k}", f.loc())
    for k, (where, detail, path) in sorted(bad.items()):
        ctx.fail("R3", k, where, detail, path)
    ctx.floor("R3", "status request sites in the poll", len(ok_sites), 4)


def r4(ctx: Context) -> None:
    ctx.rule("R4", "the concurrency guard (a read of same-key PENDING/RUNNING invocations) and the status request it guards execute inside one lock / one transaction")
    repo = ctx.repo
    n = 0
    for f in repo.all_functions():
        for c in calls_in(f.node):
            if call_name(c) in CHECKS and f.name not in CHECKS:
                n += 1
                guarded = "PENDING" if call_name(c) == CHECKS[0] else "RUNNING"
                st_calls = [s for s in status_sites(repo) if s.func is f and s.status == guarded]
                shared = False
                for w in lock_withs(f):
                    if inside(c, w) and any(inside(s.call, w) for s in st_calls):
                        shared = True
                ctx.add("R4", f"{f.qualname}::{call_name(c)}->S({guarded})", shared, f.loc(c),
                        "" if shared else f"check-then-act: {call_name(c)} and the {guarded} request it guards are two separate store operations; two runners can both pass the check for same-key invocations before either claims")
    ctx.floor("R4", "concurrency guard sites", n, 3)


def r5(ctx: Context, sites) -> None:
    ctx.rule("R5", "serialized_args_for_concurrency_control handles every ConcurrencyControlType member (KEYS projects exactly conf.key_arguments, ARGUMENTS returns all, TASK/DISABLED none); _is_authorize_by_concurrency_control short-circuits only for DISABLED and blocks exactly when a same-key invocation exists in the given statuses; both get_existing_invocations AND-combine all key pairs with task and status filters; indexing stores every argument pair under the invocation id")
    repo = ctx.repo
    enum = repo.cls("ConcurrencyControlType")
    members = [k for k, v in enum.class_attrs.items() if not k.startswith("_")]
    ctx.floor("R5", "concurrency modes", len(members), 4)
    f = repo.cls("Call").methods.get("serialized_args_for_concurrency_control")
    if f is None:
        raise AnalysisError("anchor-vanished: Call.serialized_args_for_concurrency_control")
    p = f.params[1]
    handled: dict[str, ast.AST | None] = {}
    for n in walk_no_nested(f.node):
        if isinstance(n, ast.If) and isinstance(n.test, ast.Compare) and isinstance(n.test.ops[0], ast.Eq) and ast.unparse(n.test.left) == p:
            m = ast.unparse(n.test.comparators[0]).split(".")[-1]
            ret = [x for x in n.body if isinstance(x, ast.Return)]
            handled[m] = ret[0].value if ret else None
    for m in members:
        ok = m in handled
        ctx.add("R5", f"mode-handled::{m}", ok, f.loc(), "" if ok else f"no branch for ConcurrencyControlType.{m}")
    want = {"DISABLED": "None", "TASK": "None", "ARGUMENTS": "self.serialized_arguments"}
    for m, w in want.items():
        if m in handled:
            got = ast.unparse(handled[m]) if handled[m] is not None else "None"
            ctx.add("R5", f"mode-selection::{m}", got == w, f.loc(), "" if got == w else f"{m} selects {got}, expected {w}")
    if "KEYS" in handled:
        v = handled["KEYS"]
        ok = isinstance(v, ast.DictComp) and ast.unparse(v.generators[0].iter) == "self.task.conf.key_arguments" and not v.generators[0].ifs and ast.unparse(v.key) == ast.unparse(v.generators[0].target) and ast.unparse(v.value) == f"self.serialized_arguments[{ast.unparse(v.generators[0].target)}]"
        ctx.add("R5", "mode-selection::KEYS", ok, f.loc(), "" if ok else f"KEYS selects {ast.unparse(v)[:80]}")
    # the guard
    g = repo.cls("BaseOrchestrator").methods.get("_is_authorize_by_concurrency_control")
    if g is None:
        raise AnalysisError("anchor-vanished: _is_authorize_by_concurrency_control")
    first_if = [n for n in g.node.body if isinstance(n, ast.If)]
    ok = bool(first_if) and ast.unparse(first_if[0].test).replace(" ", "") == f"{g.params[1]}.task.conf.running_concurrency==ConcurrencyControlType.DISABLED" and ast.unparse(first_if[0].body[0]) == "return True"
    ctx.add("R5", "guard::short-circuit-only-for-DISABLED", ok, g.loc(), "" if ok else "the guard returns early under another condition than running_concurrency == DISABLED")
    look = [c for c in calls_in(g.node) if call_name(c) == "get_existing_invocations"]
    ok = len(look) == 1
    if ok:
        kw = call_args(look[0], ["task", "key_serialized_arguments", "statuses"])
        ok = "statuses" in kw and ast.unparse(kw["statuses"]) == g.params[2] and "key_serialized_arguments" in kw and "serialized_args_for_concurrency_control" in ast.unparse(kw["key_serialized_arguments"]) and "running_concurrency" in ast.unparse(kw["key_serialized_arguments"]) and "task" in kw
    ctx.add("R5", "guard::lookup-by-task-key-and-statuses", ok, g.loc(), "" if ok else "the lookup does not use (task, key arguments for the running mode, the given statuses)")
    rets = [n for n in walk_no_nested(g.node) if isinstance(n, ast.Return)]
    ok = len(rets) == 3 and ast.unparse(rets[-1].value) == "False"
    found_if = [n for n in walk_no_nested(g.node) if isinstance(n, ast.If) and isinstance(n.test, ast.UnaryOp) and "running_invocation" in ast.unparse(n.test)]
    ok = ok and bool(found_if) and ast.unparse(found_if[0].body[0]) == "return True"
    ctx.add("R5", "guard::blocks-iff-found", ok, g.loc(), "" if ok else "the guard does not return False exactly when a same-key invocation was found")
    base = repo.cls("BaseOrchestrator")
    for nm, want in (("is_candidate_to_run_by_concurrency_control", {"PENDING", "RUNNING"}), ("is_authorize_to_run_by_concurrency_control", {"RUNNING"})):
        m = base.methods.get(nm)
        got = {x.attr for c in calls_in(m.node) for a in c.args[1:] for x in ast.walk(a) if isinstance(x, ast.Attribute) and isinstance(x.value, ast.Name) and x.value.id == "InvocationStatus"} if m else set()
        ctx.add("R5", f"guard::{nm}::statuses", got == want, m.loc() if m else "", "" if got == want else f"statuses {sorted(got)}, expected {sorted(want)}")
    # lookups
    for o in [x for x in repo.overrides(base, "get_existing_invocations") if not x.is_abstract]:
        ss = [s for s in sites if s.func is o]
        if ss:
            txt = ast.unparse(o.node)
            per_key = any(isinstance(n, ast.For) and f"{o.params[2]}.items()" in ast.unparse(n.iter) and "JOIN" in ast.unparse(n) and "arg_key = ?" in ast.unparse(n) and "arg_value = ?" in ast.unparse(n) for n in walk_no_nested(o.node))
            # equivalent relational-division form: ONE join with OR-ed (key = ? AND value = ?) pairs,
            # GROUP BY invocation, HAVING COUNT(DISTINCT arg_key) = number of pairs (distinct KEYS, since
            # two keys may carry the same value and one key never carries two)
            strs = " ".join(n.value for n in ast.walk(o.node) if isinstance(n, ast.Constant) and isinstance(n.value, str)).upper()
            flat = " ".join(strs.split())
            division = ("ARG_KEY = ? AND" in flat and "ARG_VALUE = ?" in flat and " OR " in f" {flat} " and "GROUP BY" in flat and "INVOCATION_ID" in flat.split("GROUP BY", 1)[-1][:40]
                        and "HAVING COUNT(DISTINCT" in flat and flat.split("HAVING COUNT(DISTINCT", 1)[1].split(")", 1)[0].strip().endswith("ARG_KEY")
                        and any(isinstance(c, ast.Call) and call_name(c) == "len" and c.args and o.params[2] in ast.unparse(c.args[0]) for c in ast.walk(o.node)))
            okj = per_key or division
            why = "not every key/value pair constrains the result (one inner JOIN per pair on arg_key AND arg_value)"
            if not okj and "HAVING COUNT(" in flat:
                why = "the AND-match counts something else than DISTINCT arg_key per invocation: two key arguments with equal values (or duplicate rows) make the count differ from the number of pairs, the REGISTERED/RUNNING invocation is not found and a duplicate is created"
            ctx.add("R5", f"{o.qualname}::one-join-per-key-pair", okj, o.loc(), "" if okj else why)
            consts = [n.value for n in ast.walk(o.node) if isinstance(n, ast.Constant) and isinstance(n.value, str)]
            and_join = any(isinstance(n, ast.Call) and call_name(n) == "join" and isinstance(n.func, ast.Attribute) and isinstance(n.func.value, ast.Constant) and n.func.value.value.strip().upper() == "AND" for n in ast.walk(o.node))
            ok = any("task_id_key = ?" in c_ for c_ in consts) and and_join and any("status IN (" in c_ for c_ in consts)
            ctx.add("R5", f"{o.qualname}::task-and-status-filters-ANDed", ok, o.loc(), "" if ok else "task / status filters are not AND-combined")
        else:
            fk = o.cls.methods.get("filter_by_key_arguments") if o.cls else None
            ok = fk is not None and any(call_name(c) in ("intersection_update", "intersection") for c in calls_in(fk.node))
            early = fk is not None and any(isinstance(n, ast.If) and isinstance(n.test, ast.UnaryOp) and "matching_ids" in ast.unparse(n.test) and "return set()" in ast.unparse(n) for n in walk_no_nested(fk.node))
            ctx.add("R5", f"{o.qualname}::intersection-of-all-key-pairs", ok and early, o.loc(), "" if ok and early else "filter_by_key_arguments does not intersect the matches of every key pair")
            inter = [c for c in calls_in(o.node) if call_name(c) == "intersection"]
            ok = len(inter) >= 3 and "task_matches" in ast.unparse(o.node)
            ctx.add("R5", f"{o.qualname}::task-and-status-filters-ANDed", ok, o.loc(), "" if ok else "task / key / status matches are not intersected")
    # lookups are read-only: they must not mutate the index they read (directly or through an alias)
    from ..flow import aliased_store_mutations, class_live_returns, mem_store_writes

    for o in [x for x in repo.overrides(base, "get_existing_invocations") if not x.is_abstract]:
        helpers = [o] + [h for c in calls_in(o.node) if isinstance(c.func, ast.Attribute) and isinstance(c.func.value, ast.Name) and c.func.value.id == "self" and o.cls is not None for h in [o.cls.find_method(c.func.attr)] if h is not None and h is not o]
        for h in helpers:
            muts = [(n_, "self." + w_) for n_, _, w_ in aliased_store_mutations(h.node, None, class_live_returns(h.cls))] + [(w.node, "self." + w.attr) for w in mem_store_writes(h.node) if not w.how.startswith("rebind")]
            okp = not muts
            ctx.add("R5", f"{h.qualname}::lookup-does-not-mutate-the-index", okp, h.loc(muts[0][0]) if muts else h.loc(),
                    "" if okp else f"the same-key lookup modifies {muts[0][1]} in place ({ast.unparse(muts[0][0])[:60]}): entries of invocations that are still PENDING/RUNNING disappear from the argument index, so later same-key invocations are not blocked")
    for o in [x for x in repo.overrides(base, "index_arguments_for_concurrency_control") if not x.is_abstract]:
        loops = [n for n in walk_no_nested(o.node) if isinstance(n, ast.For) and ast.unparse(n.iter) == f"{o.params[1]}.call.serialized_arguments.items()"]
        ok = bool(loops) and f"{o.params[1]}.invocation_id" in ast.unparse(loops[0])
        ctx.add("R5", f"{o.qualname}::indexes-every-argument-pair", ok, o.loc(), "" if ok else "not every serialized argument pair is indexed under the invocation id")


def run(ctx: Context) -> None:
    sm = extract(ctx.repo)
    sites = sqlmini.sites(ctx.repo)
    r1(ctx)
    r2(ctx, sm)
    r3(ctx, sm)
    r4(ctx)
    r5(ctx, sites)
    # the key is compared as SERIALISED text: every path that builds a call must serialise its arguments alike (C15/R7)
    from . import c15

    ctx.rule("R6", "same call, same key text: all argument serialisation sites of the call / task modules use the task's one policy (shared with C15/R7)")
    sub = Context("C15", ctx.repo, ctx.tier, ctx.seed)
    sub._resolver = ctx._resolver
    c15.r7(sub)
    for i in sub.instances:
        ctx.add("R6", i.key.split("/", 2)[2], i.ok, i.where, i.detail)
    ctx.floor("R6", "argument serialisation sites", ctx.count("R6"), 3)
    # R7: the in-memory indexes the lookup reads keep every live invocation: cleaning up ONE invocation removes that member,
    # never the whole key reached through it (shared with C16/R7)
    from . import c16

    ctx.rule("R7", "the task / call / argument indexes lose a whole key only when it is empty: removing one invocation (purge, clean-up) drops that member, not every invocation stored under its task or call (shared with C16/R7) - a RUNNING invocation that vanished from the index is invisible to the concurrency lookup")
    sub7 = Context("C16", ctx.repo, ctx.tier, ctx.seed)
    sub7._resolver = ctx._resolver
    c16.r7(sub7, ["BaseOrchestrator"])
    for i in sub7.instances:
        ctx.add("R7", i.key.split("/", 2)[2], i.ok, i.where, i.detail)
    ctx.exhaustive = True
    ctx.not_decided += [
        "'different keys never block one another' beyond R5 (equality of serialised values is C15)",
        "schedules of workers starting / finishing; R4 names the check-then-act sites instead of exploring them",
    ]
