# C04/R3: recovery run that loses a race for one invocation strands those already taken
import t_tasks as T, time
from pynenc.invocation.status import InvocationStatus as S
from pynenc import context
from pynenc.runner.runner_context import RunnerContext
from pynenc import core_tasks
app=T.app; app.purge()
app.conf.max_pending_seconds = 0.0
rcA = RunnerContext("A"); rcR = RunnerContext("recovery")
a = T.add(1); b = T.add(2)
got = list(app.orchestrator.get_invocations_to_run(2, rcA))   # both PENDING under A
ids=[g.invocation_id for g in got]
time.sleep(0.01)
orig = app.orchestrator.get_pending_invocations_for_recovery
def scan_then_owner_moves_on():
    listed = list(orig())
    # owner A makes progress on the second listed invocation between the scan and the transition
    app.orchestrator.set_invocation_status(listed[1], S.RUNNING, rcA)
    yield from listed
app.orchestrator.get_pending_invocations_for_recovery = scan_then_owner_moves_on
context.set_current_app(app); context.set_runner_context(app.app_id, rcR)
try:
    core_tasks.recover_pending_invocations.func()
    print("recovery returned normally")
except Exception as e:
    print("RECOVERY RAISED:", type(e).__name__)
for i in ids: print(i[:8], app.orchestrator.get_invocation_status(i).name)
print("queue:", app.broker.count_invocations())
