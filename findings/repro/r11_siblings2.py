# Confirms on the real code the divergences reported by C16/R4,R5 and C15/R2 (trigger path).
import os, tempfile, logging
logging.disable(logging.CRITICAL)
from pynenc import Pynenc
from pynenc.invocation.status import InvocationStatus as S
from pynenc.invocation.dist_invocation import DistributedInvocation
from pynenc.call import Call
from pynenc.arguments import Arguments
from pynenc.runner.runner_context import RunnerContext
from pynenc.workflow.workflow_identity import WorkflowIdentity
import t_r11
out = {}
for kind in ("mem", "sqlite"):
    app = t_r11.app_mem if kind == "mem" else t_r11.app_sql
    t = t_r11.t_mem if kind == "mem" else t_r11.t_sql
    ctx = RunnerContext("R")
    inv = DistributedInvocation.isolated(Call(t, Arguments.from_call(t.func, 1)))
    app.orchestrator.register_new_invocations([inv])
    app.orchestrator.set_invocation_status(inv.invocation_id, S.PENDING, ctx)
    app.orchestrator._register_new_invocations([inv], ctx.runner_id)          # register an existing id again
    r = {}
    r["status after re-register"] = app.orchestrator.get_invocation_status(inv.invocation_id).name
    app.orchestrator.increment_invocation_retries("unknown-id")
    r["retries of unknown id"] = app.orchestrator.get_invocation_retries("unknown-id")
    wf = inv.workflow
    app.state_backend.set_workflow_data(wf, "k", "v")
    app.state_backend.store_runner_context(RunnerContext("X", runner_id="rid-1"))
    app.state_backend.purge()
    app.state_backend._runner_context_cache.clear()
    r["workflow data after purge"] = app.state_backend.get_workflow_data(wf, "k")
    r["runner context after purge"] = app.state_backend.get_runner_context("rid-1") is not None
    try:
        app.state_backend.get_app_info(); r["get_app_info after purge"] = "returns"
    except Exception as e:
        r["get_app_info after purge"] = type(e).__name__
    out[kind] = r
for k in out["mem"]:
    print(f"{k:32s} mem={out['mem'][k]!r:12} sqlite={out['sqlite'][k]!r}")
# C15/R2: trigger-launched call identity vs direct call identity (defaults omitted by the provider)
u = t_r11.t_mem
direct = Call(u, Arguments.from_call(u.func, 1)).call_id
via_trigger_path = Call(u, Arguments(kwargs={"x": 1})).call_id      # what BaseTrigger.execute_task builds
print("trigger-path identity equals direct identity:", direct == via_trigger_path)
