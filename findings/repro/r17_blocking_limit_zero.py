# C16/R3 limit agreement: get_blocking_invocations(0) - "no free slot" - returns EVERY ready invocation on the in-memory
# backend (the `== 0` test comes after the decrement) and none on SQLite (LIMIT 0).  Documentation only; exit 1 = they differ.
import logging, sys
logging.disable(logging.CRITICAL)
from pynenc.invocation.status import InvocationStatus as S
from pynenc.runner.runner_context import RunnerContext
import t_r11

out = {}
for kind in ("mem", "sqlite"):
    app = t_r11.app_mem if kind == "mem" else t_r11.app_sql
    t = t_r11.t_mem if kind == "mem" else t_r11.t_sql
    app.purge()
    ctx = RunnerContext("R")
    kids = [t(i, i) for i in range(3)]
    parent = t(9, 9)
    app.orchestrator.set_invocation_status(parent.invocation_id, S.PENDING, ctx)
    app.orchestrator.set_invocation_status(parent.invocation_id, S.RUNNING, ctx)
    app.orchestrator.waiting_for_results(parent.invocation_id, [k.invocation_id for k in kids])
    out[kind] = {n: len(list(app.orchestrator.blocking_control.get_blocking_invocations(n))) for n in (0, 1, 2, 5)}
print("number of ids returned per requested maximum:", out)
sys.exit(1 if out["mem"] != out["sqlite"] else 0)
