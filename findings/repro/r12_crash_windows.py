# C03/R2: a process that dies between two backend effects of one lifecycle operation strands the
# invocation: not queued in an available status, not held in PENDING/RUNNING, selected by no
# recovery scan.  The crash is simulated by raising a BaseException at the second effect.
import logging; logging.disable(logging.CRITICAL)
import t_tasks as T
from pynenc.invocation.status import InvocationStatus as S
from pynenc.runner.runner_context import RunnerContext
from pynenc import context

class Crash(BaseException):
    pass

app = T.app
orch, broker = app.orchestrator, app.broker
rc = RunnerContext("R1")

def stranded(iid):
    st = orch.get_invocation_status(iid)
    queued = iid in list(broker._queue)
    scanned = iid in set(orch.get_pending_invocations_for_recovery()) | set(orch.get_running_invocations_for_recovery())
    return f"status={st.name:24s} queued={queued!s:5s} selected-by-recovery={scanned}"

def crash_at(obj, name, when=1):
    orig = getattr(obj, name)
    n = {"c": 0}
    def wrapper(*a, **k):
        n["c"] += 1
        if n["c"] == when:
            raise Crash()
        return orig(*a, **k)
    setattr(obj, name, wrapper)
    return lambda: setattr(obj, name, orig)

def scenario(title, setup, crash_obj, crash_name, run, when=1):
    app.purge()
    iid = setup()
    undo = crash_at(crash_obj, crash_name, when)
    try:
        run(iid)
    except Crash:
        pass
    finally:
        undo()
    print(f"{title:58s} -> {stranded(iid)}")

# 1. popped, not yet claimed: crash at the PENDING request after retrieve_invocation
scenario("pop -> [crash] -> S(PENDING)", lambda: T.add(1).invocation_id, orch, "set_invocation_status",
         lambda iid: list(orch.get_invocations_to_run(1, rc)))
# 2. REROUTED written, not yet pushed
def claimed():
    inv = T.add(1); list(orch.get_invocations_to_run(1, rc)); return inv.invocation_id
scenario("S(REROUTED) -> [crash] -> queue push (reroute_invocations)", claimed, broker, "route_invocation",
         lambda iid: orch.reroute_invocations({iid}, rc))
# 3. RETRY written, not yet pushed
def running():
    iid = claimed(); orch.set_invocation_status(iid, S.RUNNING, rc); return iid
scenario("S(RETRY) -> [crash] -> queue push (set_invocation_retry)", running, broker, "route_invocation",
         lambda iid: orch.set_invocation_retry(iid, Exception("x"), rc))
# 4. KILLED written, REROUTED not yet
scenario("S(KILLED) -> [crash] -> S(REROUTED) (_kill_and_reroute)", running, orch, "reroute_invocations",
         lambda iid: app.runner._kill_and_reroute(iid, rc))
# 5. blocked by concurrency control: CONCURRENCY_CONTROLLED written, reroute deferred to the end of the poll
def blocked():
    first = T.excl_reroute(1); list(orch.get_invocations_to_run(1, rc)); orch.set_invocation_status(first.invocation_id, S.RUNNING, rc)
    return T.excl_reroute(2).invocation_id
scenario("S(CONCURRENCY_CONTROLLED) -> [crash] -> S(REROUTED)", blocked, orch, "reroute_invocations",
         lambda iid: list(orch.get_invocations_to_run(1, RunnerContext("R2"))))
# 6. recovery: *_RECOVERY written, reroute not yet
app.conf.max_pending_seconds = 0.0
def pending_old():
    return claimed()
def recover(iid):
    from pynenc import core_tasks
    context.set_current_app(app); context.set_runner_context(app.app_id, RunnerContext("recovery"))
    core_tasks.recover_pending_invocations.func()
scenario("S(PENDING_RECOVERY) -> [crash] -> S(REROUTED)", pending_old, orch, "reroute_invocations", recover)
