"""Semantics-preserving canonicalisation of the parsed sources, applied by the loader before any rule.

The rules describe code by shape; harmless stylistic variants of one shape are mapped to a single
representative here, once, instead of teaching every rule every variant:

N1  `x = <expr>` immediately followed by `return x`, where x is read nowhere else in the function,
    becomes `return <expr>` (the statement keeps the position of the assignment).

    The same temporary may serve several returns when each of its reads is such a return.
N2  a `try` whose handlers do nothing but re-raise (`except ...: raise`, optionally after calls on a
    logger) and which has no `else` is replaced by its body (a `finally`, if any, is kept).

N3  inside functions `x: T = v` (plain name) becomes `x = v`; the annotation is kept on the node
    (`sa_annotation`) for the type resolver.

N4  calls of functions / methods whose every definition in the analysed packages has the same
    positional parameter list: keyword arguments that continue the positional prefix in order
    become positional (`f(a, y=b)` -> `f(a, b)` for `def f(x, y)`); rules then read arguments by
    position.

N5  a private method (`_name`, defined once, no decorators, no early return, referenced exactly once
    in the analysed packages) called as a whole statement `self._name(...)`, `x = self._name(...)`
    or `return self._name(...)` from a method of the same class is inlined there (parameters
    bound first, locals prefixed) and its definition dropped: "extract method" undone.  A helper
    with early returns is inlined only where the call is itself in return position.

Every rewrite is local, keeps evaluation order, and leaves line numbers of the surviving nodes
untouched.  (Found necessary by the `--retvar` false-alarm probe of tools/refactor_twin.py.)
"""

from __future__ import annotations

import ast
import copy


def _loads(fn: ast.AST, name: str) -> int:
    return sum(1 for n in ast.walk(fn) if isinstance(n, ast.Name) and n.id == name and isinstance(n.ctx, ast.Load))


def _stores(fn: ast.AST, name: str) -> int:
    return sum(1 for n in ast.walk(fn) if isinstance(n, ast.Name) and n.id == name and isinstance(n.ctx, (ast.Store, ast.Del)))


class _N1(ast.NodeTransformer):
    def __init__(self) -> None:
        self.fn: list[ast.AST] = []
        self.count = 0
        self._memo: dict = {}

    def visit_FunctionDef(self, node):
        self.fn.append(node)
        self.generic_visit(node)
        self.fn.pop()
        return node

    visit_AsyncFunctionDef = visit_FunctionDef

    def _only_return_temp(self, name: str) -> bool:
        """every store of the name is `name = expr` directly followed by `return name`, and those returns are its only reads"""
        fn = self.fn[-1]
        key = (id(fn), name)
        if key in self._memo:
            return self._memo[key]
        pairs = 0
        for node in ast.walk(fn):
            for fld in ("body", "orelse", "finalbody"):
                v = getattr(node, fld, None)
                if isinstance(v, list):
                    for a, b in zip(v, v[1:]):
                        if isinstance(a, ast.Assign) and len(a.targets) == 1 and isinstance(a.targets[0], ast.Name) and a.targets[0].id == name and isinstance(b, ast.Return) and isinstance(b.value, ast.Name) and b.value.id == name:
                            pairs += 1
        ok = pairs > 0 and _loads(fn, name) == pairs and _stores(fn, name) == pairs
        self._memo[key] = ok
        return ok

    def _fix(self, body: list[ast.stmt]) -> list[ast.stmt]:
        if not self.fn:
            return body
        out: list[ast.stmt] = []
        i = 0
        while i < len(body):
            s = body[i]
            nxt = body[i + 1] if i + 1 < len(body) else None
            if (
                isinstance(s, ast.Assign)
                and len(s.targets) == 1
                and isinstance(s.targets[0], ast.Name)
                and isinstance(nxt, ast.Return)
                and isinstance(nxt.value, ast.Name)
                and nxt.value.id == s.targets[0].id
                and self._only_return_temp(s.targets[0].id)
                and not any(isinstance(g, (ast.Global, ast.Nonlocal)) and s.targets[0].id in g.names for g in ast.walk(self.fn[-1]))
            ):
                r = ast.Return(value=s.value)
                ast.copy_location(r, s)
                r.end_lineno = getattr(nxt, "end_lineno", getattr(s, "end_lineno", None))
                out.append(r)
                self.count += 1
                i += 2
                continue
            out.append(s)
            i += 1
        return out

    def generic_visit(self, node):
        super().generic_visit(node)
        for fld in ("body", "orelse", "finalbody"):
            v = getattr(node, fld, None)
            if isinstance(v, list) and v and isinstance(v[0], ast.stmt):
                setattr(node, fld, self._fix(v))
        return node


def _is_log_call(st: ast.stmt) -> bool:
    if not (isinstance(st, ast.Expr) and isinstance(st.value, ast.Call)):
        return False
    f = st.value.func
    parts = []
    while isinstance(f, (ast.Attribute, ast.Call)):
        if isinstance(f, ast.Attribute):
            parts.append(f.attr)
            f = f.value
        else:
            f = f.func
    if isinstance(f, ast.Name):
        parts.append(f.id)
    return any(p in ("logger", "logging", "log", "warnings") or p.endswith("_logger") for p in parts)


class _N2(ast.NodeTransformer):
    def __init__(self) -> None:
        self.count = 0

    @staticmethod
    def _reraise_only(h: ast.ExceptHandler) -> bool:
        if not h.body or not (isinstance(h.body[-1], ast.Raise) and h.body[-1].exc is None):
            return False
        return all(_is_log_call(s) for s in h.body[:-1])

    def _fix(self, body: list[ast.stmt]) -> list[ast.stmt]:
        out: list[ast.stmt] = []
        for s in body:
            if isinstance(s, ast.Try) and s.handlers and not s.orelse and all(self._reraise_only(h) for h in s.handlers):
                self.count += 1
                if s.finalbody:
                    s.handlers = []
                    out.append(s)
                else:
                    out.extend(s.body)
            else:
                out.append(s)
        return out

    def generic_visit(self, node):
        super().generic_visit(node)
        for fld in ("body", "orelse", "finalbody"):
            v = getattr(node, fld, None)
            if isinstance(v, list) and v and isinstance(v[0], ast.stmt):
                setattr(node, fld, self._fix(v))
        return node


class _N3(ast.NodeTransformer):
    def __init__(self) -> None:
        self.depth = 0
        self.count = 0

    def visit_FunctionDef(self, node):
        self.depth += 1
        self.generic_visit(node)
        self.depth -= 1
        return node

    visit_AsyncFunctionDef = visit_FunctionDef

    def visit_ClassDef(self, node):
        saved, self.depth = self.depth, 0
        self.generic_visit(node)
        self.depth = saved
        return node

    def visit_AnnAssign(self, node):
        if self.depth and isinstance(node.target, ast.Name) and node.value is not None:
            a = ast.Assign(targets=[node.target], value=node.value, type_comment=None)
            ast.copy_location(a, node)
            a.sa_annotation = node.annotation  # type: ignore[attr-defined]
            self.count += 1
            return a
        return node


def collect_signatures(trees: list[ast.Module]) -> dict[str, list[str] | None]:
    """name -> positional parameter names (without self / cls) when EVERY definition of that name agrees, else None"""
    sigs: dict[str, list[str] | None] = {}
    for tree in trees:
        for n in ast.walk(tree):
            if isinstance(n, (ast.FunctionDef, ast.AsyncFunctionDef)):
                a = n.args
                names = [x.arg for x in a.posonlyargs + a.args]
                if names and names[0] in ("self", "cls"):
                    names = names[1:]
                val: list[str] | None = names if not a.vararg and not a.posonlyargs else None
                if n.name in sigs and sigs[n.name] != val:
                    sigs[n.name] = None
                elif n.name not in sigs:
                    sigs[n.name] = val
    return sigs


class _N4(ast.NodeTransformer):
    def __init__(self, sigs) -> None:
        self.sigs = sigs
        self.count = 0

    def visit_Call(self, node):
        self.generic_visit(node)
        nm = node.func.attr if isinstance(node.func, ast.Attribute) else node.func.id if isinstance(node.func, ast.Name) else None
        if nm is None or nm[:1].isupper() or nm.startswith("__") or self.sigs.get(nm) is None:
            return node
        if any(isinstance(a, ast.Starred) for a in node.args) or any(k.arg is None for k in node.keywords):
            return node
        params = self.sigs[nm]
        kws = {k.arg: k for k in node.keywords}
        i = len(node.args)
        while i < len(params) and params[i] in kws:
            node.args.append(kws[params[i]].value)
            node.keywords.remove(kws[params[i]])
            i += 1
            self.count += 1
        return node


def normalise(tree: ast.Module, sigs: dict | None = None) -> tuple[ast.Module, dict[str, int]]:
    n4 = 0
    if sigs:
        t4 = _N4(sigs)
        tree = t4.visit(tree)
        n4 = t4.count
    t3 = _N3()
    tree = t3.visit(tree)
    t2 = _N2()
    tree = t2.visit(tree)
    t = _N1()
    tree = t.visit(tree)
    return tree, {"N1": t.count, "N2": t2.count, "N3": t3.count, "N4": n4}


# ---------------------------------------------------------------------------------------------
# N5: single-use private helper methods are inlined at their only call site (the inverse of "extract method")


def _simple_params(fn: ast.FunctionDef) -> list[str] | None:
    a = fn.args
    if a.vararg or a.kwarg or a.posonlyargs or a.kwonlyargs:
        return None
    names = [x.arg for x in a.args]
    if not names or names[0] != "self":
        return None
    return names[1:]


def _eligible_helper(fn: ast.FunctionDef) -> bool:
    if not fn.name.startswith("_") or fn.name.startswith("__") or fn.decorator_list or isinstance(fn, ast.AsyncFunctionDef):
        return False
    if _simple_params(fn) is None:
        return False
    for n in ast.walk(fn):
        if isinstance(n, (ast.Yield, ast.YieldFrom, ast.Await, ast.Global, ast.Nonlocal, ast.Lambda)):
            return False
        if n is not fn and isinstance(n, (ast.FunctionDef, ast.AsyncFunctionDef, ast.ClassDef)):
            return False
        if isinstance(n, (ast.ListComp, ast.SetComp, ast.DictComp, ast.GeneratorExp)):
            return False  # comprehension scopes: renaming would have to respect them
    return True


def _always_exits(stmts: list[ast.stmt]) -> bool:
    """the statement list cannot fall off its end (syntactic, conservative)"""
    if not stmts:
        return False
    last = stmts[-1]
    if isinstance(last, (ast.Return, ast.Raise)):
        return True
    if isinstance(last, (ast.With, ast.AsyncWith)):
        return _always_exits(last.body)
    if isinstance(last, ast.If):
        return bool(last.orelse) and _always_exits(last.body) and _always_exits(last.orelse)
    if isinstance(last, ast.Try):
        if last.finalbody and _always_exits(last.finalbody):
            return True
        return (_always_exits(last.orelse) if last.orelse else _always_exits(last.body)) and all(_always_exits(h.body) for h in last.handlers)
    if isinstance(last, ast.While) and isinstance(last.test, ast.Constant) and last.test.value is True:
        return not any(isinstance(x, ast.Break) for x in ast.walk(last))
    return False


def _tailify(stmts: list[ast.stmt], mk) -> list[ast.stmt] | None:
    """Rewrite every `return X` of a statement list into `mk(X)` (an assignment to the caller's target, or an expression
    statement) - possible without changing control flow only when each return is in TAIL position: the last statement of the
    list, or of a branch / try body / handler / with body that is itself the last statement of a tail block.  Returns None
    when some return is elsewhere (inside a loop or a branch, followed by code, in a finally)."""
    if not stmts:
        return []
    head, last = stmts[:-1], stmts[-1]
    if any(isinstance(x, ast.Return) for st in head for x in ast.walk(st)):
        return None
    if isinstance(last, ast.Return):
        r = mk(last.value, last)
        return head + ([r] if r is not None else [])
    if not any(isinstance(x, ast.Return) for x in ast.walk(last)):
        return list(stmts)
    if isinstance(last, ast.If):
        # returns in the branches of an `if` are left alone: `if c: return a` + `return b` and its if/else spelling must be
        # treated alike (false-alarm probe `elseret`), and only the latter is in tail form
        return None
    if isinstance(last, (ast.With, ast.AsyncWith)):
        b = _tailify(last.body, mk)
        if b is None:
            return None
        new = copy.copy(last)
        new.body = b or [ast.copy_location(ast.Pass(), last)]
        return head + [new]
    if isinstance(last, ast.Try):
        if any(isinstance(x, ast.Return) for st in last.finalbody for x in ast.walk(st)):
            return None
        if last.orelse and any(isinstance(x, ast.Return) for st in last.body for x in ast.walk(st)):
            return None
        b = _tailify(last.body, mk) if not last.orelse else list(last.body)
        o = _tailify(last.orelse, mk) if last.orelse else []
        hs = []
        for h in last.handlers:
            hb = _tailify(h.body, mk)
            if hb is None:
                return None
            nh = copy.copy(h)
            nh.body = hb or [ast.copy_location(ast.Pass(), h)]
            hs.append(nh)
        if b is None or o is None:
            return None
        new = copy.copy(last)
        new.body, new.orelse, new.handlers = b or [ast.copy_location(ast.Pass(), last)], o, hs
        return head + [new]
    return None


def _has_early_return(fn: ast.FunctionDef) -> bool:
    return any(r is not fn.body[-1] for r in ast.walk(fn) if isinstance(r, ast.Return))


class _Rename(ast.NodeTransformer):
    def __init__(self, mapping: dict[str, str]):
        self.mapping = mapping

    def visit_Name(self, node):
        if node.id in self.mapping:
            node.id = self.mapping[node.id]
        return node


class _RenameExceptTargets(ast.NodeTransformer):
    """_Rename, but the targets of the synthesised result assignments stay the caller's names."""

    def __init__(self, mapping: dict[str, str]):
        self.mapping = mapping

    def visit_Name(self, node):
        if getattr(node, "_sa_result", False):
            return node
        if node.id in self.mapping:
            return ast.copy_location(ast.Name(id=self.mapping[node.id], ctx=node.ctx), node)
        return node


def inline_single_use_helpers(trees: list[ast.Module], leaf_first: bool = True) -> int:
    """rewrites the trees in place; returns the number of helpers inlined"""
    import copy

    uses: dict[str, int] = {}
    defs: dict[str, list[str]] = {}  # method name -> classes defining it ("" for plain functions)
    bases: dict[str, set[str]] = {}
    for t in trees:
        for n in ast.walk(t):
            if isinstance(n, ast.Attribute):
                uses[n.attr] = uses.get(n.attr, 0) + 1
            elif isinstance(n, ast.ClassDef):
                bases.setdefault(n.name, set()).update(b.id if isinstance(b, ast.Name) else b.attr if isinstance(b, ast.Attribute) else (b.value.id if isinstance(b, ast.Subscript) and isinstance(b.value, ast.Name) else "?") for b in n.bases)
                for f in n.body:
                    if isinstance(f, (ast.FunctionDef, ast.AsyncFunctionDef)):
                        defs.setdefault(f.name, []).append(n.name)
            elif isinstance(n, ast.Constant) and isinstance(n.value, str) and n.value.isidentifier():
                uses[n.value] = uses.get(n.value, 0) + 1  # getattr(self, "_name") style references
    for t in trees:
        for n in t.body:
            if isinstance(n, (ast.FunctionDef, ast.AsyncFunctionDef)):
                defs.setdefault(n.name, []).append("")

    def ancestors(c: str) -> set[str]:
        out: set[str] = set()
        stack = [c]
        while stack:
            x = stack.pop()
            for b in bases.get(x, ()):
                if b not in out:
                    out.add(b)
                    stack.append(b)
        return out

    def unrelated(classes: list[str]) -> bool:
        if "" in classes or len(set(classes)) != len(classes):
            return False
        anc = {c: ancestors(c) for c in classes}
        return not any(a != b and (a in anc[b] or b in anc[a]) for a in classes for b in classes)

    def own_uses(cls: ast.ClassDef, name: str) -> int:
        return sum(1 for n in ast.walk(cls) if isinstance(n, ast.Attribute) and n.attr == name)

    count = 0
    for t in trees:
        for cls in [n for n in ast.walk(t) if isinstance(n, ast.ClassDef)]:
            # a helper is private to ONE class: defined there (other definitions only in unrelated classes), referenced once,
            # inside that class, and nowhere else in the analysed packages
            helpers = {f.name: f for f in cls.body if isinstance(f, ast.FunctionDef) and unrelated(defs.get(f.name, [])) and own_uses(cls, f.name) == 1 and uses.get(f.name, 0) == len(defs.get(f.name, [])) and _eligible_helper(f)}
            if not helpers:
                continue
            # innermost first: a helper that itself still calls a foldable helper waits for the next pass
            if leaf_first:
                helpers = {k: f for k, f in helpers.items() if not any(isinstance(n, ast.Attribute) and n.attr in helpers and n.attr != k for n in ast.walk(f))}
            done: set[str] = set()
            for m in [f for f in cls.body if isinstance(f, (ast.FunctionDef, ast.AsyncFunctionDef))]:
                if m.name in helpers or not m.args.args or m.args.args[0].arg != "self":
                    continue
                for holder in ast.walk(m):
                    for fld in ("body", "orelse", "finalbody"):
                        seq = getattr(holder, fld, None)
                        if not (isinstance(seq, list) and seq and isinstance(seq[0], ast.stmt)):
                            continue
                        out: list[ast.stmt] = []
                        for st in seq:
                            call = None
                            if isinstance(st, ast.Expr) and isinstance(st.value, ast.Call):
                                call = st.value
                            elif isinstance(st, ast.Assign) and isinstance(st.value, ast.Call):
                                call = st.value
                            elif isinstance(st, ast.Return) and isinstance(st.value, ast.Call):
                                call = st.value
                            h = None
                            if call is not None and isinstance(call.func, ast.Attribute) and isinstance(call.func.value, ast.Name) and call.func.value.id == "self" and call.func.attr in helpers and call.func.attr not in done:
                                h = helpers[call.func.attr]
                            if h is None or any(isinstance(a, ast.Starred) for a in call.args) or any(k.arg is None for k in call.keywords):
                                out.append(st)
                                continue
                            early = _has_early_return(h)
                            tailified = None
                            if early and not isinstance(st, ast.Return):
                                # returns that are all in tail position can become assignments to the caller's target
                                if isinstance(st, ast.Assign):
                                    tg = st.targets

                                    def mk(v, at, tg=tg):
                                        tgs = copy.deepcopy(tg)
                                        for t_ in tgs:
                                            for n_ in ast.walk(t_):
                                                if isinstance(n_, ast.Name):
                                                    n_._sa_result = True  # the caller's name: not renamed with the helper's locals
                                        return ast.copy_location(ast.Assign(targets=tgs, value=v if v is not None else ast.Constant(value=None), type_comment=None), at)
                                else:
                                    def mk(v, at):
                                        return ast.copy_location(ast.Expr(value=v), at) if v is not None and not isinstance(v, (ast.Name, ast.Constant)) else None
                                hb0 = h.body[1:] if h.body and isinstance(h.body[0], ast.Expr) and isinstance(h.body[0].value, ast.Constant) and isinstance(h.body[0].value.value, str) else h.body
                                tailified = _tailify([copy.deepcopy(x) for x in hb0], mk)
                                if tailified is None or (isinstance(st, ast.Assign) and not _always_exits(hb0)):
                                    out.append(st)  # other early returns survive only when the call itself is in return position
                                    continue
                            params = _simple_params(h) or []
                            if len(call.args) > len(params):
                                out.append(st)
                                continue
                            prefix = f"_{h.name.strip('_')}__"
                            stored = {n.id for n in ast.walk(h) if isinstance(n, ast.Name) and isinstance(n.ctx, (ast.Store, ast.Del))}
                            local_names = set(params) | stored
                            caller_names = {n.id for n in ast.walk(m) if isinstance(n, ast.Name)} | {x.arg for x in m.args.args + m.args.kwonlyargs}
                            # a helper local keeps its name unless the caller already uses that name
                            mapping = {n: (prefix + n if n in caller_names else n) for n in local_names}
                            binds: list[ast.stmt] = []
                            given = {params[i]: a for i, a in enumerate(call.args)}
                            given.update({k.arg: k.value for k in call.keywords})
                            defaults = dict(zip(params[len(params) - len(h.args.defaults):], h.args.defaults))
                            okb = True
                            tail_position = isinstance(st, ast.Return)
                            for p in params:
                                v = given.get(p, defaults.get(p))
                                if v is None:
                                    okb = False
                                    break
                                if isinstance(v, ast.Name) and (p not in stored or tail_position) and p in given:
                                    # a plain name is passed: the parameter IS that name (rebinding it inside the helper is only
                                    # safe when nothing of the caller runs afterwards)
                                    mapping[p] = v.id
                                    continue
                                b = ast.Assign(targets=[ast.Name(id=mapping[p], ctx=ast.Store())], value=copy.deepcopy(v), type_comment=None)
                                ast.copy_location(b, st)
                                binds.append(b)
                            if not okb:
                                out.append(st)
                                continue
                            body = [copy.deepcopy(s) for s in h.body]
                            if body and isinstance(body[0], ast.Expr) and isinstance(body[0].value, ast.Constant) and isinstance(body[0].value.value, str):
                                body = body[1:]
                            if tailified is not None:
                                # the assignment targets created by mk() are the CALLER's names: rename only what the helper owns
                                body = [_RenameExceptTargets(mapping).visit(s) for s in tailified]
                                out.extend(binds + body)
                                done.add(h.name)
                                count += 1
                                continue
                            body = [_Rename(mapping).visit(s) for s in body]
                            tail: list[ast.stmt] = []
                            ret_val = None
                            if early:
                                # tail call: the helper's returns ARE the caller's returns
                                if not _always_exits(body):
                                    body.append(ast.copy_location(ast.Return(value=ast.Constant(value=None)), st))
                                out.extend(binds + body)
                                done.add(h.name)
                                count += 1
                                continue
                            if body and isinstance(body[-1], ast.Return):
                                ret_val = body[-1].value
                                body = body[:-1]
                            if isinstance(st, ast.Expr):
                                if ret_val is not None and not isinstance(ret_val, (ast.Name, ast.Constant)):
                                    tail = [ast.copy_location(ast.Expr(value=ret_val), st)]
                            elif isinstance(st, ast.Assign):
                                a_ = ast.Assign(targets=st.targets, value=ret_val if ret_val is not None else ast.Constant(value=None), type_comment=None)
                                tail = [ast.copy_location(a_, st)]
                            else:
                                tail = [ast.copy_location(ast.Return(value=ret_val), st)]
                            out.extend(binds + body + tail)
                            done.add(h.name)
                            count += 1
                        setattr(holder, fld, out)
            if done:
                cls.body = [f for f in cls.body if not (isinstance(f, ast.FunctionDef) and f.name in done)]
        ast.fix_missing_locations(t)
    return count
