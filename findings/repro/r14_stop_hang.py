# C11/R5: ThreadRunner._on_stop joins task threads without a timeout. A task that waits for a child which
# is still queued loops `while not child.status.is_final(): runner.waiting_for_results(...)`; once the runner
# has stopped polling nobody runs the child, so join() - and therefore the stop - never returns.
import logging; logging.disable(logging.CRITICAL)
import threading, time
import t_tasks as T
from pynenc.runner.thread_runner import ThreadRunner
from pynenc.invocation.status import InvocationStatus as S
app = T.app; app.purge()
app._config_values = {**(app._config_values or {}), "runner_loop_sleep_time_sec": 0.01, "invocation_wait_results_sleep_time_sec": 0.01, "max_threads": 1, "min_threads": 1}
runner = ThreadRunner(app)
orig = app.orchestrator.get_invocations_to_run
allow = {"n": 1}
def only_first(n, ctx):
    # the runner claims the parent; the child is routed by the parent and stays queued
    if allow["n"] <= 0:
        return iter(())
    allow["n"] -= 1
    return orig(1, ctx)
app.orchestrator.get_invocations_to_run = only_first
parent = T.parent_waits_for_child(1)
t = threading.Thread(target=runner.run, daemon=True); t.start()
deadline = time.time() + 5
while time.time() < deadline and not runner.waiting_invocation_ids:
    time.sleep(0.02)
print("parent waiting on child:", bool(runner.waiting_invocation_ids), " queue length:", app.broker.count_invocations())
runner.stop_runner_loop()
t.join(timeout=5)
print("run() returned within 5 s after the stop request:", not t.is_alive())
print("parent status:", app.orchestrator.get_invocation_status(parent.invocation_id).name)
