# C16/R4: BaseStateBackend.store_runner_context writes to the backend only when the runner id is not in the process-local
# _runner_context_cache.  MemStateBackend.purge clears that cache, SQLiteStateBackend.purge does not: after a purge the same
# process never stores the context again and every other process misses it.  Documentation only; exit 1 = backends differ.
import logging, sys
logging.disable(logging.CRITICAL)
from pynenc.runner.runner_context import RunnerContext
import t_r11

out = {}
for kind in ("mem", "sqlite"):
    app = t_r11.app_mem if kind == "mem" else t_r11.app_sql
    sb = app.state_backend
    sb.purge()
    ctx = RunnerContext("R", runner_id="rid-r20")
    sb.store_runner_context(ctx)
    sb.purge()
    sb.store_runner_context(ctx)              # the runner registers its context again after the purge
    sb._runner_context_cache.clear()          # = what any OTHER process sees
    out[kind] = sb.get_runner_context("rid-r20") is not None
print("context visible to another process after purge + re-store:", out)
sys.exit(1 if out["mem"] != out["sqlite"] else 0)
