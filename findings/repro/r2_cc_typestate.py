# C06/R3: blocked invocation in RETRY / REROUTED status makes the poll raise
import t_tasks as T
from pynenc.invocation.status import InvocationStatus as S
from pynenc import context
from pynenc.runner.runner_context import RunnerContext
app=T.app
rcA = RunnerContext("A"); rcB = RunnerContext("B")
def scenario(task, second_status_path):
    app.purge()
    a = task(1); b = task(2)
    # A claims and runs `a`
    got = list(app.orchestrator.get_invocations_to_run(1, rcA))
    app.orchestrator.set_invocation_status(got[0].invocation_id, S.RUNNING, rcA)
    first = got[0].invocation_id
    other = b.invocation_id if first==a.invocation_id else a.invocation_id
    # drain so `other` is blocked & handled once
    return first, other
# (1) RETRY + reroute=True : make `b` RETRY while `a` RUNNING
app.purge()
a = T.excl_reroute(1)
got = list(app.orchestrator.get_invocations_to_run(1, rcA)); ia=got[0].invocation_id
app.orchestrator.set_invocation_status(ia, S.RUNNING, rcA)
app.orchestrator.set_invocation_retry(ia, Exception("x"), rcA)      # a: RETRY, queued
b = T.excl_reroute(2)                                               # b: REGISTERED, queued behind
# B claims: pops a (RETRY, available, candidate ok) -> PENDING
gotB = list(app.orchestrator.get_invocations_to_run(1, rcB)); print("B claimed", [app.orchestrator.get_invocation_status(x.invocation_id).name for x in gotB])
app.orchestrator.set_invocation_status(gotB[0].invocation_id, S.RUNNING, rcB)
app.orchestrator.set_invocation_retry(gotB[0].invocation_id, Exception("x"), rcB)   # a RETRY again, queued after b
# A claims b -> RUNNING
gotA = list(app.orchestrator.get_invocations_to_run(1, rcA)); app.orchestrator.set_invocation_status(gotA[0].invocation_id, S.RUNNING, rcA)
print("queue now holds:", app.broker.count_invocations(), "status of a:", app.orchestrator.get_invocation_status(ia).name)
try:
    print("poll:", list(app.orchestrator.get_invocations_to_run(1, rcB)))
except Exception as e:
    print("POLL RAISED:", type(e).__name__, str(e)[:120])
print("after: a status", app.orchestrator.get_invocation_status(ia).name, "queue", app.broker.count_invocations())
