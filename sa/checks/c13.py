"""C13 - a satisfied trigger condition launches its task exactly once.

R1 claim before launch: execute_task is reachable only through the true arm of claim_trigger_run
   for the run id of the current iteration
R2 claims and the cron compare-and-swap are atomic check-and-set (one lock / BEGIN IMMEDIATE)
R3 the compare-and-swap compares on every path (no bypass for a particular expected value)
R4 run ids are deterministic: hashed inputs derive only from trigger id and valid-condition ids
R5 occurrence identity: every condition context's context_id contains the field identifying the
   occurrence; valid_condition_id = condition id + context id
R6 the arguments of a launch derive from the occurrence being launched
R7 valid conditions are consumed after the launch loop, only when no dependant trigger is pending
R8 launch cardinality: one launch per pending occurrence unless several distinct conditions are combined
R9 a lost claim skips one occurrence only: the launch loop stops early only after a launch
R10 the cron compare-and-swap follows a schedule test on the very value it expects
"""

from __future__ import annotations

import ast

from .. import sqlmini
from ..critsec import mem_section, sqlite_critical_section
from ..flow import call_name, calls_in, cfg_node_of, derived_names, func_cfg, names_in, parent_map, self_attr
from ..loader import AnalysisError, FuncInfo, walk_no_nested
from ..report import Context
from . import c01

PROPERTY = "C13"
TECHNIQUE = "static analysis: guard-edge must-pass-through on the CFG, critical-section automaton (lock / BEGIN IMMEDIATE), control-dependence of the CAS write, taint of hashed inputs, frozen occurrence-identity table, loop-invariance of launch arguments"

# occurrence-identifying field per condition context (frozen by reading, DESIGN.md A3)
OCCURRENCE_FIELD = {
    "EventContext": ("event_id",),
    "StatusContext": ("invocation_id", "status"),
    "ResultContext": ("invocation_id",),
    "ExceptionContext": ("invocation_id",),
    "CronContext": ("timestamp",),
}
NONDET = ("time(", "now(", "uuid", "random", " id(", "getpid", "monotonic")


def r1(ctx: Context, loop: FuncInfo) -> None:
    ctx.rule("R1", "trigger_loop_iteration: every execute_task call is reachable only through the true arm of a claim_trigger_run(<run id of the enclosing iteration over generate_trigger_run_ids>) test")
    g = func_cfg(ctx.repo, loop)
    pm = parent_map(loop.node)
    execs = [c for c in calls_in(loop.node) if call_name(c) == "execute_task"]
    ctx.floor("R1", "launch sites", len(execs), 1)
    claims = []
    for n in g.nodes:
        if n.kind == "test" and n.ast is not None and any(isinstance(x, ast.Call) and call_name(x) == "claim_trigger_run" for x in ast.walk(n.ast)):
            neg = isinstance(n.ast, ast.UnaryOp) and isinstance(n.ast.op, ast.Not)
            claims.append((n, "false" if neg else "true"))
    auth = {(n.id, lab) for n, lab in claims}
    seen = set()
    stack = [g.entry]
    while stack:
        x = stack.pop()
        if x in seen:
            continue
        seen.add(x)
        for s, lab in g.succ[x]:
            if (x, lab) in auth or lab == "exc":
                continue
            stack.append(s)
    for c in execs:
        en = cfg_node_of(g, loop.node, c, pm)
        ok = bool(claims) and all(n.id not in seen for n in en)
        ctx.add("R1", f"{loop.qualname}::launch-only-after-successful-claim", ok, loop.loc(c), "" if ok else "a task can be launched without this loop having claimed the run id: two runners executing the trigger loop launch it twice")
        # the claimed id is the loop variable of the enclosing for over the generated run ids
        fors = [a for a in _anc(pm, c) if isinstance(a, ast.For)]
        ok = False
        if fors:
            it = fors[0].iter
            src = ast.unparse(it)
            if isinstance(it, ast.Name):
                src = " ".join(ast.unparse(v) for v in c01._reaching_values(loop, it.id))
            lv = names_in(fors[0].target)
            cl = [x for n, _ in claims for x in ast.walk(n.ast) if isinstance(x, ast.Call) and call_name(x) == "claim_trigger_run"]
            ok = "generate_trigger_run_ids" in src and any(x.args and names_in(x.args[0]) & lv for x in cl)
        ctx.add("R1", f"{loop.qualname}::claim-is-for-the-iterated-run-id", ok, loop.loc(c), "" if ok else "the claim does not use the run id of the current iteration over generate_trigger_run_ids")


def r2_r3(ctx: Context, sites) -> None:
    ctx.rule("R2", "claim_trigger_run and store_last_cron_execution (documented as atomic) perform read, test and write inside one critical section: in memory one `with <lock>` block around all accesses of the claim / cron store; in SQLite BEGIN IMMEDIATE before the SELECT on the same connection, or a single conditional statement")
    ctx.rule("R3", "store_last_cron_execution writes only when the stored value equals the expected value on every path - there is no bypass for a particular expected value (expected None must mean 'no previous execution stored')")
    repo = ctx.repo
    base = repo.cls("BaseTrigger")
    n = 0
    for meth, attr in (("claim_trigger_run", "_trigger_run_claims"), ("store_last_cron_execution", "_last_cron_executions")):
        ovs = [o for o in repo.overrides(base, meth) if not o.is_abstract]
        if len(ovs) < 2:
            raise AnalysisError(f"anchor-vanished: fewer than two implementations of {meth}")
        for f in ovs:
            n += 1
            fs = [s for s in sites if s.func is f]
            if fs:
                for r in sqlite_critical_section(repo, f, sites):
                    ctx.add("R2", r.key, r.ok, r.where, r.detail)
            else:
                def lock_pred(e: ast.AST) -> bool:
                    a = self_attr(e)
                    return a is not None and "lock" in a.lower()

                res = mem_section(f, {attr}, lock_pred)
                if not res:
                    ctx.fail("R2", f"{f.qualname}::no-store-access", f.loc(), f"no access to self.{attr} found")
                for r in res:
                    ctx.add("R2", r.key, r.ok, r.where, r.detail)
            if meth == "store_last_cron_execution":
                # R3: the guard that refuses must be a pure comparison stored != expected
                p_exp = f.params[3] if len(f.params) > 3 else "expected_last_execution"
                refusals = [x for x in walk_no_nested(f.node) if isinstance(x, ast.If) and any(isinstance(y, ast.Return) and isinstance(y.value, ast.Constant) and y.value.value is False for y in x.body)]
                if not refusals:
                    ctx.fail("R3", f"{f.qualname}::compare-present", f.loc(), "the write is unconditional: not a compare-and-swap")
                    continue
                for r_ in refusals:
                    t = r_.test
                    conj = t.values if isinstance(t, ast.BoolOp) and isinstance(t.op, ast.And) else [t]
                    cmp_ok = any(isinstance(v, ast.Compare) and isinstance(v.ops[0], ast.NotEq) and p_exp in names_in(v) for v in conj)
                    bypass = [v for v in conj if isinstance(v, ast.Compare) and isinstance(v.ops[0], (ast.IsNot, ast.Is)) and p_exp in names_in(v) and isinstance(v.comparators[0], ast.Constant) and v.comparators[0].value is None]
                    ctx.add("R3", f"{f.qualname}::compares-stored-with-expected", cmp_ok, f.loc(r_), "" if cmp_ok else "the refusal is not `stored != expected`")
                    ctx.add("R3", f"{f.qualname}::no-bypass-for-expected-None", not bypass, f.loc(r_),
                            "" if not bypass else f"the comparison is skipped when {p_exp} is None: two trigger loops that both read 'no previous execution' (the first firing of a cron condition) both store and both report success - the tick fires twice")
                    # refuse IFF stored != expected: every further conjunct lets some mismatching writer through
                    extra = [v for v in conj if not (isinstance(v, ast.Compare) and isinstance(v.ops[0], ast.NotEq) and p_exp in names_in(v)) and v not in bypass]
                    ctx.add("R3", f"{f.qualname}::refuses-every-mismatch", not extra, f.loc(r_),
                            "" if not extra else f"the refusal needs `{ast.unparse(extra[0])[:70]}` in addition to stored != expected: a writer whose expectation is stale is let through whenever that extra condition is false - two loops that read the same previous execution both store and both fire the tick")
    ctx.floor("R2", "atomic-contract implementations", n, 4)


def r4(ctx: Context) -> None:
    ctx.rule("R4", "generate_trigger_run_ids hashes only self.trigger_id and valid-condition ids (sorted before joining in the AND branch), nothing non-deterministic; the trigger id hashes task id, sorted condition ids and logic")
    td = ctx.repo.cls("TriggerDefinition")
    f = td.methods.get("generate_trigger_run_ids")
    gid = td.methods.get("_generate_trigger_id") or td.methods.get("__init__")  # (a single-use helper is inlined by the loader)
    if f is None or gid is None:
        raise AnalysisError("anchor-vanished: TriggerDefinition id generation")
    ups = [c for c in calls_in(f.node) if call_name(c) == "update"]
    ctx.floor("R4", "hash inputs in generate_trigger_run_ids", len(ups), 4)
    vc_names = derived_names(f.node, {n.targets[0].id for n in walk_no_nested(f.node) if isinstance(n, ast.Assign) and isinstance(n.targets[0], ast.Name) and "valid_condition_id" in ast.unparse(n.value)})
    for c in ups:
        a = c.args[0] if c.args else None
        txt = ast.unparse(a) if a is not None else ""
        ok = a is not None and not any(x in txt for x in NONDET) and ("self.trigger_id" in txt or bool(names_in(a) & vc_names))
        ctx.add("R4", f"{f.qualname}::hash-input::{txt[:50]}", ok, f.loc(c), "" if ok else f"hashed input {txt} does not derive only from the trigger id / valid-condition ids")
        if "join" in txt:
            ok = "sorted(" in txt
            ctx.add("R4", f"{f.qualname}::joined-ids-sorted", ok, f.loc(c), "" if ok else "the combined run id depends on the iteration order of the pending conditions")
    txt = " ; ".join(ast.unparse(c.args[0]) for c in calls_in(gid.node) if call_name(c) == "update" and c.args)
    ok = "self.task_id" in txt and "sorted(self.condition_ids)" in txt and "self.logic" in txt and not any(x in txt for x in NONDET)
    ctx.add("R4", f"{gid.qualname}::deterministic-trigger-id", ok, gid.loc(), "" if ok else "the trigger id is not a pure function of task id, sorted condition ids and logic")
    # valid condition ids only from conditions of this trigger
    ok = any(isinstance(n, ast.ListComp) and "self.condition_ids" in ast.unparse(n) and "valid_condition_id" in ast.unparse(n.elt) for n in walk_no_nested(f.node))
    ctx.add("R4", f"{f.qualname}::only-own-conditions", ok, f.loc(), "" if ok else "run ids are built from conditions that do not belong to this trigger")


def r5(ctx: Context, sites) -> None:
    ctx.rule("R5", "context_id of every ConditionContext subclass interpolates the field(s) identifying the occurrence (event_id / invocation_id (+status) / timestamp); valid_condition_id = condition_id + context_id; both stores key pending conditions by valid_condition_id")
    repo = ctx.repo
    base = repo.cls("ConditionContext")
    subs = [c for c in base.all_subclasses() if "context_id" in c.methods and not c.methods["context_id"].is_abstract]
    ctx.floor("R5", "condition context classes", len(subs), 5)
    for c in subs:
        f = c.methods["context_id"]
        want = OCCURRENCE_FIELD.get(c.name)
        rets = [n for n in walk_no_nested(f.node) if isinstance(n, ast.Return) and n.value is not None]
        used = {x.attr for r in rets for x in ast.walk(r.value) if isinstance(x, ast.Attribute) and isinstance(x.value, ast.Name) and x.value.id == "self"}
        if want is None:
            ctx.fail("R5", f"{c.qualname}::occurrence-field-known", f.loc(), f"no frozen occurrence field for the new context class {c.name}; uses {sorted(used)}")
            continue
        ok = set(want) <= used
        ctx.add("R5", f"{c.qualname}::context-id-identifies-occurrence", ok, f.loc(),
                "" if ok else f"context_id is built from {sorted(used)} and lacks {sorted(set(want) - used)}: two different occurrences (e.g. two invocations failing with the same exception type) collapse into one pending valid condition and launch the dependent task once")
    vc = repo.cls("ValidCondition")
    f = vc.methods.get("valid_condition_id")
    txt = ast.unparse(f.node) if f else ""
    ok = "self.condition.condition_id" in txt and "self.context.context_id" in txt
    ctx.add("R5", "ValidCondition::id=condition+context", ok, f.loc() if f else "", "" if ok else "valid_condition_id does not combine condition id and context id")
    tb = repo.cls("BaseTrigger")
    for o in [x for x in repo.overrides(tb, "record_valid_conditions") + repo.overrides(tb, "record_valid_condition") if not x.is_abstract]:
        ss = [s for s in sites if s.func is o and s.verb.startswith("INSERT")]
        if ss:
            cols = sqlmini.insert_columns(ss[0].template)
            ps = sqlmini.param_exprs(ss[0]) or []
            ok = "valid_condition_id" in cols and ast.unparse(ps[cols.index("valid_condition_id")]).endswith(".valid_condition_id")
        else:
            ok = any(isinstance(n, ast.Assign) and isinstance(n.targets[0], ast.Subscript) and self_attr(n.targets[0]) == "_valid_conditions" and ast.unparse(n.targets[0].slice).endswith(".valid_condition_id") for n in walk_no_nested(o.node)) or any(call_name(c) == "record_valid_condition" for c in calls_in(o.node))
        ctx.add("R5", f"{o.qualname}::keyed-by-valid-condition-id", ok, o.loc(), "" if ok else "pending conditions are not stored under valid_condition_id")


def r6_r7_r8(ctx: Context, loop: FuncInfo) -> None:
    ctx.rule("R6", "in the per-run-id launch loop the arguments given to execute_task depend on the occurrence of that iteration; an argument expression that is invariant in the loop is reported")
    ctx.rule("R7", "clear_valid_conditions runs after the launch loop and only for conditions whose set of pending triggers is empty")
    ctx.rule("R8", "generate_trigger_run_ids returns one id per pending occurrence unless the branch is guarded by a test implying more than one distinct condition (a guard on the logic alone collapses N occurrences of a single-condition trigger)")
    pm = parent_map(loop.node)
    execs = [c for c in calls_in(loop.node) if call_name(c) == "execute_task"]
    for c in execs:
        fors = [a for a in _anc(pm, c) if isinstance(a, ast.For)]
        if not fors:
            ctx.fail("R6", f"{loop.qualname}::launch-in-run-id-loop", loop.loc(c), "execute_task is not inside a loop over run ids")
            continue
        inner = fors[0]
        lv = derived_names(inner, names_in(inner.target))
        arg = c.args[1] if len(c.args) > 1 else None
        dep = set()
        if arg is not None:
            dep = names_in(arg)
            for nm in list(dep):
                for v in c01._reaching_values(loop, nm):
                    if any(x is v for x in ast.walk(inner)):
                        dep |= names_in(v)
        ok = arg is not None and bool(dep & lv)
        ctx.add("R6", f"{loop.qualname}::launch-arguments-depend-on-iterated-occurrence", ok, loop.loc(c),
                "" if ok else f"the arguments ({ast.unparse(arg) if arg is not None else None} <- {sorted(dep)}) do not depend on the run id / occurrence of the iteration ({sorted(lv)}): with several occurrences pending, an OR trigger launches once per occurrence but every launch receives the arguments derived from the aggregate context (the provider returns the first matching occurrence)")
    clears = [c for c in calls_in(loop.node) if call_name(c) == "clear_valid_conditions"]
    ctx.floor("R7", "consume sites", len(clears), 1)
    for c in clears:
        ok = all(c.lineno > e.lineno for e in execs) and not any(isinstance(a, (ast.For, ast.While)) for a in _anc(pm, c))
        ctx.add("R7", f"{loop.qualname}::consume-after-launch-loop", ok, loop.loc(c), "" if ok else "valid conditions are cleared before / inside the launch loop")
        a = c.args[0] if c.args else None
        src = ""
        if isinstance(a, ast.Name):
            src = " ".join(ast.unparse(v) for v in c01._reaching_values(loop, a.id))
        ok = "if not condition_to_pending_triggers[" in src or ("if not" in src and "pending" in src)
        ctx.add("R7", f"{loop.qualname}::consume-only-when-no-pending-trigger", ok, loop.loc(c), "" if ok else f"cleared set = {src[:100]}")
    # a trigger that ran is removed from the pending sets of ITS conditions only when it should trigger
    ok = False
    for fl in [n for n in walk_no_nested(loop.node) if isinstance(n, ast.For)]:
        lv = names_in(fl.target)
        skips = [n for n in fl.body if isinstance(n, ast.If) and isinstance(n.test, ast.UnaryOp) and isinstance(n.test.op, ast.Not) and isinstance(n.test.operand, ast.Call) and call_name(n.test.operand) == "should_trigger" and names_in(n.test.operand.func) & lv and any(isinstance(x, ast.Continue) for x in n.body)]
        disc = [c for c in calls_in(fl) if call_name(c) == "discard" and c.args and isinstance(c.args[0], ast.Attribute) and c.args[0].attr == "trigger_id" and names_in(c.args[0]) & lv]
        if skips and disc and all(d.lineno > skips[0].lineno for d in disc):
            ok = True
    ctx.add("R7", f"{loop.qualname}::pending-set-updated-only-for-fired-triggers", ok, loop.loc(), "" if ok else "pending bookkeeping does not follow should_trigger")
    # R8
    td = ctx.repo.cls("TriggerDefinition")
    f = td.methods.get("generate_trigger_run_ids")
    decided = False
    if f is not None:
        for n in walk_no_nested(f.node):
            if isinstance(n, ast.If):
                # either arm may be the collapsing one (`if AND: return [one]` / `if not AND: ... else: return [one]`)
                rets = [x for arm in (n.body, n.orelse) for x in arm if isinstance(x, ast.Return) and isinstance(x.value, ast.List) and len(x.value.elts) == 1]
                if rets:
                    decided = True
                    t = ast.unparse(n.test)
                    multi = "len(" in t and "condition_ids" in t
                    ctx.add("R8", f"{f.qualname}::single-id-branch-requires-several-conditions", multi, f.loc(n),
                            "" if multi else f"the branch that collapses all pending occurrences into ONE run id is guarded by `{t}` only: a trigger on a single condition (default logic AND) launches once for N pending occurrences of that condition")
    if not decided:
        ctx.not_decided.append("R8 launch cardinality: the shape of generate_trigger_run_ids could not be classified by the two-point length domain (no claim)")


def _anc(pm, node):
    cur = pm.get(id(node))
    while cur is not None:
        yield cur
        cur = pm.get(id(cur))


def r9(ctx: Context, loop: FuncInfo) -> None:
    ctx.rule("R9", "a lost claim skips only that occurrence: inside the launch loop over the run ids every break / return is dominated by the execute_task call of the same iteration (the loop may stop early only after a launch, never because another runner holds one id)")
    g = func_cfg(ctx.repo, loop)
    pm = parent_map(loop.node)
    dom = g.dominators()
    n = 0
    for c in [c for c in calls_in(loop.node) if call_name(c) == "execute_task"]:
        fors = [a for a in _anc(pm, c) if isinstance(a, ast.For)]
        if not fors:
            continue
        launch_nodes = {x.id for x in cfg_node_of(g, loop.node, c, pm)}
        exits = [x for st in fors[0].body for x in ast.walk(st) if isinstance(x, (ast.Break, ast.Return))]
        bad = None
        for e in exits:
            for en in cfg_node_of(g, loop.node, e, pm):
                if not (dom.get(en.id, set()) & launch_nodes):
                    bad = e
        n += 1
        ctx.add("R9", f"{loop.qualname}::lost-claim-does-not-abandon-other-occurrences", bad is None, loop.loc(bad or c),
                "" if bad is None else "the loop over the run ids can stop without having launched the current one: when another runner holds the claim of one occurrence the remaining pending occurrences are never launched, yet their conditions are cleared afterwards")
    ctx.floor("R9", "launch loops", n, 1)


def _implied_by_not(test: ast.AST, pred) -> ast.Call | None:
    """test is `not <call satisfying pred>` or an `or` with such a disjunct: then (call is false) => test"""
    if isinstance(test, ast.UnaryOp) and isinstance(test.op, ast.Not) and isinstance(test.operand, ast.Call) and pred(test.operand):
        return test.operand
    if isinstance(test, ast.BoolOp) and isinstance(test.op, ast.Or):
        for v in test.values:
            r = _implied_by_not(v, pred)
            if r is not None:
                return r
    return None


def r10(ctx: Context) -> None:
    ctx.rule("R10", "the cron compare-and-swap is attempted only for a stored value the schedule was evaluated against: in the function calling store_last_cron_execution(expected_last_execution=E), whenever E (read from the store) is set, `is_satisfied_by(CronContext(last_execution=E))` is evaluated and its falsity returns without writing - a cached value never replaces that test")
    bt = ctx.repo.cls("BaseTrigger")
    n = 0
    for f in bt.methods.values():
        cas = [c for c in calls_in(f.node) if call_name(c) == "store_last_cron_execution" and isinstance(c.func, ast.Attribute)]
        for c in cas:
            n += 1
            key = f"{f.qualname}::cas-expected-value-was-evaluated"
            e = next((k.value for k in c.keywords if k.arg == "expected_last_execution"), c.args[2] if len(c.args) > 2 else None)
            if not isinstance(e, ast.Name):
                ctx.fail("R10", key, f.loc(c), "the expected value of the compare-and-swap is not a local read from the store")
                continue
            reads = [v for v in c01._reaching_values(f, e.id)]
            from_store = bool(reads) and all(isinstance(v, ast.Call) and call_name(v) == "get_last_cron_execution" for v in reads)
            # contexts built on E
            ctx_names = set()
            for st in walk_no_nested(f.node):
                if isinstance(st, ast.Assign) and isinstance(st.value, ast.Call) and call_name(st.value) == "CronContext" and any(k.arg == "last_execution" and isinstance(k.value, ast.Name) and k.value.id == e.id for k in st.value.keywords):
                    ctx_names |= {t.id for t in st.targets if isinstance(t, ast.Name)}
            good = None
            for st in walk_no_nested(f.node):
                if not isinstance(st, ast.If) or st.lineno > c.lineno:
                    continue
                call = _implied_by_not(st.test, lambda x: call_name(x) == "is_satisfied_by")
                if call is None or not call.args:
                    continue
                a = call.args[0]
                on_e = (isinstance(a, ast.Name) and a.id in ctx_names and _last_bind_is_on(f, a.id, st, e.id)) or (isinstance(a, ast.Call) and call_name(a) == "CronContext" and any(k.arg == "last_execution" and isinstance(k.value, ast.Name) and k.value.id == e.id for k in a.keywords))
                returns = bool(st.body) and isinstance(st.body[-1], ast.Return) and (st.body[-1].value is None or (isinstance(st.body[-1].value, ast.Constant) and st.body[-1].value.value is None))
                # the test sits in the `if E:` region or at function level (not under an unrelated guard)
                pm = parent_map(f.node)
                guards = [a_ for a_ in _anc(pm, st) if isinstance(a_, ast.If)]
                guard_ok = all(isinstance(g_.test, ast.Name) and g_.test.id == e.id and any(x is st for b in g_.body for x in ast.walk(b)) for g_ in guards)
                if on_e and returns and guard_ok:
                    good = st
            ok = from_store and good is not None
            ctx.add("R10", key, ok, f.loc(c), "" if ok else ("the expected value is not read from the store" if not from_store else f"no unconditional `if not <cond>.is_satisfied_by(CronContext(last_execution={e.id})): return None` precedes the compare-and-swap: a runner whose cache is stale passes the schedule test on the cached value, reads the fresh stored value, and swaps successfully - the same tick fires twice"))
            # ... and the schedule is consulted on EVERY path to the swap, also when nothing is stored yet ("polls outside
            # any window yield none" - a condition that never fired is no exception)
            from ..flow import func_cfg, some_path_avoids

            g = func_cfg(ctx.repo, f)
            sat = not some_path_avoids(g, f.node, c, lambda x: isinstance(x, ast.Call) and call_name(x) == "is_satisfied_by", parent_map(f.node))
            ctx.add("R10", f"{f.qualname}::schedule-consulted-on-every-path-to-the-swap", bool(sat), f.loc(c), "" if sat else "a path reaches store_last_cron_execution without `is_satisfied_by` having held (the tests sit under `if <last execution>:` guards): the first poll of a condition that never fired produces an occurrence at any time of the year")
    ctx.floor("R10", "cron compare-and-swap call sites", n, 1)


def _last_bind_is_on(f: FuncInfo, name: str, before: ast.stmt, e: str) -> bool:
    last = None
    for st in walk_no_nested(f.node):
        if isinstance(st, ast.Assign) and any(isinstance(t, ast.Name) and t.id == name for t in st.targets) and st.lineno < before.lineno:
            if last is None or st.lineno > last.lineno:
                last = st
    return last is not None and isinstance(last.value, ast.Call) and call_name(last.value) == "CronContext" and any(k.arg == "last_execution" and isinstance(k.value, ast.Name) and k.value.id == e for k in last.value.keywords)


def r11(ctx: Context) -> None:
    ctx.rule("R11", "elapsed time is read with total_seconds(): no `.seconds` / `.microseconds` component of a time difference in the trigger code (`.seconds` drops whole days: a daily or weekly schedule is then compared with the time of day only)")
    n = 0
    bad = []
    for m in ctx.repo.modules.values():
        if not m.name.startswith("pynenc.trigger"):
            continue
        for node in ast.walk(m.tree):
            if isinstance(node, ast.Call) and isinstance(node.func, ast.Attribute) and node.func.attr == "total_seconds":
                n += 1
            elif isinstance(node, ast.Attribute) and node.attr in ("seconds", "microseconds") and isinstance(node.ctx, ast.Load) and not isinstance(node.value, ast.Name) or (isinstance(node, ast.Attribute) and node.attr in ("seconds", "microseconds") and isinstance(node.ctx, ast.Load) and isinstance(node.value, ast.Name) and node.value.id not in ("self", "cls")):
                # (configuration fields are called *_seconds and are attributes of self / conf, never a bare `.seconds`)
                n += 1
                bad.append((m, node))
    for m, node in bad:
        ctx.fail("R11", f"{m.name}::timedelta-component-instead-of-total_seconds", f"{m.relpath}:{node.lineno}", f"`{ast.unparse(node)[:70]}` is the seconds COMPONENT of a duration (0..86399): for gaps of a day or more the minimum-interval / window tests compare the wrong number - a daily schedule skips or delays its occurrence")
    if not bad:
        ctx.ok("R11", "trigger-code::durations-read-with-total_seconds", "pynenc/trigger", f"{n} duration reads")
    ctx.floor("R11", "duration reads in trigger code", n, 2)


def replace_resets(repo, sites, class_filter=None) -> list[tuple]:
    """(site, table, columns reset) for every `INSERT OR REPLACE` / `REPLACE` that lists only some columns of a table whose
    other columns are maintained by UPDATE statements of the same class: REPLACE deletes the old row, those columns fall
    back to their defaults"""
    import re

    out = []
    by_cls: dict[str, list] = {}
    for s in sites:
        if s.func.cls is not None and (class_filter is None or class_filter(s.func.cls)):
            by_cls.setdefault(s.func.cls.qualname, []).append(s)
    for ss in by_cls.values():
        upd: dict[str, set[str]] = {}
        for s in ss:
            if s.verb == "UPDATE":
                t = sqlmini.target_table(s.template)
                m = re.search(r"\bSET\b(.*?)(\bWHERE\b|$)", " ".join(s.template.split()), re.I)
                cols = [c.split("=")[0].strip() for c in sqlmini._split_top(m.group(1), ",")] if m else []
                upd.setdefault(t or "?", set()).update(cols)
        for s in ss:
            if (s.verb.startswith("INSERT") and sqlmini.conflict_clause(s.template) == "OR REPLACE") or s.verb == "REPLACE":
                t = sqlmini.target_table(s.template) or "?"
                miss = upd.get(t, set()) - set(sqlmini.insert_columns(s.template))
                out.append((s, t, sorted(miss)))
    return out


def r12(ctx: Context, sites) -> None:
    ctx.rule("R12", "registering a condition again (every runner does at start-up) keeps what the trigger store remembers about it: no `INSERT OR REPLACE` of the trigger backend lists fewer columns than other statements maintain (REPLACE deletes the row: last_cron_execution would be reset and the current tick fire again)")
    bt = ctx.repo.cls("BaseTrigger")
    rows = replace_resets(ctx.repo, sites, lambda c: c.is_subclass_of(bt))
    for s, t, miss in rows:
        ctx.add("R12", f"{s.func.qualname}::replace-keeps-maintained-columns::{t.split('.')[-1]}", not miss, s.where, "" if not miss else f"INSERT OR REPLACE INTO {t} lists {sqlmini.insert_columns(s.template)} only; {miss} - written by UPDATE statements of the same backend - is reset to NULL whenever the row is registered again: the cron tick that already fired in this window fires once more (the in-memory backend keeps the value)")
    ctx.floor("R12", "replace statements of the trigger backend", len(rows), 4)


def r14(ctx: Context) -> None:
    """An occurrence is evaluated against the status the orchestrator holds, not against a time-limited local copy."""
    ctx.rule("R14", "occurrence contexts carry the orchestrator's status: no method of the trigger component reads the `status` property of an invocation object it was handed (DistributedInvocation.status answers from a cache for `cached_status_time` seconds; a RUNNING read shortly before the body raised makes the FAILED occurrence look RUNNING, its condition is not satisfied and the handler is launched zero times) - report_invocation_result already asks the orchestrator")
    di = ctx.repo.cls("DistributedInvocation")
    st = di.methods.get("status")
    cached = st is not None and st.is_property and "_cached_status" in ast.unparse(st.node)
    ctx.add("R14", "DistributedInvocation.status::is-a-cached-read", bool(cached), st.loc() if st else "", "" if cached else "DistributedInvocation.status no longer answers from a cache: this rule's premise vanished")
    bt = ctx.repo.cls("BaseTrigger")
    n = 0
    for c in [bt] + [x for x in ctx.repo.classes.values() if x is not bt and bt in x.mro()]:
        for f in c.methods.values():
            inv_params = [p for p in f.params[1:] if "invocation" in p and not p.endswith(("_id", "_ids"))]
            ann = {a.arg for a in f.node.args.args + f.node.args.kwonlyargs if a.annotation is not None and "Invocation" in ast.unparse(a.annotation) and "InvocationId" not in ast.unparse(a.annotation) and "InvocationStatus" not in ast.unparse(a.annotation)}
            objs = set(inv_params) | ann
            if not objs:
                continue
            n += 1
            bad = [x for x in walk_no_nested(f.node) if isinstance(x, ast.Attribute) and x.attr == "status" and isinstance(x.value, ast.Name) and x.value.id in objs and isinstance(x.ctx, ast.Load)]
            ctx.add("R14", f"{f.qualname}::status-read-from-the-orchestrator", not bad, f.loc(bad[0]) if bad else f.loc(), "" if not bad else f"`{ast.unparse(bad[0])}` is the invocation object's cached status (up to cached_status_time old): the occurrence is built with the status the object saw earlier, not the one just written")
    ctx.floor("R14", "trigger methods handed an invocation object", n, 2)


def run(ctx: Context) -> None:
    sites = sqlmini.sites(ctx.repo)
    loop = ctx.repo.cls("BaseTrigger").methods.get("trigger_loop_iteration")
    if loop is None:
        raise AnalysisError("anchor-vanished: BaseTrigger.trigger_loop_iteration")
    r1(ctx, loop)
    r2_r3(ctx, sites)
    r4(ctx)
    r5(ctx, sites)
    r6_r7_r8(ctx, loop)
    r9(ctx, loop)
    r10(ctx)
    r11(ctx)
    r12(ctx, sites)
    r14(ctx)
    # R13: the trigger stores themselves (shared with C16/R11, R12): a claim that could not be decided is an error, not a
    # lost race; a reported occurrence is not dropped by a concurrent clean-up
    from . import c16

    ctx.rule("R13", "shared, over the trigger backends: no operation swallows a storage error (a claim that failed to execute is not answered 'lost'; C16/R11); the in-memory store is never rebuilt from an unlocked copy of itself (an occurrence recorded in between would vanish; C16/R12)")
    flt = lambda c: "Trigger" in c.name  # noqa: E731
    for fn in (c16.r11, c16.r12):
        sub = Context("C16", ctx.repo, ctx.tier, ctx.seed)
        sub._resolver = ctx._resolver
        fn(sub, flt)
        for i in sub.instances:
            ctx.add("R13", i.key.split("/", 2)[2], i.ok, i.where, i.detail)
    ctx.floor("R13", "trigger backend methods", ctx.count("R13"), 40)
    ctx.exhaustive = True
    ctx.not_decided += [
        "the cron window / minimum-interval / next-tick arithmetic against a brute-force schedule (numeric over runtime timestamps and croniter)",
        "interleavings of two trigger loops beyond R2/R3 (their necessary conditions)",
        "launch counts over histories beyond R8; claim expiry (60 s) versus how long a valid condition stays pending",
    ]
