"""The declarative status table of ``pynenc/invocation/status.py`` extracted from its AST as data."""

from __future__ import annotations

import ast
from dataclasses import dataclass, field

from .loader import AnalysisError, ClassInfo, ModuleInfo, Repo

FLAGS = ("is_final", "available_for_run", "requires_ownership", "acquires_ownership",
         "releases_ownership", "overrides_ownership")


@dataclass
class StatusModel:
    module: ModuleInfo
    enum_cls: ClassInfo
    members: dict[str, str]  # NAME -> value
    defs: dict[str | None, dict] = field(default_factory=dict)  # NAME|None -> {allowed:set, flags...}
    def_lines: dict[str | None, int] = field(default_factory=dict)
    config_name: str = "_CONFIG"
    def_cls: ClassInfo | None = None
    cfg_cls: ClassInfo | None = None
    record_cls: ClassInfo | None = None

    def edges(self) -> set[tuple[str, str]]:
        return {(k or "START", t) for k, d in self.defs.items() for t in d["allowed_transitions"]}

    def flagged(self, flag: str) -> set[str]:
        return {k for k, d in self.defs.items() if k is not None and d[flag]}

    @property
    def final(self) -> set[str]:
        return self.flagged("is_final")

    @property
    def available(self) -> set[str]:
        return self.flagged("available_for_run")

    @property
    def owned(self) -> set[str]:
        return self.flagged("requires_ownership")

    @property
    def acquiring(self) -> set[str]:
        return self.flagged("acquires_ownership")

    @property
    def releasing(self) -> set[str]:
        return self.flagged("releases_ownership")

    @property
    def overriding(self) -> set[str]:
        return self.flagged("overrides_ownership")

    def preds(self, target: str) -> set[str]:
        return {k or "START" for k, d in self.defs.items() if target in d["allowed_transitions"]}

    def succs(self, source: str | None) -> set[str]:
        return set(self.defs[source]["allowed_transitions"])


def _enum_member(node: ast.AST, enum_name: str) -> str | None:
    if isinstance(node, ast.Attribute) and isinstance(node.value, ast.Name) and node.value.id == enum_name:
        return node.attr
    return None


def _const_set(node: ast.AST, enum_name: str) -> set[str]:
    """frozenset({...}) / frozenset() / {..} of enum members."""
    if isinstance(node, ast.Call) and isinstance(node.func, ast.Name) and node.func.id in ("frozenset", "set"):
        if not node.args:
            return set()
        return _const_set(node.args[0], enum_name)
    if isinstance(node, (ast.Set, ast.List, ast.Tuple)):
        out = set()
        for e in node.elts:
            m = _enum_member(e, enum_name)
            if m is None:
                raise AnalysisError(f"status table: non-constant transition element {ast.unparse(e)}")
            out.add(m)
        return out
    raise AnalysisError(f"status table: unsupported allowed_transitions expression {ast.unparse(node)}")


def extract(repo: Repo) -> StatusModel:
    m = repo.modules.get("pynenc.invocation.status")
    if m is None:
        raise AnalysisError("anchor-vanished: module pynenc.invocation.status")
    enum_cls = None
    for c in m.classes.values():
        if any(b.endswith("StrEnum") or b.endswith("Enum") for b in c.base_exprs) and "PENDING" in c.class_attrs:
            enum_cls = c
    if enum_cls is None:
        raise AnalysisError("anchor-vanished: status enum")
    members = {}
    for k, v in enum_cls.class_attrs.items():
        if isinstance(v, ast.Constant) and isinstance(v.value, str):
            members[k] = v.value
    # the definitions table: module-level assignment whose value is Call(..., definitions={...})
    table = None
    cfg_name = None
    cfg_cls = None
    for st in m.tree.body:
        val = None
        tgt = None
        if isinstance(st, ast.Assign) and len(st.targets) == 1 and isinstance(st.targets[0], ast.Name):
            val, tgt = st.value, st.targets[0].id
        elif isinstance(st, ast.AnnAssign) and isinstance(st.target, ast.Name):
            val, tgt = st.value, st.target.id
        if isinstance(val, ast.Call):
            for kw in val.keywords:
                if kw.arg == "definitions" and isinstance(kw.value, ast.Dict):
                    table, cfg_name = kw.value, tgt
                    cfg_cls = m.classes.get(ast.unparse(val.func))
            if table is None and val.args and isinstance(val.args[0], ast.Dict) and any(
                _enum_member(k, enum_cls.name) for k in val.args[0].keys if k is not None
            ):
                table, cfg_name = val.args[0], tgt
                cfg_cls = m.classes.get(ast.unparse(val.func))
    if table is None:
        raise AnalysisError("anchor-vanished: status definitions table")
    sm = StatusModel(m, enum_cls, members, config_name=cfg_name or "_CONFIG", cfg_cls=cfg_cls)
    def_cls = None
    for k, v in zip(table.keys, table.values):
        if k is None:
            raise AnalysisError("status table: ** expansion not supported")
        if isinstance(k, ast.Constant) and k.value is None:
            name = None
        else:
            name = _enum_member(k, enum_cls.name)
            if name is None:
                raise AnalysisError(f"status table: unsupported key {ast.unparse(k)}")
        if not isinstance(v, ast.Call):
            raise AnalysisError(f"status table: unsupported value for {name}")
        if def_cls is None:
            def_cls = m.classes.get(ast.unparse(v.func))
        # defaults from the dataclass
        d: dict = {"allowed_transitions": set()}
        for fl in FLAGS:
            dv = def_cls.class_attrs.get(fl) if def_cls else None
            d[fl] = bool(dv.value) if isinstance(dv, ast.Constant) else False
        if v.args:
            raise AnalysisError("status table: positional arguments not supported")
        for kw in v.keywords:
            if kw.arg == "allowed_transitions":
                d["allowed_transitions"] = _const_set(kw.value, enum_cls.name)
            elif kw.arg in FLAGS:
                if not isinstance(kw.value, ast.Constant) or not isinstance(kw.value.value, bool):
                    raise AnalysisError(f"status table: non-constant flag {kw.arg} for {name}")
                d[kw.arg] = kw.value.value
            else:
                raise AnalysisError(f"status table: unknown field {kw.arg}")
        if name in sm.defs:
            # later duplicate key wins in a dict display
            pass
        sm.defs[name] = d
        sm.def_lines[name] = v.lineno
    sm.def_cls = def_cls
    for c in m.classes.values():
        if "status" in c.class_annots and "runner_id" in c.class_annots and "timestamp" in c.class_annots:
            sm.record_cls = c
    missing = set(members) - {k for k in sm.defs if k}
    if missing:
        raise AnalysisError(f"status table has no definition for {sorted(missing)} (module would not import)")
    return sm
