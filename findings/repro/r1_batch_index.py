# C06/R1: batch path never indexes arguments -> running concurrency ARGUMENTS blind
import t_tasks as T
from pynenc.invocation.status import InvocationStatus as S
from pynenc import context
app=T.app
grp = T.excl.parallelize([(1,),(1,)])          # two identical calls through the batch path
invs = grp.invocations
print("route path used batch:", type(invs[0]).__name__, len(invs))
rc = context.get_or_create_runner_context(app.app_id)
got = list(app.orchestrator.get_invocations_to_run(5, rc))
print("claimed:", len(got))
for i in got:
    print(" authorised to run?", app.orchestrator.is_authorize_to_run_by_concurrency_control(i))
    app.orchestrator.set_invocation_status(i.invocation_id, S.RUNNING, rc)
running = [i for i in invs if app.orchestrator.get_invocation_status(i.invocation_id)==S.RUNNING]
print("RUNNING with same key:", len(running))
# contrast: single-call path
app.purge()
a = T.excl(1); b = T.excl(1)
got = list(app.orchestrator.get_invocations_to_run(5, rc))
print("single-call path claimed:", len(got), "statuses:", [app.orchestrator.get_invocation_status(x.invocation_id).name for x in (a,b)])
