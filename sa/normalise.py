"""Semantics-preserving canonicalisation of the parsed sources, applied by the loader before any rule.

The rules describe code by shape; harmless stylistic variants of one shape are mapped to a single
representative here, once, instead of teaching every rule every variant:

N1  `x = <expr>` immediately followed by `return x`, where x is read nowhere else in the function,
    becomes `return <expr>` (the statement keeps the position of the assignment).

    The same temporary may serve several returns when each of its reads is such a return.
N2  a `try` whose handlers do nothing but re-raise (`except ...: raise`, optionally after calls on a
    logger) and which has no `else` is replaced by its body (a `finally`, if any, is kept).

N3  inside functions `x: T = v` (plain name) becomes `x = v`; the annotation is kept on the node
    (`sa_annotation`) for the type resolver.

N4  calls of functions / methods whose every definition in the analysed packages has the same
    positional parameter list: keyword arguments that continue the positional prefix in order
    become positional (`f(a, y=b)` -> `f(a, b)` for `def f(x, y)`); rules then read arguments by
    position.

Every rewrite is local, keeps evaluation order, and leaves line numbers of the surviving nodes
untouched.  (Found necessary by the `--retvar` false-alarm probe of tools/refactor_twin.py.)
"""

from __future__ import annotations

import ast


def _loads(fn: ast.AST, name: str) -> int:
    return sum(1 for n in ast.walk(fn) if isinstance(n, ast.Name) and n.id == name and isinstance(n.ctx, ast.Load))


def _stores(fn: ast.AST, name: str) -> int:
    return sum(1 for n in ast.walk(fn) if isinstance(n, ast.Name) and n.id == name and isinstance(n.ctx, (ast.Store, ast.Del)))


class _N1(ast.NodeTransformer):
    def __init__(self) -> None:
        self.fn: list[ast.AST] = []
        self.count = 0
        self._memo: dict = {}

    def visit_FunctionDef(self, node):
        self.fn.append(node)
        self.generic_visit(node)
        self.fn.pop()
        return node

    visit_AsyncFunctionDef = visit_FunctionDef

    def _only_return_temp(self, name: str) -> bool:
        """every store of the name is `name = expr` directly followed by `return name`, and those returns are its only reads"""
        fn = self.fn[-1]
        key = (id(fn), name)
        if key in self._memo:
            return self._memo[key]
        pairs = 0
        for node in ast.walk(fn):
            for fld in ("body", "orelse", "finalbody"):
                v = getattr(node, fld, None)
                if isinstance(v, list):
                    for a, b in zip(v, v[1:]):
                        if isinstance(a, ast.Assign) and len(a.targets) == 1 and isinstance(a.targets[0], ast.Name) and a.targets[0].id == name and isinstance(b, ast.Return) and isinstance(b.value, ast.Name) and b.value.id == name:
                            pairs += 1
        ok = pairs > 0 and _loads(fn, name) == pairs and _stores(fn, name) == pairs
        self._memo[key] = ok
        return ok

    def _fix(self, body: list[ast.stmt]) -> list[ast.stmt]:
        if not self.fn:
            return body
        out: list[ast.stmt] = []
        i = 0
        while i < len(body):
            s = body[i]
            nxt = body[i + 1] if i + 1 < len(body) else None
            if (
                isinstance(s, ast.Assign)
                and len(s.targets) == 1
                and isinstance(s.targets[0], ast.Name)
                and isinstance(nxt, ast.Return)
                and isinstance(nxt.value, ast.Name)
                and nxt.value.id == s.targets[0].id
                and self._only_return_temp(s.targets[0].id)
                and not any(isinstance(g, (ast.Global, ast.Nonlocal)) and s.targets[0].id in g.names for g in ast.walk(self.fn[-1]))
            ):
                r = ast.Return(value=s.value)
                ast.copy_location(r, s)
                r.end_lineno = getattr(nxt, "end_lineno", getattr(s, "end_lineno", None))
                out.append(r)
                self.count += 1
                i += 2
                continue
            out.append(s)
            i += 1
        return out

    def generic_visit(self, node):
        super().generic_visit(node)
        for fld in ("body", "orelse", "finalbody"):
            v = getattr(node, fld, None)
            if isinstance(v, list) and v and isinstance(v[0], ast.stmt):
                setattr(node, fld, self._fix(v))
        return node


def _is_log_call(st: ast.stmt) -> bool:
    if not (isinstance(st, ast.Expr) and isinstance(st.value, ast.Call)):
        return False
    f = st.value.func
    parts = []
    while isinstance(f, (ast.Attribute, ast.Call)):
        if isinstance(f, ast.Attribute):
            parts.append(f.attr)
            f = f.value
        else:
            f = f.func
    if isinstance(f, ast.Name):
        parts.append(f.id)
    return any(p in ("logger", "logging", "log", "warnings") or p.endswith("_logger") for p in parts)


class _N2(ast.NodeTransformer):
    def __init__(self) -> None:
        self.count = 0

    @staticmethod
    def _reraise_only(h: ast.ExceptHandler) -> bool:
        if not h.body or not (isinstance(h.body[-1], ast.Raise) and h.body[-1].exc is None):
            return False
        return all(_is_log_call(s) for s in h.body[:-1])

    def _fix(self, body: list[ast.stmt]) -> list[ast.stmt]:
        out: list[ast.stmt] = []
        for s in body:
            if isinstance(s, ast.Try) and s.handlers and not s.orelse and all(self._reraise_only(h) for h in s.handlers):
                self.count += 1
                if s.finalbody:
                    s.handlers = []
                    out.append(s)
                else:
                    out.extend(s.body)
            else:
                out.append(s)
        return out

    def generic_visit(self, node):
        super().generic_visit(node)
        for fld in ("body", "orelse", "finalbody"):
            v = getattr(node, fld, None)
            if isinstance(v, list) and v and isinstance(v[0], ast.stmt):
                setattr(node, fld, self._fix(v))
        return node


class _N3(ast.NodeTransformer):
    def __init__(self) -> None:
        self.depth = 0
        self.count = 0

    def visit_FunctionDef(self, node):
        self.depth += 1
        self.generic_visit(node)
        self.depth -= 1
        return node

    visit_AsyncFunctionDef = visit_FunctionDef

    def visit_ClassDef(self, node):
        saved, self.depth = self.depth, 0
        self.generic_visit(node)
        self.depth = saved
        return node

    def visit_AnnAssign(self, node):
        if self.depth and isinstance(node.target, ast.Name) and node.value is not None:
            a = ast.Assign(targets=[node.target], value=node.value, type_comment=None)
            ast.copy_location(a, node)
            a.sa_annotation = node.annotation  # type: ignore[attr-defined]
            self.count += 1
            return a
        return node


def collect_signatures(trees: list[ast.Module]) -> dict[str, list[str] | None]:
    """name -> positional parameter names (without self / cls) when EVERY definition of that name agrees, else None"""
    sigs: dict[str, list[str] | None] = {}
    for tree in trees:
        for n in ast.walk(tree):
            if isinstance(n, (ast.FunctionDef, ast.AsyncFunctionDef)):
                a = n.args
                names = [x.arg for x in a.posonlyargs + a.args]
                if names and names[0] in ("self", "cls"):
                    names = names[1:]
                val: list[str] | None = names if not a.vararg and not a.posonlyargs else None
                if n.name in sigs and sigs[n.name] != val:
                    sigs[n.name] = None
                elif n.name not in sigs:
                    sigs[n.name] = val
    return sigs


class _N4(ast.NodeTransformer):
    def __init__(self, sigs) -> None:
        self.sigs = sigs
        self.count = 0

    def visit_Call(self, node):
        self.generic_visit(node)
        nm = node.func.attr if isinstance(node.func, ast.Attribute) else node.func.id if isinstance(node.func, ast.Name) else None
        if nm is None or nm[:1].isupper() or nm.startswith("__") or self.sigs.get(nm) is None:
            return node
        if any(isinstance(a, ast.Starred) for a in node.args) or any(k.arg is None for k in node.keywords):
            return node
        params = self.sigs[nm]
        kws = {k.arg: k for k in node.keywords}
        i = len(node.args)
        while i < len(params) and params[i] in kws:
            node.args.append(kws[params[i]].value)
            node.keywords.remove(kws[params[i]])
            i += 1
            self.count += 1
        return node


def normalise(tree: ast.Module, sigs: dict | None = None) -> tuple[ast.Module, dict[str, int]]:
    n4 = 0
    if sigs:
        t4 = _N4(sigs)
        tree = t4.visit(tree)
        n4 = t4.count
    t3 = _N3()
    tree = t3.visit(tree)
    t2 = _N2()
    tree = t2.visit(tree)
    t = _N1()
    tree = t.visit(tree)
    return tree, {"N1": t.count, "N2": t2.count, "N3": t3.count, "N4": n4}
