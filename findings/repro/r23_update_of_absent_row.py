# C16/R5 (unknown-key): two writers that CREATE an entry in memory are UPDATE-only in SQLite, so for a key without row
# the SQLite call is a silent no-op:
#  (a) record_atomic_service_execution(<runner without heartbeat row>): the in-memory orchestrator keeps the window and
#      shows it once the runner registers; SQLite forgot it.
#  (b) store_last_cron_execution(<condition id without row>, t, expected=None): both answer True ("you won the swap"),
#      the in-memory store then refuses the next swap from None, SQLite answers True again and again - every poll of
#      the window would fire (the row is missing when another process purged the store after this runner registered).
# Documentation only.
import logging, sys
logging.disable(logging.CRITICAL)
from datetime import UTC, datetime, timedelta
import t_r11

out = {}
for kind in ("mem", "sqlite"):
    app = t_r11.app_mem if kind == "mem" else t_r11.app_sql
    app.purge()
    orch, trig = app.orchestrator, app.trigger
    t0 = datetime(2026, 1, 1, 12, 0, tzinfo=UTC)
    orch.record_atomic_service_execution("runner-x", t0, t0 + timedelta(seconds=1))
    orch.register_runner_heartbeats(["runner-x"])
    infos = [r for r in orch._get_active_runners(600, None) if r.runner_id == "runner-x"]
    seen = infos[0].last_service_start is not None if infos else None
    first = trig.store_last_cron_execution("cond-without-row", t0, expected_last_execution=None)
    second = trig.store_last_cron_execution("cond-without-row", t0 + timedelta(minutes=1), expected_last_execution=None)
    out[kind] = {"service window visible after first heartbeat": seen, "swap from None won": (first, second)}
print(out)
sys.exit(0 if out["mem"] == out["sqlite"] else 1)
