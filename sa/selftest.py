"""Mutation self-test of the checkers (thorough tier).

For each rule a few single edits are applied to a scratch copy of the analysed packages (in a
temporary directory outside /repo and /verif, removed afterwards) and the same check is run on the
copy.  A mutant is *detected* when the check reports a failing instance whose key was not failing
on the unmodified tree (or when it can no longer analyse: counted separately).  An unedited twin
copy must produce no new key.  Misses are printed as SELFTEST-MISS and recorded in the evidence;
they never change the verdict about /repo.  Sixteen behaviour-preserving twins (unedited, re-printed
with ast.unparse, locals renamed, arms of every two-armed `if` swapped, a debug log call added to
every function and with-block, every function / loop body wrapped in try-except-reraise, every
returned expression bound to a temporary first, else-after-return introduced, component receivers
bound to locals, plain local assignments annotated, positional arguments turned into keywords and back, every parameter renamed, every method body moved behind a delegating stub, SQL text hoisted into a local, trailing ifs turned into guard clauses) must each give exactly the verdict of the original tree.
"""

from __future__ import annotations

import importlib
import os
import shutil
import tempfile
from concurrent.futures import ProcessPoolExecutor
from pathlib import Path

from .loader import AnalysisError, Repo
from .report import Context

COPY = ("pynenc", "pynmon")
TWIN_MODES = ("flip", "log", "try", "retvar", "elseret", "recv", "annot", "kw", "pos", "params", "delegate", "sqlvar", "guard")
TWINS = ("twin-unedited", "twin-unparse", "twin-rename") + tuple(f"twin-{m}" for m in TWIN_MODES)
DOCS = ("docs/_static/invocation_state_machine.svg", "docs/usage_guide/invocation_status.md")


def _copy_tree(src_root: Path, dst_root: Path) -> None:
    for d in COPY:
        shutil.copytree(src_root / d, dst_root / d, ignore=shutil.ignore_patterns("__pycache__", "*.pyc"))
    for f in DOCS:
        (dst_root / f).parent.mkdir(parents=True, exist_ok=True)
        if (src_root / f).exists():
            shutil.copy2(src_root / f, dst_root / f)


def _failing_keys(prop: str, root: Path, tier: str = "quick") -> tuple[set[str], str | None]:
    mod = importlib.import_module(f"sa.checks.{prop.lower()}")
    try:
        repo = Repo(root)
        ctx = Context(prop, repo, tier, 0)
        mod.run(ctx)
        keys = {i.key for i in ctx.instances if not i.ok}
        return keys, (("analysis-error: " + "; ".join(ctx.floor_failures)) if ctx.floor_failures else None)
    except AnalysisError as e:
        return set(), f"analysis-error: {e}"
    except Exception as e:  # pragma: no cover
        return set(), f"internal-error: {type(e).__name__}: {e}"


def _run_one(args) -> dict:
    prop, src_root, name, edits, baseline, tier = args
    tmp = Path(tempfile.mkdtemp(prefix=f"sa-mut-{prop}-"))
    try:
        _copy_tree(Path(src_root), tmp)
        if name.startswith("twin-") and name != "twin-unedited":
            from .twin import rewrite_tree

            rewrite_tree(tmp, rename=(name == "twin-rename"), mode=name[5:] if name[5:] in TWIN_MODES else "")
            keys, err = _failing_keys(prop, tmp, tier)
            new = sorted(keys - set(baseline))
            gone = sorted(set(baseline) - keys)
            return {"mutant": name, "status": "missed" if not new and not gone and not err else "noisy", "new_keys": new[:4], "gone_keys": gone[:4], "detail": err or ""}
        applicable = True
        if isinstance(edits, str):
            # a seeded change kept under /verif/seeded/<id>/patch.diff (written by an independent agent)
            import subprocess

            rev = edits.startswith("-R:")
            r = subprocess.run(["git", "apply", "--whitespace=nowarn"] + (["-R", edits[3:]] if rev else [edits]), cwd=tmp, capture_output=True, text=True)
            if r.returncode != 0:
                return {"mutant": name, "status": "not-applicable", "new_keys": [], "detail": r.stderr[:200]}
            edits = []
        for rel, old, new in edits:
            p = tmp / rel
            if not p.exists():
                applicable = False
                break
            s = p.read_text()
            if s.count(old) != 1:
                applicable = False
                break
            p.write_text(s.replace(old, new))
        if not applicable:
            return {"mutant": name, "status": "not-applicable", "new_keys": []}
        # the mutant must still be valid Python
        import ast as _ast

        for rel, _, _ in edits:
            if rel.endswith(".py"):
                try:
                    _ast.parse((tmp / rel).read_text())
                except SyntaxError:
                    return {"mutant": name, "status": "invalid-mutant", "new_keys": []}
        keys, err = _failing_keys(prop, tmp, tier)
        new = sorted(keys - set(baseline))
        if err and not new:
            return {"mutant": name, "status": "analysis-error", "detail": err, "new_keys": []}
        return {"mutant": name, "status": "detected" if new else "missed", "new_keys": new[:4]}
    finally:
        shutil.rmtree(tmp, ignore_errors=True)


def run_selftest(ctx: Context, mod) -> None:
    from .mutants import MUTANTS

    muts = MUTANTS.get(ctx.prop, [])
    baseline = sorted({i.key for i in ctx.instances if not i.ok})
    jobs = [(ctx.prop, str(ctx.repo.root), tw, [], baseline, ctx.tier) for tw in TWINS]
    for name, edits in muts:
        jobs.append((ctx.prop, str(ctx.repo.root), name, edits, baseline, ctx.tier))
    # seeded changes (independent agents, confirmed by a demonstration): those recorded as caught by this property
    import json as _json

    seeded_dir = Path(__file__).resolve().parent.parent / "seeded"
    for d in sorted(seeded_dir.iterdir()) if seeded_dir.exists() else []:
        meta_p, patch_p = d / "meta.json", d / "patch.diff"
        if not (meta_p.exists() and patch_p.exists()):
            continue
        try:
            meta = _json.loads(meta_p.read_text())
        except ValueError:
            continue
        if ctx.prop in meta.get("caught_by", []):
            jobs.append((ctx.prop, str(ctx.repo.root), f"seeded:{d.name}", str(patch_p), baseline, ctx.tier))
    # every repaired defect, un-repaired: the reverse of each `fix:` commit recorded for this property must be reported again
    fixes_dir = Path(__file__).resolve().parent.parent / "fixes"
    for d in sorted(fixes_dir.glob(f"{ctx.prop}-*.diff")) if fixes_dir.exists() else []:
        jobs.append((ctx.prop, str(ctx.repo.root), f"revert-fix:{d.stem.split('-', 1)[1]}", "-R:" + str(d), baseline, ctx.tier))
    workers = min(16, max(1, len(jobs)))
    with ProcessPoolExecutor(max_workers=workers) as ex:
        results = list(ex.map(_run_one, jobs))
    twins = results[: len(TWINS)]
    results = [results[0]] + results[len(TWINS):]
    twin = results[0]
    twin_ok = all(t["status"] == "missed" for t in twins)  # no key changes on unedited / re-printed / renamed copies
    for t in twins:
        if t["status"] != "missed":
            print(f"SELFTEST-TWIN-NOISY property={ctx.prop} {t['mutant']}: new={t.get('new_keys')} gone={t.get('gone_keys')} {t.get('detail', '')}")
    det = [r for r in results[1:] if r["status"] == "detected"]
    miss = [r for r in results[1:] if r["status"] == "missed"]
    aerr = [r for r in results[1:] if r["status"] == "analysis-error"]
    na = [r for r in results[1:] if r["status"] in ("not-applicable", "invalid-mutant")]
    for r in miss:
        print(f"SELFTEST-MISS property={ctx.prop} mutant={r['mutant']}")
    for r in aerr:
        print(f"SELFTEST-ANALYSIS-ERROR property={ctx.prop} mutant={r['mutant']} {r.get('detail', '')[:120]}")
    if not twin_ok:
        print(f"SELFTEST-TWIN-NOISY property={ctx.prop} new keys on an unedited copy: {twin['new_keys']} {twin.get('detail', '')}")
    print(f"selftest {ctx.prop}: {len(det)}/{len(results) - 1 - len(na)} mutants detected, {len(miss)} missed, {len(aerr)} analysis-error, {len(na)} not applicable, twin silent={twin_ok}")
    ctx.extra["selftest"] = {
        "mutants": len(results) - 1,
        "detected": len(det),
        "missed": [r["mutant"] for r in miss],
        "analysis_error": [r["mutant"] for r in aerr],
        "not_applicable": [r["mutant"] for r in na],
        "twin_silent": twin_ok,
        "twins": [{"twin": t["mutant"], "identical_verdict": t["status"] == "missed"} for t in twins],
        "detail": [{k: v for k, v in r.items()} for r in results],
    }
