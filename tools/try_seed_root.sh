#!/bin/bash
# usage: try_seed_root.sh <dir with patch.diff> <worktree>   - like try_seed.sh, but analyses the WORKTREE (sa.run --root), /repo untouched
D=$1; WT=$2
set -u
cd /verif
git -C $WT checkout -q -- . ; git -C $WT apply $D/patch.diff || { echo "PATCH DOES NOT APPLY"; exit 3; }
for p in C01 C02 C03 C04 C05 C06 C07 C08 C09 C10 C11 C12 C13 C14 C15 C16 C17 C18 C19 C20; do
  out=$(SA_NO_EVIDENCE=1 /venv/bin/python -m sa.run $p --tier quick --root $WT 2>&1); rc=$?
  if [ $rc -ne 0 ]; then echo "== $p exit=$rc"; echo "$out" | grep -E "^  at |ANALYSIS-ERROR" | cut -c1-260 | head -6; fi
done
git -C $WT checkout -q -- .
