"""Regenerates /verif/MANIFEST.json from the check modules present in sa/checks.

Each check module may define TECHNIQUE, LEVEL_TEXT, LEVEL_NOTE, DESIGN_REF.  Properties
without a module are listed under not_applicable with the reason given in NOT_APPLICABLE /
PENDING below.
"""

from __future__ import annotations

import importlib
import json
from pathlib import Path

VERIF = Path(__file__).resolve().parent.parent
PY = "/venv/bin/python"

NOT_APPLICABLE: dict[str, str] = {}

BASELINE = (
    "cd /repo && /venv/bin/python -m pytest -ra -q -p no:cacheprovider --timeout=900 "
    "--continue-on-collection-errors"
)


def main() -> None:
    props = [json.loads(l)["id"] for l in (VERIF / "properties.jsonl").read_text().splitlines() if l.strip()]
    checks = []
    na = []
    for pid in props:
        if pid in NOT_APPLICABLE:
            na.append({"property_id": pid, "reason": NOT_APPLICABLE[pid]})
            continue
        modpath = VERIF / "sa" / "checks" / f"{pid.lower()}.py"
        if not modpath.exists():
            na.append({"property_id": pid, "reason": "not claimed yet: its static check is still under construction (see DESIGN.md section 4 for the planned rules)"})
            continue
        mod = importlib.import_module(f"sa.checks.{pid.lower()}")
        checks.append(
            {
                "property_id": pid,
                "quick_cmd": f"{PY} -m sa.run {pid} --tier quick",
                "thorough_cmd": f"{PY} -m sa.run {pid} --tier thorough",
                "evidence_file": f"/verif/evidence/{pid}.json",
                "replay_cmd_template": f"{PY} -m sa.run {pid} --explain {{path}}",
                "engine": "sa",
                "level_claimed": {
                    "category": "other",
                    "text": getattr(mod, "LEVEL_TEXT", (mod.__doc__ or "").strip().split("\n\n")[0]),
                    "design_ref": getattr(mod, "DESIGN_REF", f"DESIGN.md section 4, {pid}"),
                },
                "level_note": getattr(
                    mod,
                    "LEVEL_NOTE",
                    "Decides structural necessary conditions from the source text only; trusted base: Python's ast parser, the checker's own CFG / resolver, and the semantics of threading.Lock and SQLite transactions.",
                ),
                "technique": getattr(mod, "TECHNIQUE", "static analysis: repository-specific AST / CFG rules"),
            }
        )
    manifest = {
        "version": 1,
        "setup_cmd": f"{PY} -m sa.setup",
        "hooks": {
            "guard": "PYNENC_VERIF",
            "enable": "none needed: the checks parse /repo's working tree, no hook or instrumentation exists in the sources",
            "baseline_off_cmd": BASELINE,
            "source_commits": [],
            "add_only": True,
        },
        "engines": [
            {
                "name": "sa",
                "path": "/verif/sa",
                "serves_properties": [c["property_id"] for c in checks],
                "kind_free_text": "pure-stdlib static analyser written for this repository: module index + annotation-driven call resolution, statement CFG with exception edges and dominators, SQL-template parser, status-table extraction, finite-domain evaluation of the pure status functions, effect / typestate / taint rules per property",
            }
        ],
        "checks": checks,
        "not_applicable": na,
        "notes": "Exit 0 = all rule instances hold or are listed in known_findings.json (KNOWN-FINDING lines); exit 1 = VIOLATION lines; exit 2 = ANALYSIS-ERROR (fail closed). Technique family: static analysis only - nothing under /repo is imported or executed by a check.",
    }
    (VERIF / "MANIFEST.json").write_text(json.dumps(manifest, indent=1) + "\n")
    print(f"MANIFEST.json: {len(checks)} checks, {len(na)} not_applicable")


if __name__ == "__main__":
    main()
