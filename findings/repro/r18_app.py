"""App + task for r18 (kept importable so spawned workers can load it)."""
import os

from pynenc import PynencBuilder

NEVER = "0 0 1 1 *"
app = (
    PynencBuilder()
    .app_id("r18")
    .sqlite(os.environ["R18_DB"])
    .persistent_process_runner(num_processes=2)
    .runner_tuning(runner_loop_sleep_time_sec=0.05)
    .custom_config(recover_pending_invocations_cron=NEVER, recover_running_invocations_cron=NEVER, logging_level="error")
    .build()
)


@app.task
def echo(tag: str) -> str:
    return tag
