from pynenc import PynencBuilder
app = PynencBuilder().memory().app_id("triage_wf").build()
seen = []
@app.task
def wf_task(tag: str) -> list:
    vals = [wf_task.wf.random(), wf_task.wf.random(), wf_task.wf.uuid()]
    seen.append((tag, str(wf_task.invocation.workflow.workflow_id)[:8], str(wf_task.wf.deterministic.workflow_identity.workflow_id)[:8], vals))
    return vals
