"""Behaviour-preserving rewrites used as false-alarm probes: re-print with ast.unparse and rename locals."""

from __future__ import annotations

import ast
import builtins
from pathlib import Path


class Renamer(ast.NodeTransformer):
    """Renames function-local variables (not parameters, globals, nonlocals, attributes)."""

    def __init__(self) -> None:
        self.stack: list[set[str]] = []

    def _locals_of(self, fn: ast.AST) -> set[str]:
        params = {a.arg for a in ast.walk(fn.args) if isinstance(a, ast.arg)}  # type: ignore[attr-defined]
        assigned: set[str] = set()
        declared: set[str] = set()
        for n in ast.walk(fn):
            if isinstance(n, (ast.Global, ast.Nonlocal)):
                declared |= set(n.names)
        def visit(node, top=True):
            for ch in ast.iter_child_nodes(node):
                if isinstance(ch, (ast.FunctionDef, ast.AsyncFunctionDef, ast.ClassDef, ast.Lambda)):
                    if isinstance(ch, (ast.FunctionDef, ast.AsyncFunctionDef, ast.ClassDef)):
                        pass  # nested def names are left alone
                    continue
                if isinstance(ch, ast.Name) and isinstance(ch.ctx, (ast.Store, ast.Del)):
                    assigned.add(ch.id)
                if isinstance(ch, ast.ExceptHandler) and ch.name:
                    pass  # handler names are kept (simple)
                visit(ch, False)
        visit(fn)
        # names also used inside nested functions/lambdas/comprehension scopes stay (closure safety)
        nested_used: set[str] = set()
        for n in ast.walk(fn):
            if n is not fn and isinstance(n, (ast.FunctionDef, ast.AsyncFunctionDef, ast.Lambda, ast.ClassDef)):
                for m in ast.walk(n):
                    if isinstance(m, ast.Name):
                        nested_used.add(m.id)
        handler_names = {h.name for h in ast.walk(fn) if isinstance(h, ast.ExceptHandler) and h.name}
        return {x for x in assigned - params - declared - nested_used - handler_names if not hasattr(builtins, x) and not x.startswith("__")}

    def visit_FunctionDef(self, node):
        loc = self._locals_of(node)
        self.stack.append(loc)
        node.body = [self.visit(s) for s in node.body]
        self.stack.pop()
        return node

    visit_AsyncFunctionDef = visit_FunctionDef

    def visit_Lambda(self, node):
        return node

    def visit_ClassDef(self, node):
        saved, self.stack = self.stack, []
        node.body = [self.visit(s) for s in node.body]
        self.stack = saved
        return node

    def visit_Name(self, node):
        if self.stack and node.id in self.stack[-1]:
            node.id = node.id + "_rn"
        return node


def rewrite_tree(root: Path, rename: bool) -> int:
    n = 0
    for f in list(root.rglob("*.py")):
        tree = ast.parse(f.read_text())
        if rename:
            tree = Renamer().visit(tree)
            ast.fix_missing_locations(tree)
        f.write_text(ast.unparse(tree) + "\n")
        n += 1
    return n
