"""C16 - in-memory and SQLite backends are observationally equivalent.

Only the sibling-agreement slice is decided, per abstract method of the component base classes:

R1 interface: same parameters and defaults as the base declaration
R2 raised exception types: the classes a method can raise (explicit raise; KeyError from an unguarded
   store subscript on the in-memory side) agree between the two implementations
R3 boundary operators and ordering keys of the paired time/threshold comparisons and sorts
R4 purge coverage: every store attribute initialised in __init__ is cleared by purge (mem);
   sqlite purge deletes by the component prefix and re-creates
R5 idempotence / conflict policy of paired inserts (insert-if-absent vs overwrite; unknown ids)
"""

from __future__ import annotations

import ast
import re
import json

from .. import sqlmini
from ..flow import call_name, calls_in, mem_store_writes, names_in, parent_map, self_attr
from ..loader import AnalysisError, ClassInfo, FuncInfo, walk_no_nested
from ..report import VERIF, Context

PROPERTY = "C16"
TECHNIQUE = "static analysis: sibling cross-checking of the two implementations of every abstract method (signatures, may-raise sets, normalised comparison operators and sort keys, purge coverage, conflict clauses)"

BASES = ["BaseOrchestrator", "BaseBlockingControl", "BaseBroker", "BaseStateBackend", "BaseTrigger", "BaseClientDataStore"]

# differences that cannot be observed through the public API (one line of reason each)
NOT_OBSERVABLE = {
    "purge-coverage::MemOrchestrator::runner_atomic_service_eligible": "only read for runner ids present in runner_last_heartbeat, which purge clears; entries are overwritten at the next heartbeat",
    "purge-coverage::MemOrchestrator::locks": "synchronisation objects (cleared anyway)",
    "purge-coverage::MemOrchestrator::_blocking_control": "rebound to None: the lazily built sub-component is rebuilt empty",
    "purge-coverage::MemBlockingControl::*": "the whole object is dropped by MemOrchestrator.purge",
    "purge-coverage::MemTrigger::_registered_conditions": "process-local registry, reset by BaseTrigger.reload_task_conditions right after _purge",
    "purge-coverage::MemTrigger::_last_cron_execution_cache": "cleared by BaseTrigger.reload_task_conditions right after _purge",
    "purge-coverage::MemTrigger::_running": "loop flag",
    "purge-coverage::MemStateBackend::invocation_threads": "handles of finished writer threads",
    "purge-coverage::MemStateBackend::_runner_context_cache": "read-through cache of _runner_contexts (see the finding on _runner_contexts)",
    "purge-coverage::MemClientDataStore::_deserialized_cache": "cleared by BaseClientDataStore.purge before _purge",
}


def pairs(ctx: Context) -> list[tuple[ClassInfo, str, FuncInfo, FuncInfo, FuncInfo]]:
    """(base, method name, base decl, mem impl, sqlite impl) for every abstract method"""
    out = []
    repo = ctx.repo
    for b in BASES:
        base = repo.cls(b)
        subs = base.all_subclasses()
        mem = [c for c in subs if c.name.startswith("Mem")]
        sq = [c for c in subs if c.name.startswith("SQLite")]
        if len(mem) != 1 or len(sq) != 1:
            raise AnalysisError(f"anchor-vanished: implementations of {b}: mem={[c.name for c in mem]} sqlite={[c.name for c in sq]}")
        for name, decl in base.methods.items():
            if not decl.is_abstract:
                continue
            a, s = mem[0].find_method(name), sq[0].find_method(name)
            if a is None or s is None or a.is_abstract or s.is_abstract:
                ctx.fail("R1", f"{b}.{name}::implemented-by-both", decl.loc(), f"mem: {a is not None and not a.is_abstract}, sqlite: {s is not None and not s.is_abstract}")
                continue
            out.append((base, name, decl, a, s))
    return out


def sig(f: FuncInfo) -> list[tuple[str, str]]:
    a = f.node.args
    ps = a.posonlyargs + a.args
    ds = [None] * (len(ps) - len(a.defaults)) + list(a.defaults)
    out = [(p.arg, ast.unparse(d) if d is not None else "<required>") for p, d in zip(ps, ds)]
    for p, d in zip(a.kwonlyargs, a.kw_defaults):
        out.append(("*" + p.arg, ast.unparse(d) if d is not None else "<required>"))
    if a.vararg:
        out.append(("*" + a.vararg.arg, ""))
    if a.kwarg:
        out.append(("**" + a.kwarg.arg, ""))
    return out


def r1(ctx: Context, prs) -> None:
    ctx.rule("R1", "every implementation has the parameters (names, order) of the base declaration and the same default for a parameter whenever the base declares one (a differing default is visible to callers that omit it)")
    for base, name, decl, a, s in prs:
        want = sig(decl)
        for impl in (a, s):
            got = sig(impl)
            names_ok = [p for p, _ in got][: len(want)] == [p for p, _ in want] and all(d != "<required>" for _, d in got[len(want):])
            bad = []
            if names_ok:
                for (p, dw), (_, dg) in zip(want, got):
                    if dw != "<required>" and dw != dg:
                        bad.append(f"{p}: base default {dw}, implementation {dg}")
            ok = names_ok and not bad
            ctx.add("R1", f"{impl.qualname}::signature", ok, impl.loc(), "" if ok else (f"parameters {[p for p, _ in got]} vs base {[p for p, _ in want]}" if not names_ok else "; ".join(bad)))
    ctx.floor("R1", "abstract method pairs", len(prs), 70)


def raise_set(repo, f: FuncInfo, depth: int = 0) -> set[str]:
    """Exact, shallow may-raise set for the 'missing key' behaviour of one implementation:
    explicit `raise <Class>` statements of the method body itself, plus KeyError for an unguarded
    subscript LOAD of a store dict keyed directly by a PARAMETER of the method (a caller-supplied
    key).  Helpers and subscripts keyed by values read from the stores are deliberately not followed:
    whether those can fail depends on store invariants, and an armed rule must be exact."""
    out: set[str] = set()
    for n in walk_no_nested(f.node):
        if isinstance(n, ast.Raise) and n.exc is not None:
            e = n.exc.func if isinstance(n.exc, ast.Call) else n.exc
            nm = ast.unparse(e).split(".")[-1]
            if nm[:1].isupper():
                out.add(nm)
    guarded: set[str] = set()
    for n in walk_no_nested(f.node):
        if isinstance(n, ast.Compare) and any(isinstance(op, (ast.In, ast.NotIn)) for op in n.ops):
            for c in n.comparators:
                a = self_attr(c)
                if a:
                    guarded.add(a)
    params = set(f.params[1:])
    for n in walk_no_nested(f.node):
        if isinstance(n, ast.Subscript) and isinstance(n.ctx, ast.Load):
            a = self_attr(n)
            if a is None or a in guarded or _is_defaultdict(f.cls, a):
                continue
            if isinstance(n.value, ast.Attribute) and isinstance(n.value.value, ast.Name) and n.value.value.id == "self" and isinstance(n.slice, ast.Name) and n.slice.id in params:
                out.add("KeyError")
    return out


def _is_defaultdict(cls: ClassInfo | None, attr: str) -> bool:
    if cls is None:
        return False
    for k in cls.mro():
        init = k.methods.get("__init__")
        if init is None:
            continue
        for n in walk_no_nested(init.node):
            if isinstance(n, (ast.Assign, ast.AnnAssign)):
                tg = n.targets[0] if isinstance(n, ast.Assign) else n.target
                if isinstance(tg, ast.Attribute) and tg.attr == attr and n.value is not None and isinstance(n.value, ast.Call) and call_name(n.value) == "defaultdict":
                    return True
    return False


def r2(ctx: Context, prs) -> None:
    ctx.rule("R2", "for every abstract method the set of exception classes the in-memory implementation can raise (explicit `raise` in the method body, KeyError from an unguarded subscript of a store dict keyed by a parameter) equals the set of the SQLite implementation")
    n = 0
    for base, name, decl, a, s in prs:
        ra, rs = raise_set(ctx.repo, a), raise_set(ctx.repo, s)
        n += 1
        if ra == rs:
            ctx.ok("R2", f"{base.name}.{name}::raises-agree", a.loc(), f"{sorted(ra)}")
        else:
            ctx.fail("R2", f"{base.name}.{name}::raises::mem={'+'.join(sorted(ra)) or 'nothing'}::sqlite={'+'.join(sorted(rs)) or 'nothing'}", a.loc(),
                     f"{name}: the in-memory implementation can raise {sorted(ra) or 'nothing'}, the SQLite implementation {sorted(rs) or 'nothing'} (mem {a.loc()}, sqlite {s.loc()}): the same operation on a missing / unknown key gives different errors")
    ctx.floor("R2", "pairs compared", n, 70)


OPS = {ast.Lt: "<", ast.Gt: ">", ast.LtE: "<=", ast.GtE: ">=", ast.Eq: "==", ast.NotEq: "!="}
NEG = {"<": ">=", ">=": "<", ">": "<=", "<=": ">", "==": "!=", "!=": "=="}
FLIPS = {"<": ">", ">": "<", "<=": ">=", ">=": "<=", "==": "==", "!=": "!="}


def r3(ctx: Context, prs, sites) -> None:
    ctx.rule("R3", "paired threshold comparisons use the same normalised operator on the same quantity (active-runner cut-off, auto-purge threshold, claim expiry; the recovery cut-offs are C04/R1) and paired listings use the same sort key and direction (pagination, active runners)")
    by = {(b.name, n): (a, s) for b, n, _, a, s in prs}
    # --- active runners: active <=> last_heartbeat >= cutoff ; ordered by creation time ascending
    a, s = by[("BaseOrchestrator", "_get_active_runners")]
    mem_op = None
    for n in walk_no_nested(a.node):
        if isinstance(n, ast.If) and isinstance(n.test, ast.Compare) and "heartbeat" in ast.unparse(n.test.left) and any(isinstance(x, ast.Continue) for x in n.body):
            mem_op = NEG[OPS[type(n.test.ops[0])]]  # skipped when ...; active when the negation
    ss = [x for x in sites if x.func is s and x.verb == "SELECT"]
    sq_op = None
    if ss:
        for c, op, rhs in sqlmini.conditions(sqlmini.where_clause(ss[0].template)):
            if c.split(".")[-1] == "last_heartbeat":
                sq_op = op
    ctx.add("R3", "active-runner-cutoff::same-operator", mem_op == sq_op and mem_op == ">=", a.loc(), "" if mem_op == sq_op == ">=" else f"mem: active <=> last_heartbeat {mem_op} cutoff; sqlite: {sq_op}")
    ob = sqlmini.order_by(ss[0].template) if ss else []
    mem_sort = [c for c in calls_in(a.node) if call_name(c) == "sort"]
    mk = ast.unparse(mem_sort[0].keywords[0].value) if mem_sort and mem_sort[0].keywords else ""
    rev = any(k.arg == "reverse" and isinstance(k.value, ast.Constant) and k.value.value for c in mem_sort for k in c.keywords)
    ok = bool(ob) and ob[0] == ("creation_timestamp", "ASC") and "creation_time" in mk and not rev
    ctx.add("R3", "active-runners::ordered-by-creation-ascending", ok, a.loc(), "" if ok else f"mem sort key {mk} reverse={rev}; sqlite ORDER BY {ob}")
    # the order is the slot assignment: it may depend only on things that never change for a runner (creation time, id);
    # a key that moves with every heartbeat reorders runners that tie on creation time - each one sees ITSELF last
    immutable = {"creation_timestamp", "creation_time", "runner_id"}
    sq_keys = [c_.split(".")[-1] for c_, _ in ob]
    mem_keys = {x.attr for x in ast.walk(mem_sort[0].keywords[0].value) if isinstance(x, ast.Attribute)} if mem_sort and mem_sort[0].keywords else set()
    ok = bool(sq_keys) and set(sq_keys) <= immutable and mem_keys <= immutable
    ctx.add("R3", "active-runners::order-uses-immutable-keys-only", ok, s.loc(), "" if ok else f"sort keys sqlite={sq_keys} mem={sorted(mem_keys)}: a key outside {sorted(immutable)} changes while the runner lives, so runners with equal creation time swap positions between two reads of the list (every one of them is placed last right after its own heartbeat) and are authorised for the same slot")
    # eligibility filter
    p_el = a.params[2] if len(a.params) > 2 else "can_run_atomic_service"
    mem_filter = any(isinstance(n, ast.If) and any(isinstance(x, ast.Continue) for x in n.body) and any(isinstance(c_, ast.Compare) and isinstance(c_.ops[0], ast.NotEq) and p_el in names_in(c_) for c_ in ast.walk(n.test)) and any(isinstance(c_, ast.Compare) and isinstance(c_.ops[0], ast.IsNot) and p_el in names_in(c_) for c_ in ast.walk(n.test)) for n in walk_no_nested(a.node))
    ok = mem_filter and ss and "? IS NULL OR allow_to_run_atomic_service = ?" in " ".join(ss[0].template.split())
    ctx.add("R3", "active-runners::eligibility-filter", bool(ok), a.loc(), "" if ok else "the optional can_run_atomic_service filter differs")
    # --- a requested maximum of 0 ("no free slot"): SQL `LIMIT 0` returns nothing; an in-memory loop that tests `== 0` only
    # after counting an element down never stops for 0 (or a negative number) and returns everything
    bc_mem, bc_sql = ctx.repo.cls("MemBlockingControl"), ctx.repo.cls("SQLiteBlockingControl")
    gm, gs = bc_mem.methods.get("get_blocking_invocations"), bc_sql.methods.get("get_blocking_invocations")
    if gm is None or gs is None:
        raise AnalysisError("anchor-vanished: get_blocking_invocations (mem / sqlite)")
    from ..flow import conditions_at, func_cfg, parent_map

    lim = gm.params[1]
    sql_limit_bound = any(x.func is gs and "LIMIT ?" in " ".join(x.template.upper().split()) for x in sites)
    gcf, gpm = func_cfg(ctx.repo, gm), parent_map(gm.node)
    ylds = [n for n in walk_no_nested(gm.node) if isinstance(n, (ast.Yield, ast.YieldFrom))]

    def positive_quota(conds) -> bool:
        for c_ in conds:
            if isinstance(c_, ast.Compare) and len(c_.ops) == 1 and lim in names_in(c_):
                t_ = ast.unparse(c_).replace(" ", "")
                if t_ in (f"{lim}>0", f"0<{lim}", f"{lim}>=1", f"1<={lim}"):
                    return True
        return False

    okz = sql_limit_bound and bool(ylds) and all(positive_quota(conditions_at(gcf, gm.node, y, gpm)) for y in ylds)
    ctx.add("R3", "blocking-limit::zero-means-none-on-both-backends", okz, gm.loc(), "" if okz else f"SQLite binds the requested maximum to LIMIT ? (0 rows for 0); the in-memory generator yields without `{lim} > 0` holding: with a maximum of 0 (a runner without a free slot) it hands out EVERY ready invocation - the runner claims work it has no slot for, the SQLite runner does not")
    # --- auto purge threshold
    a, s = by[("BaseOrchestrator", "auto_purge")]
    mem_op = None
    for n in walk_no_nested(a.node):
        if isinstance(n, ast.While):
            for c in ast.walk(n.test):
                if isinstance(c, ast.Compare) and type(c.ops[0]) in OPS and len(c.ops) == 1:
                    mem_op = OPS[type(c.ops[0])]
    ss = [x for x in sites if x.func is s and x.verb == "SELECT"]
    sq_op = None
    if ss:
        for c, op, rhs in sqlmini.conditions(sqlmini.where_clause(ss[0].template)):
            if c.split(".")[-1] == "auto_purge_timestamp" and op in ("<", "<=", ">", ">="):
                sq_op = op
    ctx.add("R3", "auto-purge-threshold::same-operator", mem_op == sq_op and mem_op is not None, a.loc(), "" if mem_op == sq_op and mem_op else f"mem purges when stamp {mem_op} threshold, sqlite when stamp {sq_op} threshold")
    ta = " ".join(ast.unparse(a.node).split())
    ts_ = " ".join(ast.unparse(s.node).split())
    ok = "auto_final_invocation_purge_hours * 3600" in ta and "auto_final_invocation_purge_hours * 3600" in ts_ and "time() -" in ta and "time() -" in ts_
    ctx.add("R3", "auto-purge-threshold::same-quantity", ok, a.loc(), "" if ok else "the thresholds are computed differently")
    # --- claim expiry
    for meth in ("claim_trigger_run", "claim_trigger_execution"):
        if ("BaseTrigger", meth) in by:
            a, s = by[("BaseTrigger", meth)]
        else:
            # not declared abstract in the base class: take the two implementations directly
            a, s = ctx.repo.cls("MemTrigger").methods.get(meth), ctx.repo.cls("SQLiteTrigger").methods.get(meth)
            if a is None and s is None:
                continue
            if a is None or s is None:
                ctx.fail("R3", f"{meth}::expiry-operator", (a or s).loc(), f"{meth} exists on one trigger backend only")
                continue
        ops = []
        for f in (a, s):
            o = None
            for n in walk_no_nested(f.node):
                if isinstance(n, ast.If) and isinstance(n.test, ast.Compare) and "expiration" in ast.unparse(n.test.left) and "now" in ast.unparse(n.test.comparators[0]):
                    o = OPS[type(n.test.ops[0])]
            ops.append(o)
        ctx.add("R3", f"{meth}::expiry-operator", ops[0] == ops[1] and ops[0] is not None, a.loc(), "" if ops[0] == ops[1] and ops[0] else f"mem: claim held while expiration {ops[0]} now; sqlite: {ops[1]}")
    # --- pagination
    a, s = by[("BaseOrchestrator", "get_invocation_ids_paginated")]
    srt = [c for c in calls_in(a.node) if call_name(c) == "sorted"]
    mk = ""
    rev = False
    if srt:
        for k in srt[0].keywords:
            if k.arg == "key":
                mk = ast.unparse(k.value)
            if k.arg == "reverse":
                rev = isinstance(k.value, ast.Constant) and bool(k.value.value)
    sql_txt = " ".join(ast.unparse(s.node).split())
    ok = ".timestamp" in mk and rev and "ORDER BY status_timestamp DESC LIMIT ? OFFSET ?" in sql_txt
    ctx.add("R3", "pagination::newest-first-by-status-timestamp", ok, a.loc(), "" if ok else f"mem key={mk[:50]} reverse={rev}")
    # the slice [offset : offset + limit] over the two pagination parameters (whatever they are called)
    ok = False
    for n in walk_no_nested(a.node):
        if isinstance(n, ast.Subscript) and isinstance(n.slice, ast.Slice) and isinstance(n.slice.lower, ast.Name) and n.slice.lower.id in a.params and isinstance(n.slice.upper, ast.BinOp) and isinstance(n.slice.upper.op, ast.Add):
            names = {x.id for x in ast.walk(n.slice.upper) if isinstance(x, ast.Name)}
            ok = ok or (n.slice.lower.id in names and len(names & set(a.params)) == 2)
    ctx.add("R3", "pagination::offset-limit-window", ok, a.loc(), "" if ok else "")
    # count filters
    a, s = by[("BaseOrchestrator", "count_invocations")]
    ok = "task_id_key = ?" in ast.unparse(s.node) and "status IN" in ast.unparse(s.node) and "task_id_to_inv_id.get(task_id" in ast.unparse(a.node) and "filter_by_statuses" in ast.unparse(a.node)
    ctx.add("R3", "count::same-filters", ok, a.loc(), "")


def r4(ctx: Context, sites) -> None:
    ctx.rule("R4", "in-memory: every container attribute initialised in __init__ (own class and component base) is emptied or rebound by purge / _purge; SQLite: purge deletes by the component's table prefix and re-creates the tables")
    repo = ctx.repo
    n = 0
    for b in BASES:
        base = repo.cls(b)
        for c in base.all_subclasses():
            if c.name.startswith("Mem"):
                attrs: dict[str, ast.AST] = {}
                for k in c.mro():
                    init = k.methods.get("__init__")
                    if init is None:
                        continue
                    for x in walk_no_nested(init.node):
                        if isinstance(x, (ast.Assign, ast.AnnAssign)):
                            tg = x.targets[0] if isinstance(x, ast.Assign) else x.target
                            if isinstance(tg, ast.Attribute) and isinstance(tg.value, ast.Name) and tg.value.id == "self" and x.value is not None and _is_container(x.value):
                                attrs.setdefault(tg.attr, x)
                # class-level containers
                for nm, v in c.class_attrs.items():
                    if _is_container(v):
                        attrs.setdefault(nm, v)
                purge_fs = [m for m in (c.find_method("purge"), c.find_method("_purge")) if m is not None and not m.is_abstract]
                # follow self.* helpers called by purge (e.g. reload_task_conditions)
                extra = []
                for p in list(purge_fs):
                    for cc in calls_in(p.node):
                        if isinstance(cc.func, ast.Attribute) and isinstance(cc.func.value, ast.Name) and cc.func.value.id == "self":
                            h = c.find_method(cc.func.attr)
                            if h is not None and h not in purge_fs and h not in extra:
                                extra.append(h)
                cleared: set[str] = set()
                for p in purge_fs + extra:
                    for w in mem_store_writes(p.node):
                        if w.how in ("method:clear", "rebind"):
                            cleared.add(w.attr)
                    for x in walk_no_nested(p.node):
                        if isinstance(x, ast.Call) and call_name(x) == "clear" and isinstance(x.func.value, ast.Attribute):
                            cleared.add(x.func.value.attr)
                        # a process-wide (class-level) registry keyed by app id: purge removes THIS app's entry
                        if isinstance(x, ast.Call) and call_name(x) == "pop" and isinstance(x.func.value, ast.Attribute) and isinstance(x.func.value.value, ast.Name) and x.func.value.value.id in (c.name, "cls") and x.args and ast.unparse(x.args[0]).endswith("app.app_id"):
                            cleared.add(x.func.value.attr)
                        if isinstance(x, ast.Delete) and any(isinstance(t, ast.Subscript) and isinstance(t.value, ast.Attribute) and isinstance(t.value.value, ast.Name) and t.value.value.id in (c.name, "cls") and ast.unparse(t.slice).endswith("app.app_id") for t in x.targets):
                            cleared |= {t.value.attr for t in x.targets if isinstance(t, ast.Subscript) and isinstance(t.value, ast.Attribute)}
                if not purge_fs:
                    if f"purge-coverage::{c.name}::*" in NOT_OBSERVABLE:
                        ctx.ok("R4", f"purge-coverage::{c.name}::*", c.module.relpath, NOT_OBSERVABLE[f"purge-coverage::{c.name}::*"])
                        continue
                    ctx.fail("R4", f"purge-coverage::{c.name}::no-purge", c.module.relpath, "no purge method")
                    continue
                for attr in sorted(attrs):
                    n += 1
                    key = f"purge-coverage::{c.name}::{attr}"
                    if attr in cleared:
                        ctx.ok("R4", key, purge_fs[0].loc())
                    elif key in NOT_OBSERVABLE:
                        ctx.ok("R4", key, purge_fs[0].loc(), "not observable: " + NOT_OBSERVABLE[key])
                    else:
                        ctx.fail("R4", key, purge_fs[0].loc(), f"{c.name}.purge leaves self.{attr} untouched: data stored before the purge is still returned afterwards, while the SQLite backend deletes every table of the component")
            elif c.name.startswith("SQLite"):
                p = c.find_method("purge") if "purge" in c.methods else c.find_method("_purge")
                if p is None:
                    continue
                cs = [cc for cc in calls_in(p.node) if call_name(cc) == "delete_tables_with_prefix"]
                ok = bool(cs) and all(len(cc.args) >= 2 and ast.unparse(cc.args[1]) == "self.tables.table_prefix" for cc in cs)
                ctx.add("R4", f"purge-coverage::{c.name}::all-tables-by-prefix", ok, p.loc(), "" if ok else "purge does not delete every table of the component prefix")
    ctx.floor("R4", "in-memory store attributes", n, 35)


def _is_container(v: ast.AST) -> bool:
    if isinstance(v, (ast.Dict, ast.List, ast.Set)):
        return True
    return isinstance(v, ast.Call) and call_name(v) in ("dict", "list", "set", "defaultdict", "OrderedDict", "deque")


def r5(ctx: Context, prs, sites) -> None:
    ctx.rule("R5", "paired writes agree on what happens when the key already exists / does not exist: insert-if-absent versus overwrite (ON CONFLICT DO NOTHING / INSERT OR REPLACE versus conditional / unconditional assignment), increments on unknown ids")
    by = {(b.name, n): (a, s) for b, n, _, a, s in prs}
    # registration: existing id
    a, s = by[("BaseOrchestrator", "_register_new_invocations")]
    ss = [x for x in sites if x.func is s and x.verb.startswith("INSERT")]
    sq_policy = sqlmini.conflict_clause(ss[0].template) if ss else None
    guarded = any(isinstance(n, ast.If) and "invocation_status_record" in ast.unparse(n.test) for n in walk_no_nested(a.node))
    mem_policy = "insert-if-absent" if guarded else "overwrite"
    sq_norm = {"DO NOTHING": "insert-if-absent", "OR IGNORE": "insert-if-absent", "OR REPLACE": "overwrite", "DO UPDATE": "overwrite", None: "fail-on-duplicate"}[sq_policy]
    ctx.add("R5", "register-existing-invocation::mem=" + mem_policy + "::sqlite=" + sq_norm, mem_policy == sq_norm, a.loc(),
            "" if mem_policy == sq_norm else f"registering an invocation id that already has a status record: the in-memory orchestrator overwrites the record with REGISTERED (and leaves the old status index entry), the SQLite orchestrator keeps the existing row ({sq_policy})")
    # retries on unknown id
    a, s = by[("BaseOrchestrator", "increment_invocation_retries")]
    creates = any(call_name(c) == "get" and self_attr(c.func) == "invocation_retries" for c in calls_in(a.node))
    sq_upsert = any(x.func is s and x.verb.startswith("INSERT") for x in sites)
    ctx.add("R5", f"increment-retries-unknown-id::mem={'creates-entry' if creates else 'raises'}::sqlite={'creates-row' if sq_upsert else 'no-op'}", creates == sq_upsert, a.loc(),
            "" if creates == sq_upsert else "incrementing the retry count of an id without a record: the in-memory orchestrator creates a counter (get_invocation_retries then returns 1), the SQLite UPDATE matches no row (returns 0)")
    # generic: paired inserts of key/value style stores
    checks = [
        ("BaseStateBackend", "_upsert_invocations"), ("BaseStateBackend", "_set_result"), ("BaseStateBackend", "_set_exception"),
        ("BaseStateBackend", "store_app_info"), ("BaseStateBackend", "_store_runner_context"), ("BaseStateBackend", "store_workflow_run"),
        ("BaseStateBackend", "set_workflow_data"), ("BaseTrigger", "_register_condition"), ("BaseTrigger", "register_trigger"),
        ("BaseTrigger", "record_valid_condition"), ("BaseClientDataStore", "_store"), ("BaseOrchestrator", "index_arguments_for_concurrency_control"),
    ]
    for bname, meth in checks:
        if (bname, meth) not in by:
            raise AnalysisError(f"anchor-vanished: {bname}.{meth}")
        a, s = by[(bname, meth)]
        ss = [x for x in sites if x.func is s and x.verb.startswith(("INSERT", "REPLACE", "UPDATE"))]
        if not ss:
            # may delegate to a helper
            hs = [h for c in calls_in(s.node) if isinstance(c.func, ast.Attribute) and s.cls is not None for h in [s.cls.find_method(c.func.attr)] if h is not None]
            ss = [x for x in sites if x.func in hs and x.verb.startswith(("INSERT", "REPLACE", "UPDATE"))]
        pol = {sqlmini.conflict_clause(x.template) for x in ss if x.verb.startswith("INSERT")} | {"OR REPLACE" for x in ss if x.verb == "REPLACE"}
        sq_norm = "overwrite" if pol and pol <= {"OR REPLACE", "DO UPDATE"} else ("insert-if-absent" if pol and pol <= {"DO NOTHING", "OR IGNORE"} else ("mixed" if pol else "update-only"))
        guarded = any(isinstance(n, ast.If) and isinstance(n.test, ast.Compare) and any(isinstance(op, ast.NotIn) for op in n.test.ops) and any(isinstance(x, ast.Assign) for x in n.body) and not n.orelse and _guards_all_writes(a, n) for n in walk_no_nested(a.node))
        mem_norm = "insert-if-absent" if guarded else "overwrite"
        ok = mem_norm == sq_norm or (sq_norm == "mixed")
        ctx.add("R5", f"{bname}.{meth}::duplicate-key::mem={mem_norm}::sqlite={sq_norm}", ok, a.loc(), "" if ok else f"storing under an existing key: mem {mem_norm}, sqlite {sq_norm} ({sorted(str(p) for p in pol)})")

    # generic: a writer that CREATES the entry in memory (`self.X[<key parameter>] = v`, not under a key-presence test)
    # must be able to create the row in SQLite (INSERT / REPLACE); an UPDATE-only sibling silently does nothing for a key
    # without row.  (increment_invocation_retries has its own instance above.)
    n_gen = 0
    for b, name, _, a, s in prs:
        if name == "increment_invocation_retries":
            continue
        creating = []
        pm = parent_map(a.node)
        for n_ in walk_no_nested(a.node):
            if isinstance(n_, ast.Assign):
                for t in n_.targets:
                    if isinstance(t, ast.Subscript) and isinstance(t.value, ast.Attribute) and self_attr(t) and isinstance(t.slice, ast.Name) and t.slice.id in a.params[1:]:
                        guarded = any(isinstance(x, ast.If) and any(isinstance(c_, ast.Compare) and any(isinstance(o, (ast.In, ast.NotIn)) for o in c_.ops) and self_attr(c_.comparators[0]) == self_attr(t) for c_ in ast.walk(x.test)) for x in _anc(pm, n_))
                        if not guarded:
                            creating.append((n_, self_attr(t)))
        if not creating:
            continue
        fs = _closure(ctx.repo, s)
        ws = [x for x in sites if x.func in fs and x.verb.split()[0] in ("INSERT", "REPLACE", "UPDATE")]
        if not ws:
            continue
        n_gen += 1
        can_create = any(x.verb.split()[0] in ("INSERT", "REPLACE") for x in ws)
        ctx.add("R5", f"{b.name}.{name}::unknown-key::mem=creates::sqlite={'creates' if can_create else 'no-op'}", can_create, ws[0].where, "" if can_create else f"`{ast.unparse(creating[0][0])[:60]}` creates the entry for a key the in-memory store does not hold yet; the SQLite sibling only UPDATEs ({', '.join(sorted({x.verb for x in ws}))}): for a key without row it changes nothing and reports nothing")
    ctx.floor("R5", "creating writers with a writing SQLite sibling", n_gen, 5)


def _anc(pm, node):
    cur = pm.get(id(node))
    while cur is not None:
        yield cur
        cur = pm.get(id(cur))


def _guards_all_writes(f: FuncInfo, ifnode: ast.If) -> bool:
    ws = mem_store_writes(f.node)
    return bool(ws) and all(any(w.node is x for x in ast.walk(ifnode)) for w in ws)


def _closure(repo, f: FuncInfo) -> list[FuncInfo]:
    """f plus what it reaches through self.<m>() calls (its own class / MRO) and calls of module-level functions"""
    seen = {f.qualname: f}
    stack = [f]
    while stack:
        g = stack.pop()
        for c in calls_in(g.node):
            m = None
            if isinstance(c.func, ast.Attribute) and isinstance(c.func.value, ast.Name) and c.func.value.id == "self" and f.cls is not None:
                m = f.cls.find_method(c.func.attr)
            elif isinstance(c.func, ast.Name):
                tgt = repo.resolve_name(g.module, c.func.id)
                if isinstance(tgt, FuncInfo):
                    m = tgt
            if m is not None and m.qualname not in seen and not m.is_abstract:
                seen[m.qualname] = m
                stack.append(m)
    return list(seen.values())


def r6(ctx: Context, prs, sites) -> None:
    import json

    from ..flow import aliased_store_mutations, class_live_returns
    from ..report import VERIF

    ctx.rule("R6", "effect agreement: an operation changes the in-memory store (direct write, mutation through a local alias, class-level registry) if and only if its SQLite sibling executes a non-read statement - a query that mutates on one backend only is not equivalent")
    spec = json.loads((VERIF / "spec" / "stores.json").read_text())
    not_store = set(spec["not_store"])
    read_verbs = tuple(spec["sql_read_verbs"])
    n = 0
    for base, name, decl, a, s in prs:
        mm: list[tuple[str, str]] = []
        for g in _closure(ctx.repo, a):
            for w in mem_store_writes(g.node):
                if w.attr not in not_store:
                    mm.append((g.loc(w.node), f"{g.name} writes self.{w.attr} ({w.how})"))
            for node, nm, attr in aliased_store_mutations(g.node, None, class_live_returns(g.cls)):
                if attr not in not_store:
                    mm.append((g.loc(node), f"{g.name} mutates self.{attr} through the local alias `{nm}`"))
            for x in walk_no_nested(g.node):
                if isinstance(x, (ast.Assign, ast.Delete)):
                    for t in x.targets:
                        if isinstance(t, ast.Subscript) and isinstance(t.value, ast.Attribute) and isinstance(t.value.value, ast.Name) and a.cls is not None and t.value.value.id == a.cls.name:
                            mm.append((g.loc(x), f"{g.name} writes the class-level registry {ast.unparse(t.value)}"))
        sm: list[tuple[str, str]] = []
        cl = _closure(ctx.repo, s)
        for x in sites:
            owner = x.func
            while owner.parent_func is not None:
                owner = owner.parent_func
            if owner in cl:
                t = " ".join(x.template.upper().split())
                if x.verb.startswith(read_verbs) or x.verb == "?" or t.startswith(("BEGIN", "PRAGMA", "COMMIT")):
                    continue
                sm.append((x.where, f"{owner.name} executes {x.verb}"))
        n += 1
        ok = bool(mm) == bool(sm)
        if ok:
            ctx.ok("R6", f"{base.name}.{name}::effect-agreement", a.loc(), "both change the store" if mm else "both read-only")
        else:
            where, why = (mm or sm)[0]
            side = "in-memory" if mm else "SQLite"
            ctx.fail("R6", f"{base.name}.{name}::effect::mem={'writes' if mm else 'read-only'}::sqlite={'writes' if sm else 'read-only'}", where, f"only the {side} implementation changes the store: {why}")
    ctx.floor("R6", "pairs compared", n, 70)


def r7(ctx: Context, bases=None) -> None:
    ctx.rule("R7", "multi-valued indexes (attributes annotated dict[K, set|list[V]]): removing a whole key whose expression is not one of the operation's own parameters (a key reached by iterating an entity's references) is allowed only inside `if not self.<index>[key]:` - otherwise the other members of that key vanish, which a relational DELETE by member column never does")
    n = 0
    for b in (bases or BASES):
        base = ctx.repo.cls(b)
        for c in [x for x in base.all_subclasses() if x.name.startswith("Mem")]:
            multi: set[str] = set()
            for m in c.methods.values():
                for x in walk_no_nested(m.node):
                    if isinstance(x, ast.AnnAssign) and isinstance(x.target, ast.Attribute) and isinstance(x.target.value, ast.Name) and x.target.value.id == "self":
                        ann = ast.unparse(x.annotation)
                        if ann.startswith(("dict[", "defaultdict[", "OrderedDict[")) and any(k in ann.split(",", 1)[-1] for k in ("set[", "list[")):
                            multi.add(x.target.attr)
            for m in c.methods.values():
                if m.name in ("purge", "_purge", "__init__"):
                    continue
                params = set(m.params)
                pm = {id(ch): p for p in ast.walk(m.node) for ch in ast.iter_child_nodes(p)}
                for x in walk_no_nested(m.node):
                    key = None
                    attr = None
                    if isinstance(x, ast.Delete):
                        for t in x.targets:
                            if isinstance(t, ast.Subscript) and self_attr(t) in multi and isinstance(t.value, ast.Attribute):
                                key, attr = t.slice, t.value.attr
                    elif isinstance(x, ast.Call) and isinstance(x.func, ast.Attribute) and x.func.attr == "pop" and isinstance(x.func.value, ast.Attribute) and self_attr(x.func.value) in multi and isinstance(x.func.value.value, ast.Name) and x.args:
                        key, attr = x.args[0], x.func.value.attr
                    if key is None:
                        continue
                    n += 1
                    roots = names_in(key)
                    own_key = bool(roots) and roots <= params
                    # `not self.<index>[key]` holds on every path to the removal (nested if, guard clause, ...)
                    from ..flow import conditions_at, func_cfg

                    def _empty_test(t: ast.AST) -> bool:
                        if not (isinstance(t, ast.UnaryOp) and isinstance(t.op, ast.Not)):
                            return False
                        o = t.operand
                        if isinstance(o, ast.Subscript):
                            return self_attr(o) == attr and ast.unparse(o.slice) == ast.unparse(key)
                        # `not self.<index>.get(key)` / `.get(key, <empty>)`
                        return isinstance(o, ast.Call) and call_name(o) == "get" and isinstance(o.func, ast.Attribute) and self_attr(o.func.value) == attr and bool(o.args) and ast.unparse(o.args[0]) == ast.unparse(key)

                    guarded = any(_empty_test(t) for t in conditions_at(func_cfg(ctx.repo, m), m.node, x, pm))
                    ok = own_key or guarded
                    ctx.add("R7", f"{m.qualname}::whole-key-removal::{attr}", ok, m.loc(x), "" if ok else f"`{ast.unparse(x)[:70]}` drops every member stored under a key that was reached through another entity's references: members belonging to other entities disappear (the SQLite sibling deletes by member column only)")
    ctx.floor("R7", "whole-key removals on multi-valued indexes", n, 4 if bases is None else 1)


def r4_gating_caches(ctx: Context) -> None:
    """A process-local cache that GATES a backend write (`if k not in self.<cache>: self.<store>(...)`) stands for "the backend has
    it".  Every purge must therefore clear it - on BOTH backends - or the same process never stores the entry again."""
    repo = ctx.repo
    n = 0
    for bname in BASES:
        base = repo.cls(bname)
        gating: dict[str, tuple[FuncInfo, ast.AST]] = {}
        for m in base.methods.values():
            for node in walk_no_nested(m.node):
                if isinstance(node, ast.If) and isinstance(node.test, ast.Compare) and len(node.test.ops) == 1 and isinstance(node.test.ops[0], ast.NotIn):
                    a = self_attr(node.test.comparators[0])
                    if a is None or not isinstance(node.test.comparators[0], ast.Attribute):
                        continue
                    writes = [c for st in node.body for c in ast.walk(st) if isinstance(c, ast.Call) and isinstance(c.func, ast.Attribute) and isinstance(c.func.value, ast.Name) and c.func.value.id == "self" and c.func.attr.startswith(("_store", "_set", "_upsert", "_add", "_register"))]
                    if writes:
                        gating[a] = (m, node)
        for a, (m, node) in sorted(gating.items()):
            for c in [x for x in base.all_subclasses() if x.name.startswith(("Mem", "SQLite"))]:
                purge_fs = [f for f in [c.find_method("purge"), c.find_method("_purge")] if f is not None and not f.is_abstract]
                # follow super().purge() / self.<helper>() one level
                seen = list(purge_fs)
                for p in list(purge_fs):
                    for cc in calls_in(p.node):
                        if isinstance(cc.func, ast.Attribute) and isinstance(cc.func.value, ast.Name) and cc.func.value.id == "self":
                            h = c.find_method(cc.func.attr)
                            if h is not None and h not in seen:
                                seen.append(h)
                cleared = any(isinstance(x, ast.Call) and call_name(x) == "clear" and self_attr(x.func) == a for p in seen for x in walk_no_nested(p.node)) or any(isinstance(x, ast.Assign) and any(isinstance(t, ast.Attribute) and t.attr == a and isinstance(t.value, ast.Name) and t.value.id == "self" for t in x.targets) for p in seen for x in walk_no_nested(p.node))
                n += 1
                ctx.add("R4", f"purge-clears-write-gating-cache::{c.name}::{a}", cleared, purge_fs[0].loc() if purge_fs else c.module.relpath, "" if cleared else f"{base.name}.{m.name} writes to the backend only when the key is not in self.{a}; {c.name}.purge empties the backend but keeps that cache: after a purge this process never stores the entry again, other processes (and the backend's own queries) miss it")
    ctx.floor("R4", "write-gating caches x backends", n, 2)


def r8(ctx: Context) -> None:
    ctx.rule("R8", "what a persistent backend reads back is what was stored: functions that rebuild an object from its stored form (from_json / _from_json / from_dict / from_dto) take a default only for a MISSING key (`d.get(k, default)`), never for a falsy value (`d.get(k) or default` turns a stored 0 / False / '' into the default - the in-memory backend, which keeps the original object, then disagrees)")
    n = 0
    for f in ctx.repo.all_functions():
        if f.name.lstrip("_") not in ("from_json", "from_dict", "from_dto", "from_row"):
            continue
        n += 1
        bad = None
        for b in walk_no_nested(f.node):
            if isinstance(b, ast.BoolOp) and isinstance(b.op, ast.Or) and len(b.values) >= 2:
                first = b.values[0]
                if (isinstance(first, ast.Call) and call_name(first) == "get" and len(first.args) == 1 and not first.keywords) or isinstance(first, ast.Subscript):
                    # `x.get(k) or {}` / `or []` / `or None` keeps falsy containers equivalent: only scalar defaults change a value
                    d = b.values[1]
                    if isinstance(d, (ast.Dict, ast.List, ast.Set, ast.Tuple)) and not getattr(d, "elts", getattr(d, "keys", None)):
                        continue
                    if isinstance(d, ast.Constant) and d.value is None:
                        continue
                    bad = b
        ctx.add("R8", f"{f.qualname}::defaults-only-for-missing-keys", bad is None, f.loc(bad) if bad is not None else f.loc(), "" if bad is None else f"`{ast.unparse(bad)[:80]}`: a stored falsy value (0, False, '') is replaced by the default when the object is read back from a persistent backend, while the in-memory backend keeps the original object - the two backends then behave differently for that object")
    ctx.floor("R8", "readers of stored forms", n, 10)
    # the same for the backends' own getters: a caller-supplied default stands in for an ABSENT entry only
    n2 = 0
    for c in ctx.repo.classes.values():
        if not (c.name.startswith(("Mem", "SQLite")) and c.module.name.startswith("pynenc.")):
            continue
        for m in c.methods.values():
            if not m.name.lstrip("_").startswith(("get", "retrieve", "load", "fetch")):
                continue
            n2 += 1
            bad = None
            for b in walk_no_nested(m.node):
                if isinstance(b, ast.BoolOp) and isinstance(b.op, ast.Or) and any(isinstance(v, ast.Name) and v.id in m.params[1:] for v in b.values[1:]) and not (isinstance(b.values[0], ast.Name) and b.values[0].id in m.params):
                    bad = b
            ctx.add("R8", f"{m.qualname}::caller-default-only-for-absent-entries", bad is None, m.loc(bad) if bad is not None else m.loc(), "" if bad is None else f"`{ast.unparse(bad)[:80]}`: a stored falsy value (0, False, '', an empty list) is answered with the caller's default on this backend, while the sibling - which tests for the row / key being present - returns the stored value")
    ctx.floor("R8", "backend getters", n2, 60)


# the shared (backend independent) halves of the storage components: a swallowed error there hides the failure on both backends
_STORAGE_BASES = {"BaseClientDataStore", "BaseStateBackend", "BaseBroker", "BaseTrigger", "BaseBlockingControl"}


def r11(ctx: Context, class_filter=None) -> None:
    """a backend operation that failed says so on both backends: no handler of a Mem* / SQLite* component turns an exception into a normal result (the in-memory sibling has no such failure and would answer differently)"""
    ctx.rule("R11", "no method of an in-memory or SQLite component swallows an exception (every `except` ends in `raise`); the single allowed site is the bounded retry of `database is locked` in the connection wrapper")
    ALLOWED = {"pynenc.util.sqlite_utils.SQLiteConnection.execute": "bounded retry on 'database is locked', re-raises afterwards"}
    n11 = 0
    for c in ctx.repo.classes.values():
        if not ((c.name.startswith(("Mem", "SQLite")) or c.name in _STORAGE_BASES) and c.module.name.startswith("pynenc.")):
            continue
        if class_filter is not None and not class_filter(c):
            continue
        for m in c.methods.values():
            n11 += 1
            hs = [h for h in ast.walk(m.node) if isinstance(h, ast.ExceptHandler) and not (h.body and isinstance(h.body[-1], ast.Raise))]
            if m.qualname in ALLOWED:
                # the allowance is for a retry that ENDS in the statement's result or in an error: every `return` sits in a
                # try body and returns the executed statement's own result; falling out of the retry loop raises
                bad_ret = None
                pm_ = parent_map(m.node)
                for r_ in [x for x in walk_no_nested(m.node) if isinstance(x, ast.Return)]:
                    in_try_body = False
                    cur = r_
                    while True:
                        par = pm_.get(id(cur))
                        if par is None:
                            break
                        if isinstance(par, ast.Try) and any(cur is b_ for b_ in par.body):
                            in_try_body = True
                            break
                        if isinstance(par, ast.ExceptHandler):
                            break
                        cur = par
                    if not (in_try_body and isinstance(r_.value, ast.Call) and call_name(r_.value) in ("execute", "executemany", "executescript")):
                        bad_ret = r_
                ends_raising = bool(m.node.body) and isinstance(m.node.body[-1], ast.Raise)
                okA = bad_ret is None and ends_raising
                ctx.add("R11", f"{m.qualname}::errors-are-not-swallowed", okA, m.loc(bad_ret) if bad_ret is not None else m.loc(), ("allowed: " + ALLOWED[m.qualname]) if okA else (f"`{ast.unparse(bad_ret)[:50]}` returns without the statement having executed" if bad_ret is not None else "the retry loop can be left without the statement having executed and without an error") + ": every SQLite component runs its statements through this wrapper - a skipped INSERT loses a routed message, a skipped BEGIN IMMEDIATE / DELETE delivers a message twice, while the caller sees a normal return")
                continue
            ctx.add("R11", f"{m.qualname}::errors-are-not-swallowed", not hs, m.loc(hs[0]) if hs else m.loc(), "" if not hs else f"`except {ast.unparse(hs[0].type) if hs[0].type else ''}` ends without re-raising: a failed {c.name} operation is reported as an ordinary result (empty / default / done), which the sibling backend - where the failure cannot occur - never returns for that state")
    ctx.floor("R11", "backend methods", n11, 150 if class_filter is None else 10)


def r12(ctx: Context, class_filter=None) -> None:
    """SQLite statements are atomic per row; the in-memory sibling must not replace a stored element (or the whole container) by a value computed from a copy of it without a lock: a concurrent writer's update in between is lost, the SQLite backend keeps both"""
    from ..flow import read_copy_write_sites

    ctx.rule("R12", "in-memory components do not read-copy-write a shared container or one of its elements without a lock (`tmp = copy(self.X[k]); ...; self.X[k] = tmp`, `tmp = dict(self.X); ...; self.X = tmp`), except at the frozen single-writer sites")
    SINGLE_WRITER = {
        "pynenc.orchestrator.mem_orchestrator.MemOrchestrator.increment_invocation_retries::invocation_retries": "only the runner that owns the invocation counts its retries",
        "pynenc.trigger.mem_trigger.MemTrigger.clean_task_trigger_definitions::_condition_triggers": "runs while a task's triggers are (re)registered at start-up, before the trigger loop of this process polls",
    }
    n12 = 0
    for c in ctx.repo.classes.values():
        if not (c.name.startswith("Mem") and c.module.name.startswith("pynenc.")):
            continue
        if class_filter is not None and not class_filter(c):
            continue
        for m in c.methods.values():
            n12 += 1
            sites_ = read_copy_write_sites(m.node)
            if not sites_:
                continue
            for node, attr, src in sites_:
                k = f"{m.qualname}::{attr}"
                if k in SINGLE_WRITER:
                    ctx.ok("R12", f"{k}::no-unlocked-read-copy-write", m.loc(node), "single writer: " + SINGLE_WRITER[k])
                else:
                    ctx.fail("R12", f"{k}::no-unlocked-read-copy-write", m.loc(node), f"`{ast.unparse(node)[:70]}` stores a value computed from a copy of self.{attr}[...] without a lock: two threads doing this for the same key keep only one of the two updates, the SQLite sibling (one statement per row) keeps both")
    ctx.floor("R12", "in-memory component methods", n12, 80 if class_filter is None else 10)


def r13(ctx: Context, sites) -> None:
    """An in-memory store (dict / set) accepts a key it already holds; the SQLite sibling must too."""
    ctx.rule("R13", "no INSERT of a SQLite component can fail on a key that is already stored: an INSERT into a table with a declared PRIMARY KEY / UNIQUE group among its listed columns carries a conflict clause (OR REPLACE / OR IGNORE / ON CONFLICT), as the in-memory dict / set sibling accepts a repeated key silently")
    keys = sqlmini.schema_keys(sites)
    bymod: dict[tuple[str, str], list[tuple[str, ...]]] = {}
    for s in sites:
        for t in s.tables:
            if t in keys and s.verb.startswith("CREATE"):
                bymod.setdefault((s.func.module.name, t.split(".")[-1]), []).extend(keys[t])
    n = 0
    for s in sites:
        if not s.verb.startswith("INSERT"):
            continue
        t = sqlmini.target_table(s.template)
        if t is None:
            raise AnalysisError(f"insert-without-table: {s.where}")
        groups = bymod.get((s.func.module.name, t.split(".")[-1]))
        if groups is None:
            raise AnalysisError(f"insert-into-table-without-schema: {t} at {s.where}")
        cols = set(sqlmini.insert_columns(s.template))
        hit = [g for g in groups if not g[0].startswith("<auto>") and (not cols or set(g) <= cols)]
        n += 1
        pol = sqlmini.conflict_clause(s.template)
        ok = not hit or pol is not None
        ctx.add("R13", f"{s.func.qualname}::insert-tolerates-existing-key::{t.split('.')[-1]}", ok, s.where, "" if ok else f"plain INSERT INTO {t} with key {hit[0]}: a second call with the same key raises sqlite3.IntegrityError, where the in-memory sibling (dict / set) stores it again silently - a caller that runs twice for the same key (a re-executed invocation, a re-registration) fails on SQLite only")
    ctx.floor("R13", "insert statements", n, 20)


_ID_TRANSFORMS = {"replace", "astimezone", "lower", "upper", "strip", "lstrip", "rstrip", "title", "casefold", "round", "abs", "normalize", "date", "time", "timestamp", "utcoffset"}


def r14(ctx: Context) -> None:
    """An object read back from a persistent backend must carry the identity it was stored under."""
    from ..flow import build_cfg, cfg_node_of, parent_map, reaching_definitions

    ctx.rule("R14", "identities survive the stored form: for every class of the trigger model whose `*_id` property is computed from attributes, the readers of its hierarchy (from_json / _from_json) bind each such attribute to the untransformed inverse of what was written - one reaching definition, no normalising call (.replace / .astimezone / .lower / round ...) on the way; the in-memory backend keeps the original object, so any normalisation makes the id computed after a SQLite round trip differ from the key the record is stored under")
    # identity attributes per hierarchy root
    idattrs: dict[str, set[str]] = {}
    classes = [c for c in ctx.repo.classes.values() if c.module.name.startswith("pynenc.trigger")]

    def root_of(c):
        ups = [b for b in c.mro() if b.module.name.startswith("pynenc.trigger")]
        return ups[-1] if ups else c

    for c in classes:
        for m in c.methods.values():
            if m.name.endswith("_id") and any("property" in ast.unparse(d) for d in m.node.decorator_list):
                attrs = {x.attr for x in ast.walk(m.node) if isinstance(x, ast.Attribute) and isinstance(x.value, ast.Name) and x.value.id == "self" and not x.attr.endswith("_id") or False}
                attrs |= {x.attr for x in ast.walk(m.node) if isinstance(x, ast.Attribute) and isinstance(x.value, ast.Name) and x.value.id == "self" and x.attr in ("invocation_id", "event_id", "task_id")}
                idattrs.setdefault(root_of(c).qualname, set()).update(attrs)
    if not idattrs:
        raise AnalysisError("anchor-vanished: no identity property in pynenc.trigger")
    n = 0
    for c in classes:
        ids = idattrs.get(root_of(c).qualname)
        if not ids:
            continue
        for m in c.methods.values():
            if m.name.lstrip("_") not in ("from_json", "from_dict"):
                continue
            g = None
            binds: list[tuple[str, ast.AST, ast.AST]] = []  # (attribute, value, statement-ish node)
            for x in walk_no_nested(m.node):
                if isinstance(x, ast.Assign):
                    for t in x.targets:
                        if isinstance(t, ast.Attribute) and isinstance(t.value, ast.Name) and t.value.id != "self" and t.attr in ids:
                            binds.append((t.attr, x.value, x))
                if isinstance(x, ast.Call) and isinstance(x.func, ast.Name) and (x.func.id == "cls" or x.func.id == c.name):
                    for kw in x.keywords:
                        if kw.arg in ids:
                            binds.append((kw.arg, kw.value, x))
            for attr, val, at in binds:
                n += 1
                why = None
                seen_names: set[str] = set()
                work = [(val, at)]
                depth = 0
                while work and why is None and depth < 12:
                    depth += 1
                    v, where = work.pop()
                    for cc in ast.walk(v):
                        if isinstance(cc, ast.Call) and call_name(cc) in _ID_TRANSFORMS and isinstance(cc.func, ast.Attribute):
                            why = f"`{ast.unparse(cc)[:60]}` transforms the stored value"
                            break
                    if why:
                        break
                    names = [y.id for y in ast.walk(v) if isinstance(y, ast.Name) and isinstance(y.ctx, ast.Load) and y.id not in m.params and y.id not in seen_names]
                    if not names:
                        continue
                    if g is None:
                        g = build_cfg(m.node)
                        defs, IN = reaching_definitions(g)
                        pm = parent_map(m.node)
                    nodes = cfg_node_of(g, m.node, where, pm)
                    for nm in names:
                        seen_names.add(nm)
                        rd = {d for nd in nodes for d in IN[nd.id] if d.name == nm}
                        if not rd:
                            continue  # a global / class name
                        weak = {d for d in rd if d.kind == "weak"}
                        for d in weak:
                            if d.value is not None:
                                work.append((d.value, where))
                        rd -= weak
                        if not rd:
                            continue
                        if len(rd) > 1:
                            why = f"`{nm}` has {len(rd)} definitions reaching the binding (a conditional re-normalisation)"
                            break
                        d = next(iter(rd))
                        if d.value is not None:
                            holder = next((nd.ast for nd in g.nodes if nd.id == d.node and nd.ast is not None), None)
                            work.append((d.value, holder if holder is not None else where))
                ctx.add("R14", f"{m.qualname}::restores-identity-attribute-untransformed::{attr}", why is None, m.loc(at), "" if why is None else f"{attr} feeds an identity property of this hierarchy; {why}: the id computed from the object read back differs from the key its record was stored under (the in-memory backend, keeping the original object, is unaffected)")
    ctx.floor("R14", "identity attribute bindings in readers", n, 8)


def r15(ctx: Context, prs, sites) -> None:
    """`x in key` / `key.startswith(x)` are literal and case-sensitive; SQL LIKE is neither."""
    ctx.rule("R15", "paired text matching means the same on both backends: where the in-memory method tests a caller's string literally (`p in key`, `.startswith(p)`, `.endswith(p)`, `==`), the SQLite sibling does not bind that string into a LIKE pattern (`%` and `_` inside it act as wildcards and ASCII case is ignored) - it uses instr() / substr() / = (an ESCAPE clause would remove the wildcards but not the case folding)")
    n = 0
    for b, name, _, a, sq in prs:
        params = set(sq.params[1:])
        for x in sites:
            if x.func is not sq or not re.search(r"\bLIKE\s+\?", x.template, re.I):
                continue
            n += 1
            # the bound pattern interpolates a parameter?
            bound = sqlmini.param_exprs(x) or []
            uses = [p_ for p_ in bound if any(isinstance(y, ast.Name) and y.id in params for y in ast.walk(p_))]
            literal_mem = any((isinstance(c_, ast.Compare) and any(isinstance(o, (ast.In, ast.Eq)) for o in c_.ops) and isinstance(c_.left, ast.Name) and c_.left.id in a.params) for c_ in ast.walk(a.node)) or any(call_name(c_) in ("startswith", "endswith") for c_ in calls_in(a.node))
            ok = not uses or not literal_mem
            ctx.add("R15", f"{b.name}.{name}::text-match-is-literal-on-both-backends", ok, x.where, "" if ok else f"the in-memory sibling matches `{sorted(set(a.params[1:]) & {y.id for p_ in uses for y in ast.walk(p_) if isinstance(y, ast.Name)}) or a.params[1:]}` literally and case-sensitively; SQLite binds it into `LIKE ?` ({ast.unparse(uses[0])[:40]}): `_` / `%` in the searched text match any character(s) and 'abc' matches 'ABC' - the two backends return different sets for the same search")
    # positive control: the rule's pattern language still finds LIKE statements at all
    total_like = sum(1 for x in sites if re.search(r"\bLIKE\b", x.template, re.I))
    ctx.analysed["like_statements"] = total_like
    ctx.floor("R15", "LIKE statements in the repository", total_like, 2)


def run(ctx: Context) -> None:
    sites = sqlmini.sites(ctx.repo)
    prs = pairs(ctx)
    ctx.analysed["abstract_method_pairs"] = len(prs)
    r1(ctx, prs)
    r2(ctx, prs)
    r3(ctx, prs, sites)
    r4(ctx, sites)
    r5(ctx, prs, sites)
    r6(ctx, prs, sites)
    r7(ctx)
    r4_gating_caches(ctx)
    r8(ctx)
    # R9: backend-independent logic whose errors surface differently per backend (shared rules): the wait graph's ready set
    # (C09/R2, in-memory only) and the purge registration (C03/R6: a stale purge mark makes the in-memory auto_purge raise
    # KeyError where SQLite deletes silently)
    from . import c09

    ctx.rule("R9", "shared: the in-memory wait graph maintains its ready set exactly as the SQLite query derives it (C09/R2); purge marks exist only for invocations that reached a final status (C03/R6)")
    sub = Context("C09", ctx.repo, ctx.tier, ctx.seed)
    sub._resolver = ctx._resolver
    c09.r2(sub, sites)
    for i in sub.instances:
        ctx.add("R9", i.key.split("/", 2)[2], i.ok, i.where, i.detail)
    from . import c03

    sub3 = Context("C03", ctx.repo, ctx.tier, ctx.seed)
    sub3._resolver = ctx._resolver
    c03.r6_purge(sub3)
    for i in sub3.instances:
        ctx.add("R9", i.key.split("/", 2)[2], i.ok, i.where, i.detail)
    ctx.floor("R9", "shared obligations", ctx.count("R9"), 10)
    # R10: SQL upserts keep what other statements maintain (generic form of C13/R12, over every SQLite component)
    from . import c13

    ctx.rule("R10", "no `INSERT OR REPLACE` / `REPLACE` of a SQLite component lists fewer columns than the UPDATE statements of that component maintain for the table (REPLACE deletes the row: the omitted columns fall back to their defaults, the in-memory sibling keeps them)")
    rows = c13.replace_resets(ctx.repo, sites)
    for s_, t_, miss in rows:
        ctx.add("R10", f"{s_.func.qualname}::replace-keeps-maintained-columns::{t_.split('.')[-1]}", not miss, s_.where, "" if not miss else f"INSERT OR REPLACE INTO {t_} omits {miss}, which UPDATE statements of the same component write: the value is lost whenever the row is written again")
    ctx.floor("R10", "replace statements", len(rows), 15)
    r11(ctx)
    r12(ctx)
    r13(ctx, sites)
    r14(ctx)
    r15(ctx, prs, sites)
    ctx.exhaustive = True
    ctx.not_decided += [
        "equivalence over operation sequences and agreement with an executable reference model (behavioural)",
        "return values (only error classes, operators, sort keys, purge coverage and conflict policy are compared)",
    ]
