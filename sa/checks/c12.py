"""C12 - global services are authorised for at most one runner at any instant (real-arithmetic clauses).

The slot arithmetic of pynenc/orchestrator/atomic_service.py is folded, path by path, into exact
polynomial forms over the symbols it is a function of (interval I > 0, margin M >= 0, runner
count N > 0, position p >= 0) by a small abstract interpreter (sa/poly.py: polynomial normal
forms + sign lattice; no solver, nothing executed).  On those forms:

R1 roles: the authorisation entry point passes the wall clock, the configured interval and margin,
   and the list of eligible active runners; N is the length of that list, p the index of the first
   entry with the runner's id; both backends order that list by creation time (C16/R3)
R2 exclusion: window(p) and window(p+1) are disjoint on every pair of branches, windows start in
   increasing order, and the membership test is half-open wherever two windows can touch; every
   runner reduces the same clock by the same modulus
R3 margin: on every branch not guarded by "margin does not fit" consecutive windows - also the
   last of a cycle and the first of the next - are separated by at least M
R4 presence: every branch gives a non-empty window that starts inside the cycle; no other path
   denies an active runner depending on I, M, N or p
R5 a single active runner is always authorised
R6 floating point: touching windows keep their order under rounding (upper(p) is computed FROM the
   expression of lower(p+1) by subtracting non-negative terms)

NOT decided: floating-point rounding (the forms are over the rationals), anything about the instants
at which different runners read their clocks, and the stability of the runner list over time.
"""

from __future__ import annotations

import ast
from dataclasses import dataclass, field
from fractions import Fraction
from itertools import product

from ..flow import call_name, calls_in, names_in
from ..loader import AnalysisError, FuncInfo, walk_no_nested
from ..poly import NONNEG, POS, Poly, holds, proves
from ..report import Context

PROPERTY = "C12"
TECHNIQUE = "static analysis: abstract interpretation of the slot arithmetic in a domain of exact polynomial forms with a sign lattice (path-sensitive, callees inlined, no solver, nothing executed); role resolution of the arguments through the call chain; comparison-operator check of the membership test"
LEVEL_TEXT = "Real-arithmetic clauses of the slot scheme proved on symbolic forms for ALL runner counts, intervals, margins and positions: pairwise exclusion, margin separation, non-empty window, single-runner shortcut. Floating-point rounding and clock skew are not decided."
LEVEL_NOTE = "Trusted base: Python's ast parser; the checker's interpreter for the statement kinds used in atomic_service.py (anything else is an analysis error, never a silent pass); rational instead of IEEE-754 arithmetic."
DESIGN_REF = "DESIGN.md section 9.6 (C12)"

MOD = "pynenc.orchestrator.atomic_service"
POSITION_FN = "calculate_runner_position"
SIGNS = {"Imin": POS, "Mmin": NONNEG, "N": POS, "p": NONNEG, "t": NONNEG, "tc": NONNEG,
         # N is a positive integer and the window paths have N != 1, hence N - 1 >= 1
         "__positive_forms__": (Poly.sym("N") - Poly.const(1),)}


def T(p: Poly, tree) -> Poly:
    p.tree = tree
    return p


def S(name: str) -> Poly:
    return T(Poly.sym(name), ("sym", name))


class NeedChoice(Exception):
    """max(a, b) / min(a, b) over forms: the statement is re-run once per ordering of a and b"""

    def __init__(self, key: int, a: Poly, b: Poly, kind: str):
        self.key, self.a, self.b, self.kind = key, a, b, kind


class Opaque:
    def __init__(self, tag: str):
        self.tag = tag

    def __repr__(self) -> str:
        return f"<{self.tag}>"


@dataclass
class Member:
    """lo (<|<=) clock % modulus (<|<=) hi"""

    lo: Poly
    lo_strict: bool
    hi: Poly
    hi_strict: bool
    modulus: Poly


@dataclass
class Path:
    facts: list[tuple[Poly, str]] = field(default_factory=list)  # symbolic branch conditions `poly rel 0`
    opaque: list[str] = field(default_factory=list)  # non-arithmetic branch conditions taken
    env: dict = field(default_factory=dict)
    ret: object = None
    done: bool = False
    choices: dict = field(default_factory=dict)  # id(max/min call) -> 0 | 1 (which operand is taken on this path)

    def fork(self) -> "Path":
        return Path(list(self.facts), list(self.opaque), dict(self.env), None, False, dict(self.choices))

    def fork_keep(self) -> "Path":
        return Path(list(self.facts), list(self.opaque), dict(self.env), self.ret, self.done, dict(self.choices))


REL = {ast.Lt: "< 0", ast.LtE: "<= 0", ast.Gt: "> 0", ast.GtE: ">= 0", ast.Eq: "= 0", ast.NotEq: "!= 0"}
NEGREL = {"< 0": ">= 0", "<= 0": "> 0", "> 0": "<= 0", ">= 0": "< 0", "= 0": "!= 0", "!= 0": "= 0"}


class Interp:
    """folds the functions of atomic_service.py into polynomial forms, one Path per branch combination"""

    def __init__(self, ctx: Context):
        self.ctx = ctx
        self.mod = ctx.repo.modules.get(MOD)
        if self.mod is None:
            raise AnalysisError(f"anchor-vanished: module {MOD}")
        self.funcs = dict(self.mod.functions)
        self.modulus: Poly | None = None
        self.inlined: list[str] = []
        self.depth = 0

    # ---- expressions
    def expr(self, e: ast.AST, p: Path):
        if isinstance(e, ast.Constant):
            if isinstance(e.value, bool) or e.value is None:
                return e.value
            if isinstance(e.value, (int, float)):
                return T(Poly.const(Fraction(str(e.value))), ("const", str(e.value)))
            return Opaque("const")
        if isinstance(e, ast.Name):
            if e.id in p.env:
                return p.env[e.id]
            return Opaque(e.id)
        if isinstance(e, ast.UnaryOp) and isinstance(e.op, ast.USub):
            v = self.expr(e.operand, p)
            return T(-v, ("neg", v.tree)) if isinstance(v, Poly) else Opaque("neg")
        if isinstance(e, ast.BinOp):
            a, b = self.expr(e.left, p), self.expr(e.right, p)
            if isinstance(a, Poly) and isinstance(b, Poly):
                tr = lambda op: (op, a.tree, b.tree) if a.tree is not None and b.tree is not None else None  # noqa: E731
                if isinstance(e.op, ast.Add):
                    return T(a + b, tr("+"))
                if isinstance(e.op, ast.Sub):
                    return T(a - b, tr("-"))
                if isinstance(e.op, ast.Mult):
                    return T(a * b, tr("*"))
                if isinstance(e.op, ast.Div):
                    r = a.div(b)
                    if r is None:
                        raise AnalysisError(f"C12: division by zero in `{ast.unparse(e)}`")
                    return T(r, tr("/"))
                if isinstance(e.op, ast.Mod):
                    if a != Poly.sym("t"):
                        raise AnalysisError(f"C12: `%` applied to something else than the clock: {ast.unparse(e)}")
                    if self.modulus is not None and self.modulus != b:
                        raise AnalysisError("C12: two different moduli")
                    self.modulus = b
                    return S("tc")
                raise AnalysisError(f"C12: operator in `{ast.unparse(e)}` is outside the polynomial domain")
            return Opaque("binop")
        if isinstance(e, ast.Call):
            nm = call_name(e)
            if nm == "len" and len(e.args) == 1 and isinstance(self.expr(e.args[0], p), Opaque) and self.expr(e.args[0], p).tag == "RUNNERS":
                return S("N")
            if isinstance(e.func, ast.Name) and nm in self.funcs:
                f = self.funcs[nm]
                if nm == POSITION_FN:
                    return S("p")
                return ("CALL", f, e)
            if nm in ("max", "min") and isinstance(e.func, ast.Name) and len(e.args) == 2 and not e.keywords:
                a, b = self.expr(e.args[0], p), self.expr(e.args[1], p)
                if isinstance(a, Poly) and isinstance(b, Poly):
                    if id(e) not in p.choices:
                        raise NeedChoice(id(e), a, b, nm)
                    return (a, b)[p.choices[id(e)]]
            if nm in ("float", "int") and len(e.args) == 1:
                v = self.expr(e.args[0], p)
                if isinstance(v, Poly) and nm == "float":
                    return v
            return Opaque(f"call:{nm}")
        if isinstance(e, ast.Subscript):
            return Opaque("subscript")
        if isinstance(e, ast.Tuple):
            return tuple(self.expr(x, p) for x in e.elts)
        if isinstance(e, ast.NamedExpr):
            v = self.expr(e.value, p)
            p.env[e.target.id] = v
            return v
        if isinstance(e, ast.Compare):
            return self.compare(e, p)
        if isinstance(e, (ast.Attribute, ast.BoolOp, ast.IfExp, ast.JoinedStr)):
            if isinstance(e, ast.BoolOp) and isinstance(e.op, ast.And):
                parts = [self.expr(v, p) for v in e.values]
                if all(isinstance(x, Member) for x in parts):
                    raise AnalysisError("C12: membership given as a conjunction of two membership tests")
                cmps = [x for x in parts if isinstance(x, tuple) and x and x[0] == "CMP"]
                if len(cmps) == len(parts) == 2:
                    m = _member_from(cmps, self.modulus)
                    if m is not None:
                        return m
            return Opaque("expr")
        return Opaque(type(e).__name__)

    def compare(self, e: ast.Compare, p: Path):
        vals = [self.expr(e.left, p)] + [self.expr(c, p) for c in e.comparators]
        if all(isinstance(v, Poly) for v in vals) and all(type(o) in REL for o in e.ops):
            cmps = [("CMP", vals[i], REL[type(e.ops[i])], vals[i + 1]) for i in range(len(e.ops))]
            if any(Poly.sym("tc") in (c[1], c[3]) for c in cmps):
                m = _member_from(cmps, self.modulus)
                if m is None:
                    raise AnalysisError(f"C12: cannot read `{ast.unparse(e)}` as lower <= clock < upper")
                return m
            if len(cmps) == 1:
                return cmps[0]
        return Opaque("compare")

    # ---- statements
    def call(self, f: FuncInfo, call: ast.Call, caller: Path) -> list[tuple[Path, object]]:
        """inline: returns (continuation path of the caller with facts added, return value)"""
        self.depth += 1
        if self.depth > 6:
            raise AnalysisError("C12: inlining depth")
        self.inlined.append(f.name)
        params = [a.arg for a in f.node.args.args]
        env = {}
        for i, a in enumerate(call.args):
            env[params[i]] = self.expr(a, caller)
        for k in call.keywords:
            if k.arg:
                env[k.arg] = self.expr(k.value, caller)
        defaults = f.node.args.defaults
        for i, d in enumerate(defaults):
            nm = params[len(params) - len(defaults) + i]
            env.setdefault(nm, self.expr(d, caller))
        start = Path(list(caller.facts), list(caller.opaque), env)
        outs = self.block(f.node.body, [start])
        res = []
        for o in outs:
            c = caller.fork()
            c.facts, c.opaque = list(o.facts), list(o.opaque)
            res.append((c, o.ret if o.done else None))
        self.depth -= 1
        return res

    def block(self, stmts: list[ast.stmt], paths: list[Path]) -> list[Path]:
        for st in stmts:
            nxt: list[Path] = []
            for p in paths:
                if p.done:
                    nxt.append(p)
                else:
                    nxt.extend(self.stmt(st, p))
            paths = nxt
            if len(paths) > 256:
                raise AnalysisError("C12: path explosion")
        return paths

    def bind(self, target: ast.AST, value, p: Path) -> None:
        if isinstance(target, ast.Name):
            p.env[target.id] = value
        elif isinstance(target, ast.Tuple) and isinstance(value, tuple) and len(value) == len(target.elts):
            for t, v in zip(target.elts, value):
                self.bind(t, v, p)
        elif isinstance(target, ast.Tuple):
            for t in target.elts:
                self.bind(t, Opaque("unpacked"), p)

    def eval_to_paths(self, e: ast.AST, p: Path) -> list[tuple[Path, object]]:
        v = self.expr(e, p)
        if isinstance(v, tuple) and v and v[0] == "CALL":
            return self.call(v[1], v[2], p)
        return [(p, v)]

    def stmt(self, st: ast.stmt, p: Path) -> list[Path]:
        try:
            return self._stmt(st, p.fork_keep())
        except NeedChoice as c:
            d = c.a - c.b
            first, second = p.fork_keep(), p.fork_keep()
            # max: a if a >= b else b ; min: a if a <= b else b
            if c.kind == "max":
                first.facts.append((d, ">= 0"))
                second.facts.append((d, "< 0"))
            else:
                first.facts.append((d, "<= 0"))
                second.facts.append((d, "> 0"))
            first.choices[c.key], second.choices[c.key] = 0, 1
            return self.stmt(st, first) + self.stmt(st, second)

    def _stmt(self, st: ast.stmt, p: Path) -> list[Path]:
        if isinstance(st, (ast.Assign, ast.AnnAssign)):
            val = st.value
            tgts = st.targets if isinstance(st, ast.Assign) else [st.target]
            if val is None:
                return [p]
            out = []
            for q, v in self.eval_to_paths(val, p):
                for t in tgts:
                    self.bind(t, v, q)
                out.append(q)
            return out
        if isinstance(st, ast.AugAssign) and isinstance(st.target, ast.Name):
            v = self.expr(ast.BinOp(left=ast.Name(id=st.target.id, ctx=ast.Load()), op=st.op, right=st.value), p)
            p.env[st.target.id] = v
            return [p]
        if isinstance(st, ast.Return):
            out = []
            for q, v in (self.eval_to_paths(st.value, p) if st.value is not None else [(p, None)]):
                q.ret, q.done = v, True
                out.append(q)
            return out
        if isinstance(st, ast.If):
            test = st.test
            neg = False
            while isinstance(test, ast.UnaryOp) and isinstance(test.op, ast.Not):
                test, neg = test.operand, not neg
            c = self.expr(test, p) if not isinstance(test, ast.NamedExpr) else (self.expr(test, p), Opaque("walrus"))[1]
            a, b = p.fork(), p.fork()
            a.env, b.env = dict(p.env), dict(p.env)
            if isinstance(c, tuple) and c and c[0] == "CMP":
                d = c[1] - c[3]
                rel = c[2]
                if neg:
                    rel = NEGREL[rel]
                a.facts.append((d, rel))
                b.facts.append((d, NEGREL[rel]))
            elif isinstance(c, Member):
                raise AnalysisError("C12: branching on the membership test is not modelled")
            else:
                txt = ast.unparse(st.test)
                a.opaque.append(txt)
                b.opaque.append(f"not ({txt})")
            return self.block(st.body, [a]) + self.block(st.orelse, [b])
        if isinstance(st, ast.Expr):
            return [p]  # calls for effect (logging / validation) do not change the forms
        if isinstance(st, ast.Try):
            # the position lookup idiom; handlers only return constants
            outs = self.block(st.body, [p.fork()])
            for h in st.handlers:
                hp = p.fork()
                hp.opaque.append(f"except {ast.unparse(h.type) if h.type else ''}")
                outs += self.block(h.body, [hp])
            return self.block(st.finalbody, outs) if st.finalbody else outs
        if isinstance(st, (ast.Pass, ast.Import, ast.ImportFrom, ast.Assert)):
            return [p]
        if isinstance(st, (ast.For, ast.While)):
            assigned = {n.id for x in ast.walk(st) for n in ([x] if isinstance(x, ast.Name) and isinstance(x.ctx, ast.Store) else [])}
            for nme in assigned:
                if isinstance(p.env.get(nme), Poly):
                    raise AnalysisError(f"C12: `{nme}` (an arithmetic form) is modified inside a loop")
                p.env[nme] = Opaque("loop")
            return [p]
        raise AnalysisError(f"C12: statement kind {type(st).__name__} at line {st.lineno} of atomic_service.py is not modelled")


def _is_position_lookup(f: FuncInfo) -> bool:
    """returns the index of the first element of its list argument whose runner_id equals its id argument (else None)"""
    src = [n for n in ast.walk(f.node) if isinstance(n, ast.Call) and call_name(n) == "enumerate"]
    if not src or len(f.params) < 2:
        return False
    rid, lst = f.params[0], f.params[1]
    if not any(isinstance(c.args[0], ast.Name) and c.args[0].id == lst and len(c.args) == 1 for c in src):
        return False
    eqs = [n for n in ast.walk(f.node) if isinstance(n, ast.Compare) and len(n.ops) == 1 and isinstance(n.ops[0], ast.Eq) and rid in names_in(n) and any(isinstance(x, ast.Attribute) and x.attr == "runner_id" for x in ast.walk(n))]
    return bool(eqs)


def _position_kind(f: FuncInfo) -> str:
    """index: position in the list (injective for distinct ids); rank: a count of entries ordered before
    the runner by some attribute (ties share a position); unknown otherwise"""
    if _is_position_lookup(f):
        return "index"
    if any(isinstance(n, ast.Call) and isinstance(n.func, ast.Attribute) and n.func.attr == "index" for n in ast.walk(f.node)):
        return "index"
    for n in ast.walk(f.node):
        if isinstance(n, ast.Call) and isinstance(n.func, ast.Name) and n.func.id in ("sum", "len") and n.args:
            for g in ast.walk(n.args[0]):
                if isinstance(g, ast.comprehension) and any(isinstance(c, ast.Compare) and any(isinstance(o, (ast.Lt, ast.LtE, ast.Gt, ast.GtE)) for o in c.ops) for i_ in g.ifs for c in ast.walk(i_)):
                    return "rank"
    return "unknown"


# ---- floating-point order of evaluation -----------------------------------------------------------


def tree_subst(t, sym: str, repl):
    if t is None:
        return None
    if t[0] == "sym":
        return repl if t[1] == sym else t
    if t[0] == "const":
        return t
    return (t[0],) + tuple(tree_subst(x, sym, repl) for x in t[1:])


def tree_poly(t) -> Poly:
    if t[0] == "sym":
        return Poly.sym(t[1])
    if t[0] == "const":
        return Poly.const(Fraction(t[1]))
    if t[0] == "neg":
        return -tree_poly(t[1])
    a, b = tree_poly(t[1]), tree_poly(t[2])
    if t[0] == "+":
        return a + b
    if t[0] == "-":
        return a - b
    if t[0] == "*":
        return a * b
    r = a.div(b)
    if r is None:
        raise AnalysisError("C12: division by zero in an expression tree")
    return r


def tree_canon(t):
    """IEEE-754 `+` and `*` are commutative (not associative): operands of one node are ordered, nothing else moves"""
    if t is None or t[0] in ("sym",):
        return t
    if t[0] == "const":
        return ("const", str(Fraction(t[1])))
    kids = tuple(tree_canon(x) for x in t[1:])
    if t[0] in ("+", "*"):
        kids = tuple(sorted(kids, key=repr))
    return (t[0],) + kids


def tree_show(t) -> str:
    if t is None:
        return "?"
    if t[0] in ("sym", "const"):
        return t[1]
    if t[0] == "neg":
        return f"-{tree_show(t[1])}"
    return f"({tree_show(t[1])} {t[0]} {tree_show(t[2])})"


def _member_from(cmps: list, modulus: Poly | None) -> Member | None:
    tc = Poly.sym("tc")
    lo = hi = None
    for _, a, rel, b in cmps:
        if rel not in ("< 0", "<= 0", "> 0", ">= 0"):
            return None
        strict = rel in ("< 0", "> 0")
        less = rel in ("< 0", "<= 0")  # a < b
        if b == tc and a != tc:
            if less:
                lo = (a, strict)
            else:
                hi = (a, strict)
        elif a == tc and b != tc:
            if less:
                hi = (b, strict)
            else:
                lo = (b, strict)
        else:
            return None
    if lo is None or hi is None or modulus is None:
        return None
    return Member(lo[0], lo[1], hi[0], hi[1], modulus)


# -------------------------------------------------------------------------------------------------


def _grid():
    for n in (2, 3, 4, 7):
        for i in (Fraction(1, 10), Fraction(1), Fraction(5), Fraction(60)):
            for m in (Fraction(0), Fraction(1, 1000), i / n / 2, i / n * 3 / 4, i / n, i / n * 3, i * 2):
                for pos in range(n):
                    yield {"N": Fraction(n), "Imin": i, "Mmin": m, "p": Fraction(pos), "t": Fraction(0), "tc": Fraction(0)}


def decide(ctx: Context, rule: str, key: str, where: str, p: Poly, rel: str, facts, why: str, need_p_succ: bool = False) -> None:
    """proved by the sign lattice -> held; a rational witness -> violation; neither -> the analysis cannot decide (exit 2)"""
    if proves(p, rel, SIGNS, facts):
        ctx.ok(rule, key, where, f"{p!r} {rel} for all interval > 0, margin >= 0, N > 0, p >= 0" + (f" given {[(repr(q), r) for q, r in facts]}" if facts else ""))
        return
    satisfiable = False
    for env in _grid():
        if need_p_succ and env["p"] + 1 > env["N"] - 1:
            continue
        try:
            if not all(r == "!= 0" and q.at(env) != 0 or r != "!= 0" and holds(q.at(env), r) for q, r in facts):
                continue
            satisfiable = True
            v = p.at(env)
        except (KeyError, ZeroDivisionError):
            continue
        if not holds(v, rel):
            w = {k: str(x) for k, x in env.items() if k in ("N", "Imin", "Mmin", "p")}
            ctx.fail(rule, key, where, f"{why}: {p!r} {rel} fails, e.g. for {w} (value {v})")
            return
    if not satisfiable and facts:
        # the path facts (branch guard + 'the margin fits') exclude each other on the whole grid: nothing to show here
        ctx.ok(rule, key, where, f"vacuous: no sampled configuration satisfies {[(repr(q), r) for q, r in facts]}")
        return
    raise AnalysisError(f"C12: cannot decide `{p!r} {rel}` ({key}): neither proved by the sign lattice nor refuted on the sample grid")


def run(ctx: Context) -> None:
    repo = ctx.repo
    ctx.rule("R1", "roles: should_run_atomic_service passes time(), conf.atomic_service_interval_minutes, conf.atomic_service_spread_margin_minutes and get_active_runners(can_run_atomic_service=True); N = len(that list); p = index of the first entry with the runner's id; both backends order the list by creation time (C16/R3)")
    ctx.rule("R2", "exclusion: for every pair of branches upper(p) <= lower(p+1) (strictly where both ends of the membership test are closed), lower is non-decreasing in p, one modulus for the clock of every runner")
    ctx.rule("R3", "margin: on every branch not guarded by 'the margin does not fit' lower(p+1) - upper(p) >= M and modulus + lower(0) - upper(N-1) >= M")
    ctx.rule("R4", "presence: on every branch upper(p) - lower(p) > 0, lower(p) >= 0, lower(N-1) < modulus; no path denies a listed runner under an arithmetic condition")
    ctx.rule("R5", "a single active runner is always authorised: every path with N = 1 returns True")
    ctx.rule("R6", "floating-point order at touching windows: wherever the real-arithmetic gap between upper(p) and lower(p+1) vanishes with the margin, upper(p) is computed as <the very expression of lower(p+1)> minus non-negative terms (IEEE-754 correctly rounded subtraction is monotone; + and * commute but do not associate)")
    bo = repo.cls("BaseOrchestrator")
    entry = bo.methods.get("should_run_atomic_service")
    if entry is None:
        raise AnalysisError("anchor-vanished: BaseOrchestrator.should_run_atomic_service")
    it = Interp(ctx)
    target = it.funcs.get("can_run_atomic_service")
    if target is None:
        raise AnalysisError("anchor-vanished: atomic_service.can_run_atomic_service")
    calls = [c for c in calls_in(entry.node) if call_name(c) == "can_run_atomic_service"]
    if len(calls) != 1:
        raise AnalysisError("C12: expected exactly one call of can_run_atomic_service in should_run_atomic_service")
    call = calls[0]
    # ---- R1 roles
    from .c01 import _reaching_values

    def role_of(e: ast.AST) -> str:
        if isinstance(e, ast.Name):
            roles_ = {role_of(v) for v in _reaching_values(entry, e.id)}
            if len(roles_) == 1:
                return roles_.pop()  # every definition reaching the call plays the same role
            return "?"
        if isinstance(e, ast.Call) and call_name(e) == "time" and not e.args:
            return "t"
        if isinstance(e, ast.Call) and call_name(e) == "get_active_runners":
            elig = any(k.arg == "can_run_atomic_service" and isinstance(k.value, ast.Constant) and k.value.value is True for k in e.keywords) or (e.args and isinstance(e.args[0], ast.Constant) and e.args[0].value is True)
            return "RUNNERS" if elig else "RUNNERS(unfiltered)"
        if isinstance(e, ast.Attribute) and e.attr == "atomic_service_interval_minutes":
            return "Imin"
        if isinstance(e, ast.Attribute) and e.attr == "atomic_service_spread_margin_minutes":
            return "Mmin"
        if isinstance(e, ast.Attribute) and e.attr == "runner_id":
            return "id"
        return "?"

    params = [a.arg for a in target.node.args.args]
    roles: dict[str, str] = {}
    for i, a in enumerate(call.args):
        roles[params[i]] = role_of(a)
    for k in call.keywords:
        if k.arg:
            roles[k.arg] = role_of(k.value)
    want = {"t", "RUNNERS", "Imin", "Mmin", "id"}
    got = set(roles.values())
    unfiltered = "RUNNERS(unfiltered)" in got
    roles = {k: v.replace("(unfiltered)", "") for k, v in roles.items()}
    ctx.add("R1", "should_run_atomic_service::arguments-are-clock-interval-margin-eligible-runners", got == want and len(roles) == 5, entry.loc(call), "" if got == want else ("the runner list is not restricted to runners eligible for the global services: positions are computed over runners that never ask" if unfiltered else f"roles passed: {roles}"))
    # the two configured quantities reach the arithmetic as configured: a ConfigField maps every assigned value to the TYPE of
    # its default (cistell: `mapper(value, type(default))`), so an int default truncates a configured 0.5 to 0
    for opt in ("atomic_service_interval_minutes", "atomic_service_spread_margin_minutes"):
        decl = None
        for c_ in repo.classes.values():
            if not c_.module.name.startswith("pynenc.conf"):
                continue
            for st in c_.node.body:
                if isinstance(st, (ast.Assign, ast.AnnAssign)):
                    tg = st.targets[0] if isinstance(st, ast.Assign) else st.target
                    if isinstance(tg, ast.Name) and tg.id == opt and isinstance(st.value, ast.Call) and call_name(st.value) == "ConfigField":
                        decl = (c_, st)
        if decl is None:
            raise AnalysisError(f"anchor-vanished: ConfigField declaration of {opt}")
        c_, st = decl
        d0 = st.value.args[0] if st.value.args else None
        okf = isinstance(d0, ast.Constant) and isinstance(d0.value, float)
        ctx.add("R1", f"conf::{opt}::default-is-a-float", okf, f"{c_.module.relpath}:{st.lineno}", "" if okf else f"ConfigField({ast.unparse(d0) if d0 is not None else ''}) - a configured fractional value is cast to {type(d0.value).__name__ if isinstance(d0, ast.Constant) else '?'}: a margin of 0.5 minutes becomes 0 and neighbouring windows touch although a gap was configured")
    if not want <= set(roles.values()):
        raise AnalysisError(f"C12: cannot resolve the roles of the arguments of can_run_atomic_service: {roles}")
    env = {}
    for nme, r in roles.items():
        # the symbols are the configured MINUTES; the code's own `* 60` is folded like any other arithmetic
        env[nme] = {"t": S("t"), "RUNNERS": Opaque("RUNNERS"), "Imin": S("Imin"), "Mmin": S("Mmin"), "id": Opaque("id")}[r]
    posf = it.funcs.get(POSITION_FN)
    if posf is None:
        raise AnalysisError(f"anchor-vanished: atomic_service.{POSITION_FN}")
    kind = _position_kind(posf)
    if kind == "unknown":
        raise AnalysisError(f"C12: cannot classify how {POSITION_FN} derives the position (neither an index into the list nor a rank)")
    ctx.add("R1", "calculate_runner_position::index-of-first-entry-with-the-runner-id", kind == "index", posf.loc(), "" if kind == "index" else "the position is a RANK (count of entries ordered before the runner): entries that tie on the compared attribute - e.g. runners registered by one heartbeat batch share one creation time - get the same position, hence the same window, and are authorised together")
    # ordering of the list in both backends: shared with C16/R3
    from . import c16

    sub = Context("C16", repo, ctx.tier, ctx.seed)
    sub._resolver = ctx._resolver
    c16.run(sub)
    n_ord = 0
    for i in sub.instances:
        if i.rule == "R3" and i.key.split("/", 2)[2].startswith("active-runner"):
            n_ord += 1
            ctx.add("R1", i.key.split("/", 2)[2], i.ok, i.where, i.detail)
    ctx.floor("R1", "active-runner listing obligations", n_ord, 3)

    # the asking runner is in the list it asks about: its own heartbeat is written on every check, and a failed write is an
    # error (shared with C04/R4) - otherwise `position` is computed for a list without the asker
    from . import c04

    sub4 = Context("C04", repo, ctx.tier, ctx.seed)
    sub4._resolver = ctx._resolver
    c04.r4(sub4)
    n_hb = 0
    for i in sub4.instances:
        k_ = i.key.split("/", 2)[2]
        if "own-heartbeat" in k_:
            n_hb += 1
            ctx.add("R1", k_, i.ok, i.where, i.detail)
    ctx.floor("R1", "own-heartbeat obligations", n_hb, 2)
    # ... and every runner computes the list with the same notion of "active": the timeout reaches the cut-off in seconds
    sub4u = Context("C04", repo, ctx.tier, ctx.seed)
    sub4u._resolver = ctx._resolver
    c04.r8(sub4u)
    for i in sub4u.instances:
        ctx.add("R1", i.key.split("/", 2)[2], i.ok, i.where, i.detail)

    # ---- fold can_run_atomic_service
    paths = it.block(target.node.body, [Path(env=env)])
    ctx.analysed["functions_folded"] = sorted(set(it.inlined) | {target.name})
    ctx.analysed["paths"] = len(paths)
    members = []
    seen_m = set()
    for p in paths:
        if p.done and isinstance(p.ret, Member):
            if any(_contradicts(q, r) for q, r in p.facts):
                continue  # the branch condition is unsatisfiable under the sign assumptions: dead branch
            k = (tuple((q, r) for q, r in p.facts), p.ret.lo, p.ret.lo_strict, p.ret.hi, p.ret.hi_strict, p.ret.modulus)
            if k not in seen_m:
                seen_m.add(k)
                members.append(p)
    consts = [p for p in paths if p.done and not isinstance(p.ret, Member)]
    if not members:
        raise AnalysisError("C12: no path of can_run_atomic_service ends in a membership test of the clock")
    if any(not p.done for p in paths):
        raise AnalysisError("C12: a path of can_run_atomic_service falls off the end")
    where = it.funcs["calculate_time_slot"].loc() if "calculate_time_slot" in it.funcs else target.loc()
    twhere = target.loc()
    I, M, N, P = Poly.const(60) * Poly.sym("Imin"), Poly.const(60) * Poly.sym("Mmin"), Poly.sym("N"), Poly.sym("p")
    mods = {m.ret.modulus for m in members}
    ctx.add("R2", "membership::one-modulus-equal-to-the-interval", mods == {I}, twhere, "" if mods == {I} else f"the clock is reduced modulo {sorted(map(repr, mods))}, the slots divide {I!r}")
    lows = {m.ret.lo for m in members}
    if len(lows) != 1:
        raise AnalysisError("C12: the lower end of the window differs between branches (not modelled)")
    low = next(iter(lows))
    if "p" not in low.symbols() and len(members) > 0:
        ctx.fail("R2", "window::lower-end-depends-on-position", where, f"the window start {low!r} does not depend on the runner's position: all runners share one window")
    low_next = low.subst("p", P + Poly.const(1))
    decide(ctx, "R2", "window::starts-increase-with-position", where, low_next - low, ">= 0", [], "windows are not ordered by position")
    arith = lambda fs: [(q, r) for q, r in fs if r != "!= 0"]  # noqa: E731
    branch_names = []
    for bi, m in enumerate(members):
        tag = _branch_tag(m, I, M, N)
        branch_names.append(tag)
        mem = m.ret
        closed_both = (not mem.hi_strict) and (not mem.lo_strict)
        # exclusion against the next position on every branch of the neighbour
        rel = "< 0" if closed_both else "<= 0"
        decide(ctx, "R2", f"window[{tag}]::upper(p)-before-lower(p+1)", where, mem.hi - low_next, rel, arith(_p_facts(m.facts)), "two runners are authorised at the same instant" + (" (both ends of the membership test are closed, so touching windows share an instant)" if closed_both else ""), need_p_succ=True)
        # margin: only claimed for configurations where the margin fits into a slot (slot - margin > 0)
        fits = I.div(N) - M
        exempt = any(q == fits and r in ("<= 0", "< 0") or q == -fits and r in (">= 0", "> 0") for q, r in m.facts)
        if not exempt:
            ff = [(fits, "> 0")]
            decide(ctx, "R3", f"window[{tag}]::margin-to-next-window", where, low_next - mem.hi - M, ">= 0", arith(_p_facts(m.facts)) + ff, "consecutive windows are closer than the configured margin although the margin fits into a slot", need_p_succ=True)
            last_hi = mem.hi.subst("p", N - Poly.const(1))
            first_lo = low.subst("p", Poly.const(0))
            decide(ctx, "R3", f"window[{tag}]::margin-across-the-cycle-boundary", where, mem.modulus + first_lo - last_hi - M, ">= 0", arith(_subst_facts(m.facts, N - Poly.const(1))) + ff, "the last window of a cycle and the first of the next are closer than the configured margin")
        else:
            ctx.ok("R3", f"window[{tag}]::exempt-margin-does-not-fit", where, "branch guarded by slot - margin <= 0")
        # floating point: where the real-arithmetic gap can be zero (margin 0 or tiny), the ORDER upper(p) <= lower(p+1)
        # must survive rounding: upper(p) has to be lower(p+1) minus non-negative terms, evaluated in that order
        gap0 = (mem.hi - low_next).subst("Mmin", Poly())
        if proves(gap0, "< 0", SIGNS, []):
            ctx.ok("R6", f"window[{tag}]::float-order-upper(p)-before-lower(p+1)", where, f"the gap {gap0!r} is a fixed fraction of the slot even without margin: rounding errors (relative 2^-52) cannot close it")
        else:
            ut, lt = mem.hi.tree, tree_subst(mem.lo.tree, "p", ("+", ("sym", "p"), ("const", "1")))
            if ut is None or lt is None:
                raise AnalysisError("C12: the order of evaluation of a window bound was lost (R6)")
            core = ut
            while core[0] == "-" and proves(tree_poly(core[2]), ">= 0", SIGNS, []):
                core = core[1]
            okf = tree_canon(core) == tree_canon(lt)
            ctx.add("R6", f"window[{tag}]::float-order-upper(p)-before-lower(p+1)", okf, where, "" if okf else f"in real arithmetic upper(p) = lower(p+1) - margin, but the floats are computed along different routes: upper(p) = {tree_show(ut)}, lower(p+1) = {tree_show(lt)}; with margin 0 (or tiny) the rounded upper bound can exceed the neighbour's rounded lower bound by one ulp - e.g. 7 runners, 6 minutes: two runners are authorised at the same instant. Computing the upper bound as lower(p+1) minus the margin keeps the order exactly (correctly rounded subtraction of a non-negative number is monotone)")
        # presence
        decide(ctx, "R4", f"window[{tag}]::non-empty", where, mem.hi - mem.lo, "> 0", arith(m.facts), "a runner's window is empty: it never runs the global services")
        decide(ctx, "R4", f"window[{tag}]::starts-at-or-after-cycle-start", where, mem.lo, ">= 0", arith(m.facts), "the window starts before the cycle")
        decide(ctx, "R4", f"window[{tag}]::last-runner-starts-inside-the-cycle", where, mem.lo.subst("p", N - Poly.const(1)) - mem.modulus, "< 0", arith(_subst_facts(m.facts, N - Poly.const(1))), "the last runner's window starts after the end of the cycle")
        half_open = mem.hi_strict or mem.lo_strict
        ctx.add("R2", f"membership[{tag}]::half-open", half_open or proves(mem.hi - low_next, "< 0", SIGNS, arith(m.facts)), twhere, "" if half_open else "both ends of the membership test are closed")
    ctx.analysed["branches"] = branch_names
    # R4: constant-False paths only under accepted non-arithmetic conditions
    n_false = 0
    for c in consts:
        if c.ret is False:
            n_false += 1
            ar = [(q, r) for q, r in c.facts if not (q == N - Poly.const(1) and r == "!= 0")]
            okc = not ar
            ctx.add("R4", f"can_run_atomic_service::denied-only-for-unlisted-runner[exit {n_false}]", okc, twhere, "" if okc else f"a listed runner is denied whenever {[(repr(q), r) for q, r in ar]}: it never gets a window in those configurations")
        elif c.ret is True:
            pass
        elif isinstance(c.ret, Opaque) and c.ret.tag == "compare" or (isinstance(c.ret, tuple) and c.ret and c.ret[0] == "CMP"):
            # the answer on this path is a comparison that does not mention the clock: under the path's (opaque) conditions
            # the runner is authorised whatever the instant is - the window test was bypassed (e.g. the clock was replaced by
            # a window bound before the comparison)
            ctx.fail("R2", f"can_run_atomic_service::answer-is-a-window-test-of-the-clock[{'; '.join(c.opaque)[:80]}]", twhere, f"under `{'; '.join(c.opaque)[:120]}` the function returns a comparison in which the clock does not occur: at those instants the runner is authorised without its window being consulted - with the neighbouring runner still inside its own window two runners are authorised together")
        else:
            raise AnalysisError(f"C12: a path of can_run_atomic_service returns {c.ret!r}")
    # R5 single runner
    single_true = [c for c in consts if c.ret is True and any(q == N - Poly.const(1) and r == "= 0" for q, r in c.facts)]
    others_single = [p for p in members if not any(q == N - Poly.const(1) and r == "!= 0" for q, r in p.facts)]
    ok5 = bool(single_true) and not others_single
    ctx.add("R5", "can_run_atomic_service::single-runner-always-authorised", ok5, twhere, "" if ok5 else "with one active runner the answer depends on the clock (windows shrink by the margin / fall back to half a slot): a single runner is not always authorised")
    unconditional_true = [c for c in consts if c.ret is True and not any(q == N - Poly.const(1) and r == "= 0" for q, r in c.facts)]
    ctx.add("R2", "can_run_atomic_service::authorised-without-window-only-when-alone", not unconditional_true, twhere, "" if not unconditional_true else f"a path returns True without consulting the window: conditions {[(c.opaque, [(repr(q), r) for q, r in c.facts]) for c in unconditional_true][:2]}")
    ctx.floor("R2", "exclusion obligations", ctx.count("R2"), 5)
    ctx.floor("R3", "margin obligations", ctx.count("R3"), 2)
    ctx.floor("R4", "presence obligations", ctx.count("R4"), 6)
    ctx.exhaustive = True
    ctx.assumptions += ["cistell.ConfigField casts an assigned value to the type of the declared default (third-party, read once: `self._mapper(value, type(self._default_value))`)", 
        "interval > 0, margin >= 0 (configuration), N = number of listed runners > 0, 0 <= p <= N-1",
        "R2-R5 over the rationals; R6 adds the one floating-point fact the exclusion needs (order of touching bounds); N < 2^40",
        "all runners are given the same ordered list and read the same clock",
    ]
    ctx.not_decided += [
        "floating-point rounding beyond R6: the width of a window when margin = slot exactly, the margin itself up to one ulp, `time() % interval` at large epoch offsets",
        "runners observing different active-runner lists (heartbeat churn) or skewed clocks",
        "that a runner's services finish inside its window (only warned about at run time)",
    ]


def _contradicts(q: Poly, rel: str) -> bool:
    from ..poly import NEG, NONPOS, ZERO, sign

    s = sign(q, SIGNS)
    return (rel == "<= 0" and s == POS) or (rel == "< 0" and s in (POS, NONNEG, ZERO)) or (rel == ">= 0" and s == NEG) or (rel == "> 0" and s in (NEG, NONPOS, ZERO)) or (rel == "= 0" and s in (POS, NEG)) or (rel == "!= 0" and s == ZERO)


def _branch_tag(m: Path, I: Poly, M: Poly, N: Poly) -> str:
    fits = I.div(N) - M
    for q, r in m.facts:
        if q == fits or q == -fits:
            pos = (q == fits and r in ("> 0", ">= 0")) or (q == -fits and r in ("< 0", "<= 0"))
            return "margin-fits" if pos else "margin-does-not-fit"
    ar = [(repr(q), r) for q, r in m.facts if r != "!= 0"]
    return "always" if not ar else ";".join(f"{q} {r}" for q, r in ar)[:60]


def _p_facts(facts):
    """facts of the path for position p; they also describe the neighbour only when they do not mention p"""
    return [(q, r) for q, r in facts]


def _subst_facts(facts, value: Poly):
    out = []
    for q, r in facts:
        try:
            out.append((q.subst("p", value), r))
        except ValueError:
            continue
    return out
