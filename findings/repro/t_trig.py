from pynenc import PynencBuilder
from pynenc.trigger.trigger_builder import TriggerBuilder
app = PynencBuilder().memory().app_id("triage_trg").build()

def args_exc(ctx): return {"who": str(ctx.invocation_id)}
def args_ev(ctx): return {"n": ctx.payload["n"]}

@app.task
def boom(x: int) -> int:
    raise ValueError(f"boom {x}")

@app.task(triggers=TriggerBuilder().on_exception(boom).with_args_from_exception(args_exc))
def on_boom(who: str = "") -> str:
    return who

@app.task(triggers=TriggerBuilder().on_event("ev").with_args_from_event(args_ev))
def on_ev(n: int = -1) -> int:
    return n

@app.task(triggers=TriggerBuilder().on_event("ev2").on_event("ev3").with_logic("or").with_args_from_event(args_ev))
def on_ev_or(n: int = -1) -> int:
    return n
