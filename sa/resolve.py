"""Light-weight, annotation-driven type inference and call resolution over the ``ast``.

The repository is annotated almost everywhere (it ships ``py.typed`` and is checked with mypy by
its maintainers), so receiver types are recovered from: ``self``, parameter annotations, property
/ method return annotations, class-level annotations, ``self.x: T = ...`` / ``self.x = Ctor()``
assignments and simple local data flow.  Abstract receivers are expanded by class-hierarchy
analysis (every repo override).  Unknown receivers fall back to name-based CHA and are flagged.
"""

from __future__ import annotations

import ast
from dataclasses import dataclass

from .loader import ClassInfo, FuncInfo, ModuleInfo, Repo, walk_no_nested

CONTAINER_NAMES = {
    "list", "set", "frozenset", "Iterator", "Iterable", "Sequence", "deque", "Generator",
    "AsyncGenerator", "AsyncIterator", "AsyncIterable", "List", "Set", "FrozenSet", "Collection",
    "tuple", "Tuple", "MutableSequence", "MutableSet", "AbstractSet", "KeysView", "ValuesView",
}
DICT_NAMES = {"dict", "Dict", "defaultdict", "OrderedDict", "Mapping", "MutableMapping"}
WRAPPER_NAMES = {"Optional", "Final", "ClassVar", "Annotated", "Awaitable", "Coroutine"}


@dataclass(frozen=True)
class Ty:
    classes: frozenset = frozenset()  # of ClassInfo (instances of)
    ext: frozenset = frozenset()  # external / builtin type names
    elem: "Ty | None" = None  # element / value type for containers
    key: "Ty | None" = None  # key type for dicts
    funcs: frozenset = frozenset()  # FuncInfo references (callables)
    ctors: frozenset = frozenset()  # ClassInfo (the class object itself)
    modules: frozenset = frozenset()

    def __bool__(self) -> bool:
        return bool(self.classes or self.ext or self.funcs or self.ctors or self.modules or self.elem)

    def union(self, other: "Ty") -> "Ty":
        if not other:
            return self
        if not self:
            return other
        elem = self.elem.union(other.elem) if self.elem and other.elem else (self.elem or other.elem)
        key = self.key.union(other.key) if self.key and other.key else (self.key or other.key)
        return Ty(
            self.classes | other.classes,
            self.ext | other.ext,
            elem,
            key,
            self.funcs | other.funcs,
            self.ctors | other.ctors,
            self.modules | other.modules,
        )


EMPTY = Ty()


class Resolver:
    def __init__(self, repo: Repo) -> None:
        self.repo = repo
        self._attr_cache: dict[tuple[str, str], Ty] = {}
        self._local_cache: dict[tuple[str, str], Ty] = {}
        self._in_progress: set = set()
        self._call_cache: dict[int, tuple[list[FuncInfo], str]] = {}

    # ------------------------------------------------------------ annotations
    def ann(self, m: ModuleInfo, node: ast.AST | None) -> Ty:
        if node is None:
            return EMPTY
        if isinstance(node, ast.Constant):
            if isinstance(node.value, str):
                try:
                    return self.ann(m, ast.parse(node.value, mode="eval").body)
                except SyntaxError:
                    return EMPTY
            return EMPTY
        if isinstance(node, ast.BinOp) and isinstance(node.op, ast.BitOr):
            return self.ann(m, node.left).union(self.ann(m, node.right))
        if isinstance(node, (ast.Name, ast.Attribute)):
            dotted = ast.unparse(node)
            last = dotted.split(".")[-1]
            tgt = self.repo.resolve_name(m, dotted)
            if isinstance(tgt, ClassInfo):
                return Ty(classes=frozenset([tgt]))
            if last in ("None", "Any", "object"):
                return EMPTY
            return Ty(ext=frozenset([last]))
        if isinstance(node, ast.Subscript):
            head = ast.unparse(node.value).split(".")[-1]
            args = node.slice.elts if isinstance(node.slice, ast.Tuple) else [node.slice]
            if head in WRAPPER_NAMES:
                return self.ann(m, args[0])
            if head == "Union":
                t = EMPTY
                for a in args:
                    t = t.union(self.ann(m, a))
                return t
            if head in CONTAINER_NAMES:
                el = EMPTY
                for a in args[:1] if head not in ("tuple", "Tuple") else args:
                    el = el.union(self.ann(m, a))
                return Ty(ext=frozenset([head]), elem=el or None)
            if head in DICT_NAMES:
                k = self.ann(m, args[0]) if args else EMPTY
                v = self.ann(m, args[1]) if len(args) > 1 else EMPTY
                return Ty(ext=frozenset([head]), elem=v or None, key=k or None)
            if head == "type":
                t = self.ann(m, args[0])
                return Ty(ctors=t.classes)
            return self.ann(m, node.value)
        return EMPTY

    # ------------------------------------------------------------ expressions
    def self_class(self, f: FuncInfo) -> ClassInfo | None:
        g: FuncInfo | None = f
        while g is not None and g.cls is None:
            g = g.parent_func
        return g.cls if g else None

    def expr(self, f: FuncInfo, node: ast.AST, depth: int = 0) -> Ty:
        if depth > 12:
            return EMPTY
        m = f.module
        if isinstance(node, ast.Name):
            return self.name(f, node.id, depth)
        if isinstance(node, ast.Attribute):
            base = self.expr(f, node.value, depth + 1)
            return self.attr_of(base, node.attr, depth)
        if isinstance(node, ast.Call):
            return self.call_result(f, node, depth)
        if isinstance(node, ast.Await):
            return self.expr(f, node.value, depth + 1)
        if isinstance(node, ast.NamedExpr):
            return self.expr(f, node.value, depth + 1)
        if isinstance(node, ast.IfExp):
            return self.expr(f, node.body, depth + 1).union(self.expr(f, node.orelse, depth + 1))
        if isinstance(node, ast.BoolOp):
            t = EMPTY
            for v in node.values:
                t = t.union(self.expr(f, v, depth + 1))
            return t
        if isinstance(node, ast.Subscript):
            base = self.expr(f, node.value, depth + 1)
            if isinstance(node.slice, ast.Slice):
                return base
            return base.elem or EMPTY
        if isinstance(node, (ast.List, ast.Set, ast.Tuple)):
            el = EMPTY
            for e in node.elts:
                el = el.union(self.expr(f, e.value if isinstance(e, ast.Starred) else e, depth + 1))
            kind = {ast.List: "list", ast.Set: "set", ast.Tuple: "tuple"}[type(node)]
            return Ty(ext=frozenset([kind]), elem=el or None)
        if isinstance(node, (ast.ListComp, ast.SetComp, ast.GeneratorExp)):
            kind = {ast.ListComp: "list", ast.SetComp: "set", ast.GeneratorExp: "Iterator"}[type(node)]
            return Ty(ext=frozenset([kind]), elem=self.expr(f, node.elt, depth + 1) or None)
        if isinstance(node, ast.Dict):
            v = EMPTY
            for e in node.values:
                if e is not None:
                    v = v.union(self.expr(f, e, depth + 1))
            return Ty(ext=frozenset(["dict"]), elem=v or None)
        if isinstance(node, ast.DictComp):
            return Ty(ext=frozenset(["dict"]), elem=self.expr(f, node.value, depth + 1) or None)
        if isinstance(node, ast.Constant):
            if isinstance(node.value, str):
                return Ty(ext=frozenset(["str"]))
            return EMPTY
        if isinstance(node, ast.JoinedStr):
            return Ty(ext=frozenset(["str"]))
        if isinstance(node, ast.Lambda):
            return EMPTY
        return EMPTY

    def name(self, f: FuncInfo, ident: str, depth: int = 0) -> Ty:
        key = (f.qualname, ident)
        if key in self._local_cache:
            return self._local_cache[key]
        if key in self._in_progress:
            return EMPTY
        self._in_progress.add(key)
        try:
            t = self._name(f, ident, depth)
        finally:
            self._in_progress.discard(key)
        self._local_cache[key] = t
        return t

    def _name(self, f: FuncInfo, ident: str, depth: int) -> Ty:
        m = f.module
        a = f.node.args
        allargs = a.posonlyargs + a.args + a.kwonlyargs
        if allargs and f.cls is not None and not f.is_static and ident == allargs[0].arg:
            if f.is_classmethod:
                return Ty(ctors=frozenset([f.cls]))
            return Ty(classes=frozenset([f.cls]))
        for arg in allargs + ([a.vararg] if a.vararg else []) + ([a.kwarg] if a.kwarg else []):
            if arg.arg == ident:
                t = self.ann(m, arg.annotation)
                if a.vararg is arg:
                    return Ty(ext=frozenset(["tuple"]), elem=t or None)
                return t
        # local data flow
        t = EMPTY
        found = False
        for n in walk_no_nested(f.node):
            if isinstance(n, ast.Assign):
                for tg in n.targets:
                    if isinstance(tg, ast.Name) and tg.id == ident:
                        found = True
                        declared = self.ann(m, n.sa_annotation) if getattr(n, "sa_annotation", None) is not None else None
                        if declared is not None and getattr(declared, "classes", None):
                            t = t.union(declared)  # a resolvable local annotation wins, as before normalisation
                        else:
                            t = t.union(self.expr(f, n.value, depth + 1))
                    elif isinstance(tg, (ast.Tuple, ast.List)):
                        for i, e in enumerate(tg.elts):
                            if isinstance(e, ast.Name) and e.id == ident:
                                found = True
                                t = t.union(self._unpack(f, n.value, i, depth))
            elif isinstance(n, ast.AnnAssign) and isinstance(n.target, ast.Name) and n.target.id == ident:
                found = True
                t = t.union(self.ann(m, n.annotation))
            elif isinstance(n, ast.NamedExpr) and n.target.id == ident:
                found = True
                t = t.union(self.expr(f, n.value, depth + 1))
            elif isinstance(n, (ast.For, ast.AsyncFor, ast.comprehension)):
                tg = n.target
                it = n.iter
                if isinstance(tg, ast.Name) and tg.id == ident:
                    found = True
                    t = t.union(self._iter_elem(f, it, depth))
                elif isinstance(tg, (ast.Tuple, ast.List)):
                    for i, e in enumerate(tg.elts):
                        if isinstance(e, ast.Name) and e.id == ident:
                            found = True
                            t = t.union(self._iter_unpack(f, it, i, depth))
            elif isinstance(n, (ast.With, ast.AsyncWith)):
                for item in n.items:
                    if isinstance(item.optional_vars, ast.Name) and item.optional_vars.id == ident:
                        found = True
                        ct = self.expr(f, item.context_expr, depth + 1)
                        # __enter__ return annotation if present, else the object itself
                        et = EMPTY
                        for c in ct.classes:
                            en = c.find_method("__enter__")
                            if en is not None:
                                et = et.union(self.ann(en.module, en.node.returns))
                        t = t.union(et or ct)
            elif isinstance(n, ast.ExceptHandler) and n.name == ident and n.type is not None:
                found = True
                types = n.type.elts if isinstance(n.type, ast.Tuple) else [n.type]
                for tp in types:
                    t = t.union(self.ann(m, tp))
        if found:
            return t
        # enclosing function scope
        if f.parent_func is not None:
            return self.name(f.parent_func, ident, depth + 1)
        # module scope
        tgt = self.repo.resolve_name(m, ident)
        if isinstance(tgt, ClassInfo):
            return Ty(ctors=frozenset([tgt]))
        if isinstance(tgt, FuncInfo):
            return Ty(funcs=frozenset([tgt]))
        if isinstance(tgt, ModuleInfo):
            return Ty(modules=frozenset([tgt.name]))
        if ident in m.assigns:
            return self._module_value(m, m.assigns[ident])
        if ident in m.imports:
            # imported module-level variable of another repo module
            mod, _, nm = m.imports[ident].rpartition(".")
            mi = self.repo.modules.get(mod)
            if mi is not None and nm in mi.assigns:
                return self._module_value(mi, mi.assigns[nm])
            return Ty(ext=frozenset([m.imports[ident]]))
        return EMPTY

    def _module_value(self, m: ModuleInfo, value: ast.AST) -> Ty:
        if isinstance(value, ast.Call):
            fn = value.func
            if isinstance(fn, (ast.Name, ast.Attribute)):
                tgt = self.repo.resolve_name(m, ast.unparse(fn))
                if isinstance(tgt, ClassInfo):
                    return Ty(classes=frozenset([tgt]))
                if isinstance(tgt, FuncInfo):
                    return self.ann(tgt.module, tgt.node.returns)
                return Ty(ext=frozenset([ast.unparse(fn).split(".")[-1]]))
        return EMPTY

    def _unpack(self, f: FuncInfo, value: ast.AST, i: int, depth: int) -> Ty:
        if isinstance(value, (ast.Tuple, ast.List)) and i < len(value.elts):
            return self.expr(f, value.elts[i], depth + 1)
        if isinstance(value, ast.Call):
            ct = self.expr(f, value.func, depth + 1)
            t = EMPTY
            for g in ct.funcs:
                r = g.node.returns
                if isinstance(r, ast.Constant) and isinstance(r.value, str):
                    try:
                        r = ast.parse(r.value, mode="eval").body
                    except SyntaxError:
                        r = None
                if (
                    isinstance(r, ast.Subscript)
                    and ast.unparse(r.value).split(".")[-1] in ("tuple", "Tuple")
                    and isinstance(r.slice, ast.Tuple)
                    and i < len(r.slice.elts)
                ):
                    t = t.union(self.ann(g.module, r.slice.elts[i]))
            return t
        return EMPTY

    def _iter_elem(self, f: FuncInfo, it: ast.AST, depth: int) -> Ty:
        # x.items()/values()/keys() on dicts
        if isinstance(it, ast.Call) and isinstance(it.func, ast.Attribute):
            base = self.expr(f, it.func.value, depth + 1)
            if it.func.attr == "values" and base.elem:
                return base.elem
            if it.func.attr == "keys" and base.key:
                return base.key
        if isinstance(it, ast.Call) and isinstance(it.func, ast.Name) and it.func.id in ("list", "sorted", "set", "reversed", "tuple", "iter") and it.args:
            return self._iter_elem(f, it.args[0], depth + 1)
        t = self.expr(f, it, depth + 1)
        if "dict" in t.ext or t.ext & DICT_NAMES:
            return t.key or EMPTY
        return t.elem or EMPTY

    def _iter_unpack(self, f: FuncInfo, it: ast.AST, i: int, depth: int) -> Ty:
        if isinstance(it, ast.Call) and isinstance(it.func, ast.Attribute) and it.func.attr == "items":
            base = self.expr(f, it.func.value, depth + 1)
            if i == 0:
                return base.key or EMPTY
            if i == 1:
                return base.elem or EMPTY
        if isinstance(it, ast.Call) and isinstance(it.func, ast.Name) and it.func.id == "enumerate" and it.args and i == 1:
            return self._iter_elem(f, it.args[0], depth + 1)
        return EMPTY

    # ------------------------------------------------------------ attributes
    def attr_of(self, base: Ty, attr: str, depth: int = 0) -> Ty:
        t = EMPTY
        for c in base.classes:
            t = t.union(self.class_attr(c, attr, depth))
        for c in base.ctors:
            mth = c.find_method(attr)
            if mth is not None:
                t = t.union(Ty(funcs=frozenset([mth])))
            else:
                t = t.union(self.class_attr(c, attr, depth))
        for mn in base.modules:
            tgt = self.repo.lookup(f"{mn}.{attr}")
            if isinstance(tgt, ClassInfo):
                t = t.union(Ty(ctors=frozenset([tgt])))
            elif isinstance(tgt, FuncInfo):
                t = t.union(Ty(funcs=frozenset([tgt])))
            elif isinstance(tgt, ModuleInfo):
                t = t.union(Ty(modules=frozenset([tgt.name])))
            else:
                mi = self.repo.modules.get(mn)
                if mi is not None and attr in mi.assigns:
                    t = t.union(self._module_value(mi, mi.assigns[attr]))
        return t

    def class_attr(self, c: ClassInfo, attr: str, depth: int = 0) -> Ty:
        key = (c.qualname, attr)
        if key in self._attr_cache:
            return self._attr_cache[key]
        if ("A",) + key in self._in_progress:
            return EMPTY
        self._in_progress.add(("A",) + key)
        try:
            t = self._class_attr(c, attr, depth)
        finally:
            self._in_progress.discard(("A",) + key)
        self._attr_cache[key] = t
        return t

    def _class_attr(self, c: ClassInfo, attr: str, depth: int) -> Ty:
        for k in c.mro():
            if attr in k.methods:
                mth = k.methods[attr]
                if mth.is_property:
                    t = self.ann(mth.module, mth.node.returns)
                    # abstract property: union of overrides' annotations
                    if mth.is_abstract:
                        for o in self.repo.overrides(k, attr):
                            t = t.union(self.ann(o.module, o.node.returns))
                    return t
                return Ty(funcs=frozenset([mth]))
            if attr in k.class_annots:
                return self.ann(k.module, k.class_annots[attr])
            # instance attribute assignments in methods of k
            t = EMPTY
            found = False
            for mth in k.methods.values():
                for n in walk_no_nested(mth.node):
                    tgts: list[ast.AST] = []
                    val: ast.AST | None = None
                    annn: ast.AST | None = None
                    if isinstance(n, ast.Assign):
                        tgts, val = n.targets, n.value
                    elif isinstance(n, ast.AnnAssign):
                        tgts, val, annn = [n.target], n.value, n.annotation
                    for tg in tgts:
                        if (
                            isinstance(tg, ast.Attribute)
                            and tg.attr == attr
                            and isinstance(tg.value, ast.Name)
                            and tg.value.id == "self"
                        ):
                            found = True
                            if annn is not None:
                                t = t.union(self.ann(k.module, annn))
                            elif val is not None:
                                t = t.union(self.expr(mth, val, depth + 1))
            if found:
                return t
            if attr in k.class_attrs:
                return self._module_value(k.module, k.class_attrs[attr])
        return EMPTY

    # ------------------------------------------------------------ calls
    def call_result(self, f: FuncInfo, call: ast.Call, depth: int) -> Ty:
        fn = call.func
        if isinstance(fn, ast.Name):
            if fn.id in ("next",) and call.args:
                return self._iter_elem(f, call.args[0], depth) if not isinstance(call.args[0], ast.Call) else (self.expr(f, call.args[0], depth + 1).elem or EMPTY)
            if fn.id in ("list", "set", "sorted", "tuple", "frozenset", "iter", "reversed") and call.args:
                inner = self.expr(f, call.args[0], depth + 1)
                return Ty(ext=frozenset([fn.id if fn.id != "sorted" else "list"]), elem=inner.elem)
            if fn.id == "super":
                sc = self.self_class(f)
                if sc is not None and sc.bases:
                    return Ty(classes=frozenset(sc.bases))
                return EMPTY
            if fn.id == "cast" and len(call.args) == 2:
                return self.ann(f.module, call.args[0])
            if fn.id == "getattr":
                return EMPTY
        ct = self.expr(f, fn, depth + 1)
        t = EMPTY
        for c in ct.ctors:
            t = t.union(Ty(classes=frozenset([c])))
        for g in ct.funcs:
            rt = self.ann(g.module, g.node.returns)
            if g.is_classmethod or g.name == "__new__":
                pass
            if g.is_abstract and g.cls is not None:
                for o in self.repo.overrides(g.cls, g.name):
                    rt = rt.union(self.ann(o.module, o.node.returns))
            t = t.union(rt)
        # dict.get / dict.pop / dict.setdefault / deque.popleft on containers
        if isinstance(fn, ast.Attribute) and fn.attr in ("get", "pop", "setdefault", "popleft", "copy"):
            base = self.expr(f, fn.value, depth + 1)
            if fn.attr == "copy":
                t = t.union(base)
            elif base.elem and not base.classes:
                t = t.union(base.elem)
        if isinstance(fn, ast.Attribute) and fn.attr in ("values",):
            base = self.expr(f, fn.value, depth + 1)
            if base.elem and not base.classes:
                t = t.union(Ty(ext=frozenset(["ValuesView"]), elem=base.elem))
        # Thread / Process constructors etc.
        if not t and isinstance(fn, (ast.Name, ast.Attribute)):
            dotted = ast.unparse(fn)
            last = dotted.split(".")[-1]
            if last[:1].isupper():
                t = Ty(ext=frozenset([last]))
        return t

    def call_targets(self, f: FuncInfo, call: ast.Call) -> tuple[list[FuncInfo], str]:
        """(targets, how) where how in {'exact','cha','name','external','unknown'}."""
        k = id(call)
        if k in self._call_cache:
            return self._call_cache[k]
        r = self._call_targets(f, call)
        self._call_cache[k] = r
        return r

    def _expand(self, meth: FuncInfo) -> list[FuncInfo]:
        out = [meth]
        if meth.cls is not None:
            out.extend(self.repo.overrides(meth.cls, meth.name))
        seen = set()
        res = []
        for o in out:
            if o.qualname not in seen:
                seen.add(o.qualname)
                res.append(o)
        return res

    def _call_targets(self, f: FuncInfo, call: ast.Call) -> tuple[list[FuncInfo], str]:
        fn = call.func
        if isinstance(fn, ast.Name):
            if fn.id == "super":
                return [], "external"
            ct = self.name(f, fn.id)
            out: list[FuncInfo] = []
            for c in ct.ctors:
                init = c.find_method("__init__")
                if init is not None:
                    out.append(init)
                pi = c.find_method("__post_init__")
                if pi is not None:
                    out.append(pi)
            out.extend(ct.funcs)
            for c in ct.classes:  # callable instance
                cm = c.find_method("__call__")
                if cm is not None:
                    out.extend(self._expand(cm))
            if out:
                return out, "exact"
            if ct.ctors:
                return [], "exact"
            return [], "external"
        if isinstance(fn, ast.Attribute):
            attr = fn.attr
            # super().m()
            if isinstance(fn.value, ast.Call) and isinstance(fn.value.func, ast.Name) and fn.value.func.id == "super":
                sc = self.self_class(f)
                if sc is not None:
                    for b in sc.mro()[1:]:
                        if attr in b.methods:
                            return [b.methods[attr]], "exact"
                return [], "external"
            base = self.expr(f, fn.value)
            out = []
            how = "exact"
            for c in base.classes:
                mth = c.find_method(attr)
                if mth is not None:
                    exp = self._expand_from(c, mth)
                    if len(exp) > 1:
                        how = "cha"
                    out.extend(exp)
                else:
                    # maybe defined only in subclasses
                    subs = self.repo.overrides(c, attr)
                    if subs:
                        how = "cha"
                        out.extend(subs)
                    else:
                        at = self.class_attr(c, attr)
                        out.extend(at.funcs)
                        for cc in at.classes:
                            cm = cc.find_method("__call__")
                            if cm is not None:
                                out.extend(self._expand(cm))
            for c in base.ctors:
                mth = c.find_method(attr)
                if mth is not None:
                    out.append(mth)
            for mn in base.modules:
                tgt = self.repo.lookup(f"{mn}.{attr}")
                if isinstance(tgt, FuncInfo):
                    out.append(tgt)
                elif isinstance(tgt, ClassInfo):
                    init = tgt.find_method("__init__")
                    if init is not None:
                        out.append(init)
            if out:
                return _dedupe(out), how
            if base.classes or base.ctors or base.modules:
                return [], "exact"  # typed receiver, method is inherited from outside the repo
            if base.ext or base.elem:
                return [], "external"
            # unknown receiver: name-based CHA
            cands = [m for m in self.repo.methods_named(attr) if not m.is_setter]
            if cands:
                return cands, "name"
            return [], "unknown"
        return [], "unknown"

    def _expand_from(self, c: ClassInfo, meth: FuncInfo) -> list[FuncInfo]:
        out = [meth]
        for s in c.all_subclasses():
            if meth.name in s.methods:
                out.append(s.methods[meth.name])
        return _dedupe(out)

    def property_targets(self, f: FuncInfo, node: ast.Attribute) -> list[FuncInfo]:
        """Properties (incl. cached_property) an attribute *read* may invoke."""
        base = self.expr(f, node.value)
        out: list[FuncInfo] = []
        for c in base.classes:
            mth = c.find_method(node.attr)
            if mth is not None and mth.is_property:
                out.extend(self._expand_from(c, mth))
            elif mth is None:
                for o in self.repo.overrides(c, node.attr):
                    if o.is_property:
                        out.append(o)
        return _dedupe(out)


def _dedupe(xs: list[FuncInfo]) -> list[FuncInfo]:
    seen: set[str] = set()
    out = []
    for x in xs:
        if x.qualname not in seen:
            seen.add(x.qualname)
            out.append(x)
    return out
