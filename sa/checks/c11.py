"""C11 - stopping a runner leaves none of its invocations owned or unqueued.

R1 stop always runs: on_stop in a finally covering the loop; the loop reads the flag the signal
   handler clears; on_stop reaches the subclass _on_stop
R2 every tracked invocation is released (ThreadRunner): the whole thread table is visited, every
   entry is killed-and-rerouted on every path, live threads before being joined
R3 kill-and-reroute is complete: KILLED -> REROUTED -> queue on the same id, only status errors
   are swallowed, KILLED is an edge from every owned status
R4 every claimed invocation is tracked in the thread table or re-routed (typestate engine)
R5 the stop path does not wait unboundedly
"""

from __future__ import annotations

import ast

from ..flow import (ExcHierarchy, call_name, calls_in, cfg_node_of, derived_names, func_cfg, names_in,
                    parent_map, self_attr)
from ..loader import AnalysisError, FuncInfo, walk_no_nested
from ..report import Context
from ..statusmodel import extract
from ..typestate import Budget, Engine, Inv, IState, State
from . import c01

PROPERTY = "C11"
TECHNIQUE = "static analysis: try/finally structure, CFG must-pass-through and dominance in the stop handler, typestate path enumeration of claim-to-track and kill-and-reroute, unbounded-wait detection over the intra-class call graph"


def r1(ctx: Context) -> None:
    ctx.rule("R1", "BaseRunner.run executes on_stop in a finally that covers the whole loop; the loop condition reads self.running, which stop_runner_loop (registered for SIGINT/SIGTERM) clears; on_stop calls self._on_stop")
    base = ctx.repo.cls("BaseRunner")
    run = base.methods.get("run")
    if run is None:
        raise AnalysisError("anchor-vanished: BaseRunner.run")
    tries = [n for n in walk_no_nested(run.node) if isinstance(n, ast.Try) and n.finalbody]
    ok = False
    cond_ok = False
    for t in tries:
        fin_calls = [call_name(c) for st in t.finalbody for c in ast.walk(st) if isinstance(c, ast.Call)]
        loops = [n for st in t.body for n in ast.walk(st) if isinstance(n, ast.While)]
        if "on_stop" in fin_calls and loops:
            ok = True
            cond_ok = all(ast.unparse(l.test) == "self.running" for l in loops)
    ctx.add("R1", "run::on_stop-in-finally-around-loop", ok, run.loc(), "" if ok else "on_stop is not in a finally clause covering the run loop: an exception or KeyboardInterrupt would skip the release of claimed invocations")
    ctx.add("R1", "run::loop-reads-running-flag", cond_ok, run.loc(), "" if cond_ok else "the loop condition is not `self.running`")
    # handlers that swallow and continue looping would still be fine; a bare `return` before finally is fine too
    srl = base.methods.get("stop_runner_loop")
    ok = srl is not None and any(isinstance(n, ast.Assign) and ast.unparse(n.targets[0]) == "self.running" and ast.unparse(n.value) == "False" for n in walk_no_nested(srl.node))
    ctx.add("R1", "stop_runner_loop::clears-running", bool(ok), srl.loc() if srl else "", "" if ok else "stop_runner_loop does not set self.running = False")
    # the clearing is not skipped by a failing diagnostics call: it is outside / after the try
    if srl is not None:
        g = func_cfg(ctx.repo, srl)
        pm = parent_map(srl.node)
        dom = g.dominators(exc_edges=True)
        asg = [n for n in walk_no_nested(srl.node) if isinstance(n, ast.Assign) and ast.unparse(n.targets[0]) == "self.running"]
        okd = bool(asg) and all(nd.id in dom.get(g.exit, set()) for a in asg for nd in cfg_node_of(g, srl.node, a, pm))
        ctx.add("R1", "stop_runner_loop::clears-running-on-every-path", okd, srl.loc(), "" if okd else "some path through stop_runner_loop (e.g. failing diagnostics) returns without clearing the flag")
    ons = base.methods.get("on_start")
    regs = [c for c in calls_in(ons.node) if call_name(c) == "signal" and len(c.args) == 2 and ast.unparse(c.args[1]) == "self.stop_runner_loop"] if ons else []
    sigs = {ast.unparse(c.args[0]).split(".")[-1] for c in regs}
    ctx.add("R1", "on_start::signals-registered", {"SIGINT", "SIGTERM"} <= sigs, ons.loc() if ons else "", "" if {"SIGINT", "SIGTERM"} <= sigs else f"registered: {sorted(sigs)}")
    ost = base.methods.get("on_stop")
    ok = ost is not None and any(call_name(c) == "_on_stop" for c in calls_in(ost.node))
    ctx.add("R1", "on_stop::calls-subclass-_on_stop", bool(ok), ost.loc() if ost else "", "" if ok else "on_stop does not call self._on_stop()")
    if ost is not None:
        g = func_cfg(ctx.repo, ost)
        pm = parent_map(ost.node)
        dom = g.dominators(exc_edges=False)
        cs = [c for c in calls_in(ost.node) if call_name(c) == "_on_stop"]
        okd = bool(cs) and all(nd.id in dom.get(g.exit, set()) for c in cs for nd in cfg_node_of(g, ost.node, c, pm))
        ctx.add("R1", "on_stop::_on_stop-unconditional", okd, ost.loc(), "" if okd else "_on_stop is skipped on some path of on_stop")


def thread_runner(ctx: Context):
    tr = ctx.repo.cls("ThreadRunner")
    f = tr.methods.get("_on_stop")
    if f is None:
        raise AnalysisError("anchor-vanished: ThreadRunner._on_stop")
    return tr, f


def _ancestors_of(pm, node):
    cur = pm.get(id(node))
    while cur is not None:
        yield cur
        cur = pm.get(id(cur))


def r2(ctx: Context) -> None:
    ctx.rule("R2", "ThreadRunner._on_stop iterates the whole thread table; on every path of the loop body _kill_and_reroute is called for that entry's invocation; for a thread that is alive it is called before join() (after join the task may have completed and KILLED would be rejected)")
    tr, f = thread_runner(ctx)
    loops = [n for n in walk_no_nested(f.node) if isinstance(n, ast.For)]
    table_loops = [l for l in loops if self_attr(l.iter) == "threads" and isinstance(l.iter, ast.Call) and call_name(l.iter) in ("values", "items")]
    table_loops += [l for l in loops if isinstance(l.iter, ast.Call) and call_name(l.iter) == "list" and l.iter.args and self_attr(l.iter.args[0]) == "threads"]
    ok = len(table_loops) == 1 and not any(isinstance(n, (ast.Break,)) for n in ast.walk(table_loops[0]))
    ctx.add("R2", f"{f.qualname}::visits-whole-thread-table", ok, f.loc(), "" if ok else "the stop handler does not iterate over every entry of self.threads (or leaves the loop early)")
    if not table_loops:
        return
    loop = table_loops[0]
    g = func_cfg(ctx.repo, f)
    pm = parent_map(f.node)
    lv = names_in(loop.target)
    dn = derived_names(loop, lv)
    kills = [c for c in calls_in(loop) if call_name(c) == "_kill_and_reroute" and c.args and names_in(c.args[0]) & dn]
    head = [n for n in g.nodes if n.kind == "for" and n.ast is loop]
    if not head:
        raise AnalysisError("loop head not found in CFG")
    h = head[0]
    kn = set()
    for c in kills:
        for n in cfg_node_of(g, f.node, c, pm):
            kn.add(n.id)
    # every path from the body entry back to the head passes a kill node
    body_entry = [s for s, lab in g.succ[h.id] if lab == "true"]
    bad = False
    for b in body_entry:
        seen = set()
        stack = [b]
        while stack:
            x = stack.pop()
            if x in seen or x in kn:
                continue
            seen.add(x)
            if x == h.id:
                bad = True
                break
            for s, lab in g.succ[x]:
                if lab != "exc":
                    stack.append(s)
    ok = bool(kills) and not bad
    ctx.add("R2", f"{f.qualname}::every-entry-killed-and-rerouted", ok, f.loc(loop), "" if ok else "some path through the loop body skips _kill_and_reroute for the entry's invocation: it stays PENDING/RUNNING under the stopped runner")
    # the argument is the invocation id of the entry
    for c in kills:
        ok = ast.unparse(c.args[0]).endswith(".invocation_id") or ast.unparse(c.args[0]) in dn
        ctx.add("R2", f"{f.qualname}::kill-arg-is-entry-invocation", ok, f.loc(c), "" if ok else ast.unparse(c.args[0]))
    # alive branch: kill dominates join
    # (polarity-aware: the alive edge of `if t.is_alive()` is 'true', of `if not t.is_alive()` it is 'false')
    tests = []
    for n in g.nodes:
        if n.kind == "test" and n.ast is not None and any(a is loop for a in _ancestors_of(pm, n.ast)):
            t = n.ast
            neg = False
            while isinstance(t, ast.UnaryOp) and isinstance(t.op, ast.Not):
                t, neg = t.operand, not neg
            if isinstance(t, ast.Call) and call_name(t) == "is_alive":
                tests.append((n, "false" if neg else "true"))
    if not tests:
        ctx.fail("R2", f"{f.qualname}::alive-branch", f.loc(loop), "no `if <thread>.is_alive()` distinction")
        return
    jn = {n.id for c in calls_in(loop) if call_name(c) == "join" for n in cfg_node_of(g, f.node, c, pm)}
    bad_join = None
    for tn, alive_label in tests:
        stack = [s for s, lab in g.succ[tn.id] if lab == alive_label]
        seen = set()
        while stack:
            x = stack.pop()
            if x in seen or x in kn or x == h.id:
                continue
            seen.add(x)
            if x in jn:
                bad_join = g.nodes[x]
                break
            stack.extend(s for s, lab in g.succ[x] if lab != "exc")
    ok = bool(kn) and bad_join is None
    ctx.add("R2", f"{f.qualname}::live-thread-rerouted-before-join", ok, f.loc(bad_join.ast) if bad_join is not None and bad_join.ast is not None else f.loc(loop), "" if ok else "a live thread is joined before its invocation is killed-and-rerouted: the task can finish (or hang) first and the invocation is not released")


def r3(ctx: Context, sm) -> None:
    ctx.rule("R3", "_kill_and_reroute: every path returns normally; whenever the KILLED request succeeded the same id is REROUTED and queued; only status errors are swallowed; KILLED is an edge from every owned status and KILLED leads to REROUTED")
    repo = ctx.repo
    f = repo.cls("BaseRunner").methods.get("_kill_and_reroute")
    if f is None:
        raise AnalysisError("anchor-vanished: BaseRunner._kill_and_reroute")
    eng = Engine(repo, ctx.resolver, sm, loop_k=2)
    st = State()
    tok = st.fresh(IState(frozenset({"PENDING", "RUNNING"}) | frozenset(sm.final), own=False, responsible=True), "t")
    res = eng.run(f, {f.params[1]: Inv(tok)}, st)
    if len(res) < 2:
        raise AnalysisError("anchor-vanished: _kill_and_reroute enumerates fewer than two paths")
    bad_raise = [o for s, o in res if o.kind == "raise"]
    ctx.add("R3", f"{f.qualname}::never-raises-status-errors", not bad_raise, f.loc(), "" if not bad_raise else f"{len(bad_raise)} paths raise {sorted({o.exc.cls for o in bad_raise if o.exc})}: one failing entry would abort the stop handler and leave the remaining invocations owned")
    incomplete = 0
    succeeded = 0
    for s, o in res:
        ks = [(e.kind, e.detail) for e, _ in s.trace if e.tok == tok]
        if ("S", "KILLED") in ks:
            succeeded += 1
            i = ks.index(("S", "KILLED"))
            rest = ks[i + 1:]
            if ("S", "REROUTED") not in rest or ("Q+", "") not in rest or rest.index(("S", "REROUTED")) > rest.index(("Q+", "")):
                incomplete += 1
    ctx.add("R3", f"{f.qualname}::killed-implies-rerouted-and-queued", succeeded > 0 and incomplete == 0, f.loc(), "" if succeeded > 0 and incomplete == 0 else f"{incomplete} of {succeeded} paths with a successful KILLED do not continue to REROUTED and the queue (KILLED is not an available status and no recovery scans it)")
    hier = ExcHierarchy(repo)
    for n in walk_no_nested(f.node):
        if isinstance(n, ast.ExceptHandler):
            names = hier.handler_names(n)
            ok = all(hier.is_sub(x, "InvocationStatusError") for x in names)
            ctx.add("R3", f"{f.qualname}::handler::{'+'.join(names)}", ok, f.loc(n), "" if ok else "a broader exception class is swallowed")
    ok = sm.owned <= sm.preds("KILLED")
    ctx.add("R3", "table::KILLED-from-every-owned-status", ok, sm.module.relpath, "" if ok else f"KILLED not reachable from {sorted(sm.owned - sm.preds('KILLED'))}")
    ok = sm.succs("KILLED") == {"REROUTED"} and "PENDING" in sm.succs("REROUTED") and sm.defs["REROUTED"]["available_for_run"] and sm.defs["REROUTED"]["releases_ownership"] and sm.defs["KILLED"]["releases_ownership"]
    ctx.add("R3", "table::KILLED->REROUTED-available-no-owner", ok, sm.module.relpath, "" if ok else "KILLED / REROUTED do not release ownership or REROUTED is not available")


def r4(ctx: Context, sm) -> None:
    ctx.rule("R4", "ThreadRunner.runner_loop_iteration: on every path every invocation obtained from get_invocations_to_run (claimed PENDING) is entered in the thread table or re-routed and queued, including the exception edge of Thread.start")
    repo = ctx.repo
    tr = repo.cls("ThreadRunner")
    f = tr.methods.get("runner_loop_iteration")
    if f is None:
        raise AnalysisError("anchor-vanished: ThreadRunner.runner_loop_iteration")
    eng = Engine(repo, ctx.resolver, sm, loop_k=1 if ctx.tier == "quick" else 2)
    try:
        res = eng.run(f, {}, State())
    except Budget:
        raise AnalysisError("path budget exceeded")
    ctx.analysed["loop_paths"] = len(res)
    bad: dict[str, tuple[str, list[str]]] = {}
    claimed = 0
    for s, o in res:
        toks = {e.tok for e, _ in s.trace if e.kind == "S" and e.detail == "PENDING"}
        for t in toks:
            claimed += 1
            evs = [(e.kind, e.detail) for e, _ in s.trace if e.tok == t]
            i = evs.index(("S", "PENDING"))
            rest = [k for k, _ in evs[i + 1:]]
            if "TRACK" in rest or "Q+" in rest:
                continue
            how = o.kind + (f":{o.exc.cls}" if o.exc else "")
            last = [e for e, _ in s.trace if e.tok == t][-1]
            # a claimed invocation that the consumer never received (the poll raised before yielding it)
            key = f"{f.qualname}::claimed-not-tracked::after={last.kind}::exit={how}"
            bad.setdefault(key, (f"an invocation claimed PENDING by this runner is neither entered in self.threads nor rerouted when the iteration ends by {how} (last event on it: {last.kind} at {last.loc()}); on stop it is not released", [f"{e.loc()} {e.kind}[{e.tok}]({e.detail})" for e, _ in s.trace]))
    # the thread table only ever holds STARTED threads: an entry made for a thread whose start() failed would be joined on
    # stop / reclaim ("cannot join thread before it is started") and abort the stop handler for everything after it
    ghost = None
    for s, o in res:
        for t in {e.tok for e, _ in s.trace if e.kind == "SPAWN!"}:
            evs = [e for e, _ in s.trace if e.tok == t]
            kinds = [e.kind for e in evs]
            if "TRACK" in kinds and kinds.index("TRACK") < kinds.index("SPAWN!") and "UNTRACK" not in kinds[kinds.index("SPAWN!"):]:
                ghost = evs[kinds.index("TRACK")]
    ctx.add("R4", f"{f.qualname}::only-started-threads-are-tracked", ghost is None, ghost.loc() if ghost else f.loc(), "" if ghost is None else "the invocation is entered in self.threads before Thread.start(); when start() raises, the handler re-routes the invocation but the never-started thread stays in the table: _on_stop / _reclaim_available_slots call join() on it, which raises, and every invocation after it stays owned by the stopped runner")
    ctx.add("R4", f"{f.qualname}::claimed-paths-enumerated", claimed > 0, f.loc(), f"{claimed} claims over {len(res)} paths")
    if not bad:
        ctx.ok("R4", f"{f.qualname}::every-claim-tracked-or-rerouted", f.loc())
    for k, (d, p) in sorted(bad.items()):
        ctx.fail("R4", k, f.loc(), d, p)
    # the table entry is written under the invocation's id with the invocation itself
    for n in walk_no_nested(f.node):
        if isinstance(n, ast.Assign) and any(isinstance(t, ast.Subscript) and self_attr(t) == "threads" for t in n.targets):
            t = n.targets[0]
            ok = ast.unparse(t.slice).endswith(".invocation_id") and isinstance(n.value, ast.Call) and len(n.value.args) == 2 and ast.unparse(n.value.args[1]) == ast.unparse(t.slice).rsplit(".", 1)[0]
            ctx.add("R4", f"{f.qualname}::table-entry-keyed-by-own-id", ok, f.loc(n), "" if ok else ast.unparse(n)[:80])
    # finished threads are forgotten only when not alive
    rc = tr.methods.get("_reclaim_available_slots")
    if rc is not None:
        ok = any(isinstance(n, ast.If) and "is_alive()" in ast.unparse(n.test) for n in walk_no_nested(rc.node))
        ctx.add("R4", f"{rc.qualname}::forgets-only-dead-threads", ok, rc.loc(), "" if ok else "entries are dropped from the thread table without an is_alive() test")


def r5(ctx: Context) -> None:
    ctx.rule("R5", "every join()/wait() reachable from a runner's _on_stop has a timeout, follows a kill() of the same process, or the awaited worker observes the runner's stop flag")
    from .c14 import intra_reach

    repo = ctx.repo
    base = repo.cls("BaseRunner")
    n = 0
    for c in base.all_subclasses():
        f = c.methods.get("_on_stop")
        if f is None or f.is_abstract or f.body_is_trivial():
            continue
        reach = intra_reach(c, f)
        for mname in reach:
            m = c.find_method(mname)
            if m is None:
                continue
            for call in calls_in(m.node):
                if call_name(call) in ("join", "wait") and isinstance(call.func, ast.Attribute) and not isinstance(call.func.value, ast.Constant):
                    recv = ast.unparse(call.func.value)
                    if recv.startswith(("'", '"')) or "path" in recv:
                        continue
                    # key by the attribute path, not by the name of the local variable holding the object
                    root = call.func.value
                    while isinstance(root, (ast.Attribute, ast.Subscript, ast.Call)):
                        root = root.value if not isinstance(root, ast.Call) else root.func
                    recv_key = recv[len(root.id):] if isinstance(root, ast.Name) and root.id != "self" else recv
                    recv_key = recv_key or "<local>"
                    n += 1
                    timed = bool(call.args) or any(k.arg == "timeout" for k in call.keywords)
                    after_kill = False
                    if not timed:
                        g = func_cfg(repo, m)
                        pm = parent_map(m.node)
                        dom = g.dominators(exc_edges=False)
                        kills = [k for k in calls_in(m.node) if call_name(k) == "kill" and ast.unparse(k.func.value) == recv]
                        jn = cfg_node_of(g, m.node, call, pm)
                        # joined right after kill() (either dominated by it, or kill is attempted in a try just before)
                        after_kill = bool(kills) and all(any(kn.id < j.id for k in kills for kn in cfg_node_of(g, m.node, k, pm)) for j in jn)
                    ok = timed or after_kill
                    ctx.add("R5", f"{m.qualname}::{call_name(call)}({recv_key})", ok, m.loc(call),
                            "" if ok else f"{recv}.{call_name(call)}() without timeout on the stop path: a task thread whose result-wait loop only tests the awaited invocation's status (DistributedInvocation.result) never ends once the runner stopped polling, so the stop never completes and the remaining entries are never released")
    ctx.floor("R5", "waits on stop paths", n, 3)
    # does the result-wait loop observe the stop flag? (reported as part of the same finding)
    di = repo.cls("DistributedInvocation")
    res = di.methods.get("result")
    if res is not None:
        obs = any("running" in ast.unparse(n.test) for n in walk_no_nested(res.node) if isinstance(n, ast.While))
        ctx.analysed["result_wait_loop_observes_stop_flag"] = obs


def r6(ctx: Context) -> None:
    """stop_runner_loop runs wherever the stop request arrives: in a signal handler on top of the loop thread's current
    frame, or in another thread.  What it calls must neither touch the loop's registries nor throw into the loop."""
    from ..flow import mem_store_writes

    ctx.rule("R6", "the stop REQUEST is passive: the diagnostics hook (_log_shutdown) of every runner writes no attribute that the loop or the stop sequence maintain, directly or through the self-methods it calls (the registry of running work is maintained by the loop thread alone - a concurrent rebuild drops a thread registered in between, and _on_stop then neither kills nor re-routes its invocation); and no executable runner's _log_shutdown / _on_stop_runner_loop raises (an exception thrown from the signal handler unwinds the loop thread from an arbitrary point - after an invocation was claimed, before it was registered)")
    base = ctx.repo.cls("BaseRunner")

    def closure(c, name: str, depth: int = 3) -> list[FuncInfo]:
        out: list[FuncInfo] = []
        seen: set[str] = set()
        work = [(name, 0)]
        while work:
            n_, d_ = work.pop()
            if n_ in seen:
                continue
            seen.add(n_)
            m = c.find_method(n_)
            if m is None:
                continue
            out.append(m)
            if d_ < depth:
                for cc in calls_in(m.node):
                    if isinstance(cc.func, ast.Attribute) and isinstance(cc.func.value, ast.Name) and cc.func.value.id == "self":
                        work.append((cc.func.attr, d_ + 1))
        return out

    n = 0
    for c in [base] + base.all_subclasses():
        if not c.module.name.startswith("pynenc."):
            continue
        executable = not any(isinstance(x, ast.Raise) and "RunnerNotExecutableError" in ast.unparse(x) for m_ in [c.find_method("runner_loop_iteration")] if m_ is not None for x in walk_no_nested(m_.node))
        n += 1
        shared = {w.attr for e_ in ("runner_loop_iteration", "_on_stop", "_on_stop_runner_loop", "_waiting_for_results") for m in closure(c, e_) for w in mem_store_writes(m.node)}
        ws = [(m, w) for m in closure(c, "_log_shutdown") for w in mem_store_writes(m.node) if w.attr in shared]
        ctx.add("R6", f"{c.qualname}::_log_shutdown::writes-nothing", not ws, ws[0][0].loc(ws[0][1].node) if ws else c.module.relpath, "" if not ws else f"{ws[0][0].name} changes self.{ws[0][1].attr} ({ws[0][1].how}) on the stop-request path: the request can arrive in another thread (or on top of the loop's own frame) while the loop maintains that attribute - a thread started and registered in between is lost from the registry, its invocation stays RUNNING with no runner behind it")
        if executable:
            for hook in ("_log_shutdown", "_on_stop_runner_loop"):
                m = c.methods.get(hook)
                if m is None:
                    continue
                rs = [x for x in walk_no_nested(m.node) if isinstance(x, ast.Raise)]
                ctx.add("R6", f"{m.qualname}::does-not-raise", not rs, m.loc(rs[0]) if rs else m.loc(), "" if not rs else f"`{ast.unparse(rs[0])[:50]}` in a hook of stop_runner_loop: for a real signal it is thrown inside whatever the loop thread was doing - between claiming an invocation (PENDING) and registering its thread, say - and that invocation is in nobody's registry when _on_stop runs")
    ctx.floor("R6", "runner classes", n, 5)


def run(ctx: Context) -> None:
    sm = extract(ctx.repo)
    r1(ctx)
    r2(ctx)
    r3(ctx, sm)
    r4(ctx, sm)
    r5(ctx)
    r6(ctx)
    ctx.exhaustive = True
    ctx.not_decided += [
        "'the stop completes' as a liveness statement beyond R5",
        "interleavings of the loop thread and the task threads (R2's ordering rule is their necessary condition)",
        "process-based runners: sibling _on_stop handlers are covered by R5 only",
    ]
