# C16/R15: get_matching_runner_contexts(partial_id): the in-memory backend tests `partial_id in runner_id` (literal,
# case-sensitive), the SQLite backend binds f"%{partial_id}%" into LIKE: `_` and `%` in the searched text are wildcards
# and ASCII case is ignored.  The same search returns different runner sets.  Documentation only.
import logging, sys
logging.disable(logging.CRITICAL)
from pynenc.runner.runner_context import RunnerContext
import t_r11

def ctx(rid):
    return RunnerContext(runner_cls="ThreadRunner", runner_id=rid, pid=1, hostname="h", thread_id=1)

out = {}
for kind in ("mem", "sqlite"):
    app = t_r11.app_mem if kind == "mem" else t_r11.app_sql
    app.purge()
    sb = app.state_backend
    for rid in ("ThreadRunner@host-a_1", "ThreadRunner@host-ab1", "procrunner@host-c"):
        sb.store_runner_context(ctx(rid))
    out[kind] = {q: sorted(c.runner_id for c in sb.get_matching_runner_contexts(q)) for q in ("a_1", "threadrunner", "100%")}
print(out)
sys.exit(0 if out["mem"] == out["sqlite"] else 1)
