# C02/R3: check-then-insert on the per-invocation lock table -> two claimers, two locks, both claim
import t_tasks as T, threading
from pynenc.invocation.status import InvocationStatus as S
from pynenc.runner.runner_context import RunnerContext
app=T.app; app.purge()
inv=T.add(1); iid=inv.invocation_id
orch=app.orchestrator
barrier=threading.Barrier(2)
class RacyDict(dict):
    # schedule: both threads evaluate `invocation_id not in self.locks` before either inserts
    def __contains__(self,k):
        r=dict.__contains__(self,k); 
        try: barrier.wait(timeout=2)
        except Exception: pass
        return r
orch.locks=RacyDict()
# and make both threads overlap inside the critical section: slow down the validator read
import pynenc.orchestrator.mem_orchestrator as M
orig=M.status_record_transition
inside=threading.Barrier(2)
def slow(prev,status,rid):
    try: inside.wait(timeout=2)      # both threads are inside "their" lock at the same time
    except Exception: pass
    return orig(prev,status,rid)
M.status_record_transition=slow
res={}
def claim(name):
    try:
        orch.set_invocation_status(iid, S.PENDING, RunnerContext(name)); res[name]="CLAIMED"
    except Exception as e: res[name]=type(e).__name__
ts=[threading.Thread(target=claim,args=(n,)) for n in ("A","B")]
[t.start() for t in ts]; [t.join() for t in ts]
print(res, "-> final owner:", orch.get_invocation_status_record(iid).runner_id[:1] if orch.get_invocation_status_record(iid).runner_id else None)
app.state_backend.wait_for_all_async_operations()
print("history:", [h.status_record.status.name+"@"+h.runner_context_id[:1] for h in app.state_backend.get_history(iid)])
