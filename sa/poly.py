"""A small abstract domain for arithmetic code: exact polynomial forms over named symbols with a
sign lattice.

Values are polynomials with rational coefficients over symbols whose sign is known by assumption
(e.g. interval > 0, margin >= 0).  Division by a symbol `N` is represented by a companion symbol
`inv(N)` with the rewrite N * inv(N) = 1.  The only questions asked of a polynomial are

  * is it identically zero / syntactically identical to another one (normal form comparison), and
  * does the sign lattice decide its sign: every monomial has the sign of its coefficient (strict
    when all its symbols are strictly positive), a sum of same-signed monomials keeps that sign.

No solver is involved and nothing of the analysed program is executed: the interpreter in
checks/c12.py folds the statements of the analysed functions into these forms path by path.
`Poly.at()` substitutes rationals for the symbols; it is used only to exhibit a counter-example
for an obligation the sign lattice could not prove (so that "not proven" is never reported as a
violation without a witness).
"""

from __future__ import annotations

from fractions import Fraction
from typing import Iterable

Mono = tuple[tuple[str, int], ...]
INV: dict[str, "Poly"] = {}  # inverse symbol of a compound divisor -> the divisor


def _inv(sym: str) -> str:
    return f"inv({sym})"


def _norm(m: dict[str, int]) -> Mono:
    # N * inv(N) = 1
    for s in list(m):
        if s.startswith("inv("):
            continue
        i = _inv(s)
        if s in m and i in m:
            k = min(m[s], m[i])
            m[s] -= k
            m[i] -= k
    return tuple(sorted((s, e) for s, e in m.items() if e))


class Poly:
    __slots__ = ("terms", "tree")

    def __init__(self, terms: dict[Mono, Fraction] | None = None):
        self.terms = {m: c for m, c in (terms or {}).items() if c != 0}
        self.tree = None  # optional: the expression tree the form was folded from (floating-point order of evaluation)

    @staticmethod
    def const(c) -> "Poly":
        return Poly({(): Fraction(c)})

    @staticmethod
    def sym(s: str) -> "Poly":
        return Poly({((s, 1),): Fraction(1)})

    def __add__(self, o: "Poly") -> "Poly":
        t = dict(self.terms)
        for m, c in o.terms.items():
            t[m] = t.get(m, Fraction(0)) + c
        return Poly(t)

    def __neg__(self) -> "Poly":
        return Poly({m: -c for m, c in self.terms.items()})

    def __sub__(self, o: "Poly") -> "Poly":
        return self + (-o)

    def __mul__(self, o: "Poly") -> "Poly":
        t: dict[Mono, Fraction] = {}
        for m1, c1 in self.terms.items():
            for m2, c2 in o.terms.items():
                d: dict[str, int] = {}
                for s, e in m1 + m2:
                    d[s] = d.get(s, 0) + e
                m = _norm(d)
                t[m] = t.get(m, Fraction(0)) + c1 * c2
        return Poly(t)

    def div(self, o: "Poly") -> "Poly | None":
        """division by a constant or by a single symbol (-> companion inverse symbol)"""
        if o.is_zero():
            return None
        if len(o.terms) != 1:
            # compound divisor: an opaque inverse symbol (no rewrite rule; its sign follows the divisor's)
            name = f"inv({o!r})"
            INV[name] = o
            return self * Poly({((name, 1),): Fraction(1)})
        (m, c), = o.terms.items()
        if not m:
            return self * Poly.const(1 / c)
        d = {}
        for s, e in m:
            if s.startswith("inv("):
                d[s[4:-1]] = e
            else:
                d[_inv(s)] = e
        return self * Poly({_norm(d): 1 / c})

    def subst(self, sym: str, value: "Poly") -> "Poly":
        """substitute a polynomial for a symbol (the symbol's inverse must not occur)"""
        out = Poly()
        for m, c in self.terms.items():
            term = Poly.const(c)
            for s, e in m:
                if s == _inv(sym) or (s in INV and sym in INV[s].symbols()):
                    raise ValueError(f"cannot substitute into 1/{sym}")
                base = value if s == sym else Poly.sym(s)
                for _ in range(e):
                    term = term * base
            out = out + term
        return out

    def is_zero(self) -> bool:
        return not self.terms

    def __eq__(self, o) -> bool:  # type: ignore[override]
        return isinstance(o, Poly) and self.terms == o.terms

    def __hash__(self) -> int:
        return hash(tuple(sorted(self.terms.items())))

    def symbols(self) -> set[str]:
        return {s for m in self.terms for s, _ in m}

    def at(self, env: dict[str, Fraction]) -> Fraction:
        tot = Fraction(0)
        for m, c in self.terms.items():
            v = c
            for s, e in m:
                if s in INV:
                    v *= (1 / INV[s].at(env)) ** e
                elif s.startswith("inv("):
                    v *= (1 / env[s[4:-1]]) ** e
                else:
                    v *= env[s] ** e
            tot += v
        return tot

    def __repr__(self) -> str:
        if not self.terms:
            return "0"
        parts = []
        for m, c in sorted(self.terms.items()):
            mono = "*".join(s if e == 1 else f"{s}^{e}" for s, e in m)
            if not mono:
                parts.append(str(c))
            elif c == 1:
                parts.append(mono)
            elif c == -1:
                parts.append("-" + mono)
            else:
                parts.append(f"{c}*{mono}")
        return " + ".join(parts).replace("+ -", "- ")


# sign lattice --------------------------------------------------------------------------------

POS, NONNEG, ZERO, NONPOS, NEG, UNKNOWN = "> 0", ">= 0", "= 0", "<= 0", "< 0", "?"


def sign(p: Poly, signs: dict[str, str]) -> str:
    """signs: symbol -> POS | NONNEG (inverse symbols inherit POS from their base)"""
    if p.is_zero():
        return ZERO
    kinds = set()
    for m, c in p.terms.items():
        strict = True
        for s, _ in m:
            if s in INV:
                if INV[s] not in signs.get("__positive_forms__", ()) and sign(INV[s], signs) != POS:
                    return UNKNOWN
                continue
            base = s[4:-1] if s.startswith("inv(") else s
            sg = signs.get(base)
            if sg is None:
                return UNKNOWN
            if s.startswith("inv(") and sg != POS:
                return UNKNOWN
            if sg != POS:
                strict = False
        kinds.add(("+" if c > 0 else "-", strict))
    dirs = {d for d, _ in kinds}
    if len(dirs) != 1:
        return UNKNOWN
    any_strict = any(s for _, s in kinds)
    if dirs == {"+"}:
        return POS if any_strict else NONNEG
    return NEG if any_strict else NONPOS


def proves(p: Poly, rel: str, signs: dict[str, str], facts: Iterable[tuple[Poly, str]] = ()) -> bool:
    """does the lattice (plus syntactically identical path facts) prove `p rel 0`?"""
    s = sign(p, signs)
    table = {
        "<= 0": {ZERO, NONPOS, NEG},
        "< 0": {NEG},
        ">= 0": {ZERO, NONNEG, POS},
        "> 0": {POS},
        "= 0": {ZERO},
    }
    if s in table[rel]:
        return True
    weaker = {"> 0": {"> 0"}, ">= 0": {"> 0", ">= 0", "= 0"}, "< 0": {"< 0"}, "<= 0": {"< 0", "<= 0", "= 0"}, "= 0": {"= 0"}}
    flip = {"> 0": "< 0", ">= 0": "<= 0", "< 0": "> 0", "<= 0": ">= 0", "= 0": "= 0"}
    for q, r in facts:
        if q == p and r in weaker[rel]:
            return True
        if q == -p and flip.get(r) in weaker[rel]:
            return True
    # one path fact plus a remainder of known sign:  p = k*q + rest  (k > 0)
    for q0, r0 in facts:
        if r0 not in flip:
            continue
        for q, r in ((q0, r0), (-q0, flip[r0])):
            for k in (Fraction(1), Fraction(1, 2), Fraction(2)):
                rest = sign(p - q * Poly.const(k), signs)
                if rel in ("> 0", ">= 0") and r in ("> 0", ">= 0", "= 0") and rest in (POS, NONNEG, ZERO):
                    strict = (r == "> 0") or rest == POS
                    if rel == ">= 0" or strict:
                        return True
                if rel in ("< 0", "<= 0") and r in ("< 0", "<= 0", "= 0") and rest in (NEG, NONPOS, ZERO):
                    strict = (r == "< 0") or rest == NEG
                    if rel == "<= 0" or strict:
                        return True
    return False


def holds(v: Fraction, rel: str) -> bool:
    return {"<= 0": v <= 0, "< 0": v < 0, ">= 0": v >= 0, "> 0": v > 0, "= 0": v == 0}[rel]
