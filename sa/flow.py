"""Helpers shared by the checks: exception hierarchy, store-write detection, effect vocabulary,
def-use utilities."""

from __future__ import annotations

import ast
from dataclasses import dataclass
from typing import Iterable, Iterator

from .cfg import CFG, build_cfg, default_raises
from .loader import AnalysisError, ClassInfo, FuncInfo, Repo, walk_no_nested

BUILTIN_EXC_PARENTS = {
    "KeyError": "LookupError", "IndexError": "LookupError", "LookupError": "Exception",
    "ValueError": "Exception", "TypeError": "Exception", "RuntimeError": "Exception",
    "NotImplementedError": "RuntimeError", "AttributeError": "Exception", "OSError": "Exception",
    "AssertionError": "Exception", "StopIteration": "Exception", "ImportError": "Exception",
    "ModuleNotFoundError": "ImportError", "OperationalError": "DatabaseError", "DatabaseError": "Error",
    "Error": "Exception", "TimeoutError": "OSError", "Exception": "BaseException",
    "KeyboardInterrupt": "BaseException", "SystemExit": "BaseException", "GeneratorExit": "BaseException",
    "CancelledError": "BaseException", "PickleError": "Exception", "JSONDecodeError": "ValueError",
}

MUTATING_METHODS = {
    "add", "append", "appendleft", "pop", "popleft", "popitem", "clear", "discard", "remove", "update",
    "extend", "insert", "setdefault", "intersection_update", "difference_update", "move_to_end", "sort",
    "symmetric_difference_update", "__setitem__", "__delitem__",
}


class ExcHierarchy:
    def __init__(self, repo: Repo) -> None:
        self.repo = repo

    def parents(self, name: str) -> list[str]:
        out = [name]
        seen = {name}
        cs = self.repo.classes_named(name)
        if cs:
            for c in cs:
                for k in c.mro():
                    if k.name not in seen:
                        seen.add(k.name)
                        out.append(k.name)
                    for e in k.external_base_names():
                        cur = e
                        while cur and cur not in seen:
                            seen.add(cur)
                            out.append(cur)
                            cur = BUILTIN_EXC_PARENTS.get(cur, "")
            return out
        cur = BUILTIN_EXC_PARENTS.get(name, "Exception" if name != "BaseException" else "")
        while cur and cur not in seen:
            seen.add(cur)
            out.append(cur)
            cur = BUILTIN_EXC_PARENTS.get(cur, "")
        return out

    def is_sub(self, name: str, ancestor: str) -> bool:
        return ancestor in self.parents(name)

    def handler_names(self, h: ast.ExceptHandler) -> list[str]:
        if h.type is None:
            return ["BaseException"]
        ts = h.type.elts if isinstance(h.type, ast.Tuple) else [h.type]
        return [ast.unparse(t).split(".")[-1] for t in ts]

    def catches(self, cls: str | None, h: ast.ExceptHandler) -> str:
        names = self.handler_names(h)
        if cls is None:
            if "BaseException" in names or "Exception" in names:
                return "yes"
            return "maybe"
        if any(self.is_sub(cls, n) for n in names):
            return "yes"
        # dynamic handler expressions (e.g. ``except self.task.retriable_exceptions``)
        if any(not n[:1].isupper() for n in names):
            return "maybe"
        return "no"

    def handler_catches(self, h: ast.ExceptHandler, cls: str) -> bool:
        return any(self.is_sub(cls, n) for n in self.handler_names(h))


# ---------------------------------------------------------------------- small AST utilities
def names_in(node: ast.AST) -> set[str]:
    return {n.id for n in ast.walk(node) if isinstance(n, ast.Name)}


def calls_in(node: ast.AST, nested: bool = False) -> Iterator[ast.Call]:
    it = ast.walk(node) if nested else walk_no_nested(node)
    for n in it:
        if isinstance(n, ast.Call):
            yield n


def call_name(call: ast.Call) -> str:
    f = call.func
    if isinstance(f, ast.Attribute):
        return f.attr
    if isinstance(f, ast.Name):
        return f.id
    return ""


def call_args(call: ast.Call, params: list[str]) -> dict[str, ast.AST]:
    """arguments of a call by parameter name, whether passed positionally or by keyword
    (params = the callee's positional parameter names without self)"""
    out: dict[str, ast.AST] = {}
    for i, a in enumerate(call.args):
        if i < len(params) and not isinstance(a, ast.Starred):
            out[params[i]] = a
    for k in call.keywords:
        if k.arg:
            out[k.arg] = k.value
    return out


def attr_chain(node: ast.AST) -> str:
    try:
        return ast.unparse(node)
    except Exception:
        return ""


def self_attr(node: ast.AST) -> str | None:
    """``self.x`` -> 'x' ; ``self.x[...]`` / ``self.x.get(..)`` -> 'x' (root store attribute)."""
    cur = node
    while True:
        if isinstance(cur, ast.Attribute):
            if isinstance(cur.value, ast.Name) and cur.value.id == "self":
                return cur.attr
            cur = cur.value
        elif isinstance(cur, ast.Subscript):
            cur = cur.value
        elif isinstance(cur, ast.Call):
            cur = cur.func
        else:
            return None


@dataclass
class StoreWrite:
    node: ast.AST  # statement or call
    attr: str
    how: str  # assign | del | method:<name> | augassign | rebind

    @property
    def lineno(self) -> int:
        return getattr(self.node, "lineno", 0)


def mem_store_writes(func_node: ast.AST, attrs: Iterable[str] | None = None, include_rebind: bool = True) -> list[StoreWrite]:
    """Mutations of ``self.<attr>`` containers inside a function: subscript assignment, ``del``,
    mutating method calls, augmented assignment, rebinding of the attribute."""
    want = set(attrs) if attrs is not None else None
    out: list[StoreWrite] = []

    def hit(a: str | None) -> bool:
        return a is not None and (want is None or a in want)

    for n in walk_no_nested(func_node):
        if isinstance(n, (ast.Assign, ast.AnnAssign, ast.AugAssign)):
            tgts = n.targets if isinstance(n, ast.Assign) else [n.target]
            for t in tgts:
                for tt in (t.elts if isinstance(t, (ast.Tuple, ast.List)) else [t]):
                    if isinstance(tt, ast.Subscript):
                        a = self_attr(tt)
                        if hit(a):
                            out.append(StoreWrite(n, a, "assign"))
                    elif isinstance(tt, ast.Attribute) and isinstance(tt.value, ast.Name) and tt.value.id == "self":
                        if include_rebind and hit(tt.attr):
                            out.append(StoreWrite(n, tt.attr, "augassign" if isinstance(n, ast.AugAssign) else "rebind"))
                    elif isinstance(tt, ast.Attribute):
                        a = self_attr(tt)
                        if hit(a):
                            out.append(StoreWrite(n, a, "assign"))
        elif isinstance(n, ast.Delete):
            for t in n.targets:
                a = self_attr(t)
                if hit(a):
                    out.append(StoreWrite(n, a, "del"))
        elif isinstance(n, ast.Call) and isinstance(n.func, ast.Attribute) and n.func.attr in MUTATING_METHODS:
            a = self_attr(n.func.value)
            if hit(a):
                out.append(StoreWrite(n, a, "method:" + n.func.attr))
    return out


def enclosing_stmt(func_node: ast.AST, target: ast.AST) -> ast.stmt | None:
    """The innermost *simple* statement (or compound header owner) containing ``target``."""
    best: ast.stmt | None = None
    for n in ast.walk(func_node):
        if isinstance(n, ast.stmt):
            for sub in ast.walk(n):
                if sub is target:
                    if best is None or _contains(best, n):
                        best = n
                    break
    return best


def _contains(outer: ast.AST, inner: ast.AST) -> bool:
    return any(x is inner for x in ast.walk(outer))


def parent_map(root: ast.AST) -> dict[int, ast.AST]:
    pm: dict[int, ast.AST] = {}
    for n in ast.walk(root):
        for c in ast.iter_child_nodes(n):
            pm[id(c)] = n
    return pm


def ancestors(pm: dict[int, ast.AST], node: ast.AST) -> Iterator[ast.AST]:
    cur = pm.get(id(node))
    while cur is not None:
        yield cur
        cur = pm.get(id(cur))


def cfg_node_of(g: CFG, func_node: ast.AST, target: ast.AST, pm: dict[int, ast.AST] | None = None):
    """CFG node(s) whose ast contains ``target`` (innermost)."""
    pm = pm or parent_map(func_node)
    cur: ast.AST | None = target
    while cur is not None:
        ns = g.nodes_for(cur)
        if ns:
            return ns
        cur = pm.get(id(cur))
    return []


# ---------------------------------------------------------------------- status effects
def status_arg(call: ast.Call, enum_name: str = "InvocationStatus") -> str | None:
    """Constant ``InvocationStatus.X`` among the arguments of a call (positional or keyword)."""
    for a in list(call.args) + [k.value for k in call.keywords]:
        if isinstance(a, ast.Attribute) and isinstance(a.value, ast.Name) and a.value.id == enum_name:
            return a.attr
    return None


@dataclass
class StatusSite:
    func: FuncInfo
    call: ast.Call
    status: str | None  # None = non-constant
    id_expr: ast.AST | None
    ctx_expr: ast.AST | None

    @property
    def where(self) -> str:
        return f"{self.func.module.relpath}:{self.call.lineno}"


def status_sites(repo: Repo, method: str = "set_invocation_status") -> list[StatusSite]:
    out = []
    for f in repo.all_functions():
        for c in calls_in(f.node):
            if call_name(c) == method and isinstance(c.func, ast.Attribute):
                args = list(c.args)
                kw = {k.arg: k.value for k in c.keywords}
                id_expr = args[0] if args else kw.get("invocation_id")
                st_expr = args[1] if len(args) > 1 else kw.get("status")
                ctx_expr = args[2] if len(args) > 2 else kw.get("runner_ctx")
                st = None
                if isinstance(st_expr, ast.Attribute) and isinstance(st_expr.value, ast.Name) and st_expr.value.id == "InvocationStatus":
                    st = st_expr.attr
                out.append(StatusSite(f, c, st, id_expr, ctx_expr))
    return out


def func_cfg(repo: Repo, f: FuncInfo, raises=None, catches=None) -> CFG:
    return build_cfg(f.node, raises or default_raises, catches or ExcHierarchy(repo).catches)


def assigned_from(func_node: ast.AST, pred) -> set[str]:
    """Names bound (Assign / AnnAssign / walrus / tuple-unpack) to a value satisfying pred(value)."""
    out: set[str] = set()
    for n in walk_no_nested(func_node):
        val = None
        tgts: list[ast.AST] = []
        if isinstance(n, ast.Assign):
            val, tgts = n.value, n.targets
        elif isinstance(n, ast.AnnAssign) and n.value is not None:
            val, tgts = n.value, [n.target]
        elif isinstance(n, ast.NamedExpr):
            val, tgts = n.value, [n.target]
        if val is not None and pred(val):
            for t in tgts:
                for tt in ast.walk(t):
                    if isinstance(tt, ast.Name):
                        out.add(tt.id)
    return out


def derived_names(func_node: ast.AST, seeds: set[str], through_calls: bool = True, stop=None) -> set[str]:
    """Forward closure: names assigned from expressions mentioning a derived name.
    ``stop(value)`` true means the value launders the dependency (e.g. the validating call)."""
    cur = set(seeds)
    changed = True
    while changed:
        changed = False
        for n in walk_no_nested(func_node):
            val = None
            tgts: list[ast.AST] = []
            if isinstance(n, ast.Assign):
                val, tgts = n.value, n.targets
            elif isinstance(n, ast.AnnAssign) and n.value is not None:
                val, tgts = n.value, [n.target]
            elif isinstance(n, ast.NamedExpr):
                val, tgts = n.value, [n.target]
            elif isinstance(n, (ast.For, ast.comprehension)):
                val, tgts = n.iter, [n.target]
            if val is None:
                continue
            if stop is not None and stop(val):
                continue
            if names_in(val) & cur:
                for t in tgts:
                    for tt in ast.walk(t):
                        if isinstance(tt, ast.Name) and tt.id not in cur:
                            cur.add(tt.id)
                            changed = True
    return cur


def require_func(repo: Repo, qual: str) -> FuncInfo:
    try:
        return repo.func(qual)
    except AnalysisError:
        raise


def feasible_reach(g: CFG, avoid: set[int], stable_preds: tuple[str, ...] = ("is_final()",)) -> set[int]:
    """Nodes reachable from the entry over normal edges without passing a node of `avoid`,
    tracking (a) boolean locals assigned constants and (b) the outcome of *stable* predicates
    (tests whose text ends with one of stable_preds: once false->true they stay; we only use:
    the same test text evaluated again on the same path gives the same answer unless a statement
    in between may change it - for is_final() a True answer is permanent, a False answer is not).
    Keeps infeasible combinations such as 'flag is False at its first test although it was just
    initialised to False' or 'status is final at the guard but not final at the loop' out."""
    seen: set[tuple[int, frozenset]] = set()
    out: set[int] = set()
    stack: list[tuple[int, frozenset]] = [(g.entry, frozenset())]

    def test_value(node: ast.AST, facts: dict) -> bool | None:
        if isinstance(node, ast.UnaryOp) and isinstance(node.op, ast.Not):
            v = test_value(node.operand, facts)
            return None if v is None else (not v)
        if isinstance(node, ast.Name) and ("v:" + node.id) in facts:
            return facts["v:" + node.id]
        txt = ast.unparse(node)
        if ("t:" + txt) in facts:
            return facts["t:" + txt]
        return None

    while stack:
        nid, fz = stack.pop()
        if (nid, fz) in seen or nid in avoid:
            continue
        seen.add((nid, fz))
        out.add(nid)
        facts = dict(fz)
        n = g.nodes[nid]
        if n.kind == "stmt" and isinstance(n.ast, ast.Assign) and len(n.ast.targets) == 1 and isinstance(n.ast.targets[0], ast.Name):
            nm = n.ast.targets[0].id
            if isinstance(n.ast.value, ast.Constant) and isinstance(n.ast.value.value, bool):
                facts["v:" + nm] = n.ast.value.value
            else:
                facts.pop("v:" + nm, None)
        for s, lab in g.succ[nid]:
            if lab == "exc":
                continue
            f2 = dict(facts)
            if n.kind == "test" and n.ast is not None and lab in ("true", "false"):
                want = lab == "true"
                known = test_value(n.ast, facts)
                if known is not None and known != want:
                    continue  # infeasible edge
                # remember stable predicate outcomes: only the permanent direction
                inner = n.ast
                neg = False
                while isinstance(inner, ast.UnaryOp) and isinstance(inner.op, ast.Not):
                    inner, neg = inner.operand, not neg
                txt = ast.unparse(inner)
                if any(txt.endswith(p) for p in stable_preds):
                    val = want != neg
                    if val:  # True is permanent (final statuses are absorbing)
                        f2["t:" + txt] = True
            stack.append((s, frozenset(f2.items())))
    return out



# ---------------------------------------------------------------------------------------------
# reaching definitions + flow-sensitive aliasing of store values


@dataclass
class Def:
    name: str
    value: ast.AST | None  # bound expression (None: opaque, e.g. a with-as name or a parameter)
    kind: str  # assign | iter (element of value) | weak (container gains value) | opaque
    node: int  # CFG node id
    idx: int = 0

    def __hash__(self) -> int:
        return self.idx


def _defs_of_node(n) -> list[tuple[str, ast.AST | None, str]]:
    """(name, value, kind) bound by a CFG node"""
    out: list[tuple[str, ast.AST | None, str]] = []
    a = n.ast
    if a is None:
        return out
    if n.kind == "for" and isinstance(a, (ast.For, ast.AsyncFor)):
        if isinstance(a.target, ast.Name):
            out.append((a.target.id, a.iter, "iter"))
        else:
            for t in ast.walk(a.target):
                if isinstance(t, ast.Name):
                    out.append((t.id, a.iter, "iter-part"))
        return out
    if n.kind == "with-enter" and isinstance(a, (ast.With, ast.AsyncWith)):
        for it in a.items:
            if it.optional_vars is not None:
                for t in ast.walk(it.optional_vars):
                    if isinstance(t, ast.Name):
                        out.append((t.id, None, "opaque"))
        return out
    if n.kind == "handler" and isinstance(a, ast.ExceptHandler) and a.name:
        return [(a.name, None, "opaque")]
    if n.kind in ("with-exit", "with-exit-exc"):
        return out
    if isinstance(a, ast.Assign):
        for t in a.targets:
            if isinstance(t, ast.Name):
                out.append((t.id, a.value, "assign"))
            elif isinstance(t, (ast.Tuple, ast.List)):
                for tt in ast.walk(t):
                    if isinstance(tt, ast.Name):
                        out.append((tt.id, None, "opaque"))
    elif isinstance(a, ast.AnnAssign) and isinstance(a.target, ast.Name) and a.value is not None:
        out.append((a.target.id, a.value, "assign"))
    elif isinstance(a, ast.AugAssign) and isinstance(a.target, ast.Name):
        out.append((a.target.id, None, "aug"))
    # walrus anywhere in the node's expression (tests, calls)
    for x in ast.walk(a) if not isinstance(a, (ast.FunctionDef, ast.AsyncFunctionDef, ast.ClassDef, ast.For, ast.AsyncFor, ast.With, ast.AsyncWith)) else []:
        if isinstance(x, ast.NamedExpr) and isinstance(x.target, ast.Name):
            out.append((x.target.id, x.value, "assign"))
    # a local container gains a value
    if isinstance(a, ast.Expr) and isinstance(a.value, ast.Call) and isinstance(a.value.func, ast.Attribute) and a.value.func.attr in ("append", "add", "extend", "insert") and isinstance(a.value.func.value, ast.Name) and a.value.args:
        out.append((a.value.func.value.id, a.value.args[-1], "weak"))
    return out


def reaching_definitions(g: CFG) -> tuple[list[Def], dict[int, set[Def]]]:
    """classic forward may-analysis; returns (all defs, IN set per node id)"""
    defs: list[Def] = []
    gen: dict[int, list[Def]] = {}
    for n in g.nodes:
        for name, val, kind in _defs_of_node(n):
            d = Def(name, val, kind, n.id, len(defs))
            defs.append(d)
            gen.setdefault(n.id, []).append(d)
    IN: dict[int, set[Def]] = {n.id: set() for n in g.nodes}
    OUT: dict[int, set[Def]] = {n.id: set() for n in g.nodes}
    work = [n.id for n in g.nodes]
    while work:
        i = work.pop()
        new_in: set[Def] = set()
        for p, lab in g.pred.get(i, []):
            new_in |= OUT[p]
            if lab == "exc":
                new_in |= IN[p]  # the statement may have raised before binding
        IN[i] = new_in
        killed = {d.name for d in gen.get(i, []) if d.kind != "weak"}
        out = {d for d in new_in if d.name not in killed} | set(gen.get(i, []))
        if out != OUT[i]:
            OUT[i] = out
            for s_, _ in g.succ.get(i, []):
                work.append(s_)
    return defs, IN


_FRESH_CALLS = ("set", "list", "dict", "sorted", "frozenset", "tuple", "len", "str", "int", "bool", "sum", "min", "max", "any", "all")


def aliased_store_mutations(func_node: ast.AST, attrs: Iterable[str] | None = None, live_returns: dict[str, str] | None = None,
                            want_returns: bool = False):
    """Mutations of a store attribute through a LOCAL alias, flow-sensitively.

    A definition aliases store attribute A when its value is `self.A`, `self.A[k]`,
    `self.A.get(..)/.setdefault(..)/.pop(..)`, an element of such a value (for-loop over it or over
    `.values()`), a subscript of an aliasing local, or another aliasing local - decided with the
    definitions REACHING that point.  `.copy()`, `set(x)`, `list(x)`, comprehensions and binary set
    operations give fresh objects.  Reported: mutating method calls, subscript stores / deletes
    and augmented assignments whose root name has a reaching definition that aliases a store value
    itself (a purely local list that merely collects store values is not a store).
    Returns (node, local name, store attribute)."""
    want = set(attrs) if attrs is not None else None
    g = build_cfg(func_node)
    defs, IN = reaching_definitions(g)
    pm = parent_map(func_node)
    alias: dict[Def, str] = {}  # def -> store attr it aliases DIRECTLY (the object is (part of) the store)
    holds: dict[Def, str] = {}  # def -> store attr whose values it merely contains (local container)

    def lookup(name: str, at: int, table: dict[Def, str]) -> str | None:
        for d in IN[at]:
            if d.name == name and d in table:
                return table[d]
        return None

    def source_attr(v: ast.AST | None, at: int) -> str | None:
        if v is None:
            return None
        if isinstance(v, ast.Call):
            nm = call_name(v)
            if nm in ("copy", "deepcopy") or (isinstance(v.func, ast.Name) and v.func.id in _FRESH_CALLS):
                return None
            # a sibling method that hands out a live store value (see live_returning_methods)
            if live_returns and isinstance(v.func, ast.Attribute) and isinstance(v.func.value, ast.Name) and v.func.value.id == "self" and nm in live_returns:
                a = live_returns[nm]
                if want is None or a in want:
                    return a
            if nm in ("get", "setdefault", "pop") and isinstance(v.func, ast.Attribute):
                a = self_attr(v.func.value)
                if a is not None and (want is None or a in want):
                    return a
                if isinstance(v.func.value, ast.Name):
                    return lookup(v.func.value.id, at, alias)
            return None
        if isinstance(v, ast.IfExp):
            return source_attr(v.body, at) or source_attr(v.orelse, at)
        if isinstance(v, ast.BoolOp):
            for x in v.values:
                r = source_attr(x, at)
                if r:
                    return r
            return None
        if isinstance(v, (ast.Attribute, ast.Subscript)):
            a = self_attr(v)
            if a is not None and (want is None or a in want):
                return a
            root = v
            while isinstance(root, (ast.Attribute, ast.Subscript)):
                root = root.value
            if isinstance(root, ast.Name) and isinstance(v, ast.Subscript):
                return lookup(root.id, at, alias) or lookup(root.id, at, holds)
            return None
        if isinstance(v, ast.Name):
            return lookup(v.id, at, alias)
        return None

    changed = True
    rounds = 0
    while changed and rounds < 8:
        changed = False
        rounds += 1
        for d in defs:
            if d.kind in ("opaque", "aug", "iter-part"):
                continue
            if d.kind == "assign":
                a = source_attr(d.value, d.node)
                if a and alias.get(d) != a:
                    alias[d] = a
                    changed = True
                if isinstance(d.value, ast.Name):
                    h = lookup(d.value.id, d.node, holds)
                    if h and holds.get(d) != h:
                        holds[d] = h
                        changed = True
            elif d.kind == "iter":
                it = d.value
                a = None
                if isinstance(it, ast.Call) and call_name(it) == "values" and isinstance(it.func, ast.Attribute):
                    a = source_attr(it.func.value, d.node)
                elif isinstance(it, ast.Call) and call_name(it) in ("items", "keys", "enumerate", "range", "zip"):
                    a = None
                elif isinstance(it, ast.Name):
                    # elements of a local container of store values are store values; elements of a store container too
                    a = lookup(it.id, d.node, holds)
                    if a is None:
                        a = None  # iterating an aliased dict yields keys; an aliased set yields immutable ids
                else:
                    a = None
                if a and alias.get(d) != a:
                    alias[d] = a
                    changed = True
            elif d.kind == "weak":
                a = source_attr(d.value, d.node)
                if a and holds.get(d) != a:
                    holds[d] = a
                    changed = True
    out: list[tuple[ast.AST, str, str]] = []
    seen: set[int] = set()

    def at_nodes(x: ast.AST) -> list[int]:
        return [n.id for n in cfg_node_of(g, func_node, x, pm)]

    if want_returns:
        # store attributes whose (mutable) values some `return` hands out uncopied
        rets: set[str] = set()
        for n in walk_no_nested(func_node):
            if isinstance(n, ast.Return) and n.value is not None:
                for nid in at_nodes(n):
                    a = source_attr(n.value, nid)
                    if a:
                        rets.add(a)
        return rets
    for n in walk_no_nested(func_node):
        root = None
        if isinstance(n, ast.Call) and isinstance(n.func, ast.Attribute) and n.func.attr in MUTATING_METHODS:
            root = n.func.value
        elif isinstance(n, (ast.Assign, ast.Delete)):
            for t in n.targets:
                if isinstance(t, ast.Subscript):
                    root = t.value
        elif isinstance(n, ast.AugAssign):
            if isinstance(n.target, ast.Subscript):
                root = n.target.value
            elif isinstance(n.target, ast.Name) and isinstance(n.op, (ast.BitOr, ast.BitAnd, ast.Sub, ast.Add, ast.BitXor)):
                root = n.target
        if root is None:
            continue
        while isinstance(root, (ast.Subscript, ast.Attribute)):
            root = root.value
        if not isinstance(root, ast.Name):
            continue
        for nid in at_nodes(n):
            a = lookup(root.id, nid, alias)
            if a and id(n) not in seen:
                seen.add(id(n))
                out.append((n, root.id, a))
    return out


def live_returning_methods(methods: dict[str, ast.AST]) -> dict[str, str]:
    """method name -> store attribute, for methods of one class that return a live (uncopied) element / value of a
    `self.<attr>` container: `return self.X[k]`, `return self.X.get(k, ..)`, or a local that aliases one.  Solved to a
    fixpoint so that a method returning another live-returning method's result counts too.  Methods whose value is
    an immutable scalar cannot be told apart here; callers only matter when they MUTATE what they got."""
    live: dict[str, str] = {}
    for _ in range(4):
        changed = False
        for name, node in methods.items():
            if name in live:
                continue
            rets = aliased_store_mutations(node, None, live, want_returns=True)
            if rets:
                live[name] = sorted(rets)[0]
                changed = True
        if not changed:
            break
    return live


def may_fail_sites(func_node: ast.AST) -> list[tuple[ast.AST, str]]:
    """Places of a (rendering) function that can raise for some state of its inputs: an element access `x[<int>]` /
    `x[<key>]` without a length / truthiness / membership condition holding on every path to it, `next(it)` without a
    default, an explicit `raise`.  Slices never fail.  Used for functions the path engines treat as total (__str__ ...)."""
    out: list[tuple[ast.AST, str]] = []
    g = None
    pm = parent_map(func_node)

    def lower_bound(conds: list[ast.AST], base: str) -> int:
        lb = 0
        for c in conds:
            if ast.unparse(c) == base:
                lb = max(lb, 1)
            if isinstance(c, ast.Compare) and len(c.ops) == 1 and isinstance(c.left, ast.Call) and call_name(c.left) == "len" and c.left.args and ast.unparse(c.left.args[0]) == base and isinstance(c.comparators[0], ast.Constant) and isinstance(c.comparators[0].value, int):
                k = c.comparators[0].value
                op = type(c.ops[0])
                if op in (ast.Eq, ast.GtE):
                    lb = max(lb, k)
                elif op is ast.Gt:
                    lb = max(lb, k + 1)
                elif op is ast.NotEq and k == 0:
                    lb = max(lb, 1)
        return lb

    for n in walk_no_nested(func_node):
        if isinstance(n, ast.Raise):
            out.append((n, "raises"))
        elif isinstance(n, ast.Call) and isinstance(n.func, ast.Name) and n.func.id == "next" and len(n.args) == 1:
            out.append((n, "next() without a default"))
        elif isinstance(n, ast.Subscript) and isinstance(n.ctx, ast.Load) and not isinstance(n.slice, ast.Slice):
            if g is None:
                g = build_cfg(func_node)
            conds = conditions_at(g, func_node, n, pm)
            base = ast.unparse(n.value)
            idx = n.slice
            if isinstance(idx, ast.UnaryOp) and isinstance(idx.op, ast.USub) and isinstance(idx.operand, ast.Constant):
                need = abs(idx.operand.value) if isinstance(idx.operand.value, int) else None
            elif isinstance(idx, ast.Constant) and isinstance(idx.value, int):
                need = idx.value + 1
            else:
                need = None
            if need is not None:
                if lower_bound(conds, base) < need:
                    out.append((n, f"`{ast.unparse(n)}` with nothing on the path ensuring len({base}) >= {need}"))
            else:
                member = any(isinstance(c, ast.Compare) and len(c.ops) == 1 and isinstance(c.ops[0], ast.In) and ast.unparse(c.left) == ast.unparse(idx) and ast.unparse(c.comparators[0]) == base for c in conds)
                if not member:
                    out.append((n, f"`{ast.unparse(n)}` without a membership test on the path"))
    return out


def chunk_loop_defects(func_node: ast.AST) -> list[tuple[ast.AST, str, str]]:
    """`for i in range(A, B, S): ... X[i:i + S] ...` - chunking a sequence: every element is in exactly one chunk iff
    A == 0, B == len(X) and the slice is X[i:i + S].  Returns (loop, sequence text, what is wrong) for each chunk loop
    that deviates; loops that do not slice by their index are not chunk loops."""
    out: list[tuple[ast.AST, str, str]] = []
    for lp in walk_no_nested(func_node):
        if not (isinstance(lp, ast.For) and isinstance(lp.target, ast.Name) and isinstance(lp.iter, ast.Call) and call_name(lp.iter) == "range" and len(lp.iter.args) == 3):
            continue
        i = lp.target.id
        a, b, st = lp.iter.args
        slices = [x for x in ast.walk(lp) if isinstance(x, ast.Subscript) and isinstance(x.slice, ast.Slice) and isinstance(x.slice.lower, ast.Name) and x.slice.lower.id == i]
        if not slices:
            continue
        seq = ast.unparse(slices[0].value)
        step = ast.unparse(st)
        if not (isinstance(a, ast.Constant) and a.value == 0):
            out.append((lp, seq, f"the chunks start at {ast.unparse(a)}, not at 0"))
        b_txt = ast.unparse(b)
        if isinstance(b, ast.Name):
            # `n = len(X)` bound once before the loop is the same bound
            dv = [n_.value for n_ in walk_no_nested(func_node) if isinstance(n_, ast.Assign) and any(isinstance(t, ast.Name) and t.id == b.id for t in n_.targets)]
            if len(dv) == 1:
                b_txt = ast.unparse(dv[0])
        if b_txt != f"len({seq})":
            out.append((lp, seq, f"the chunk starts run up to `{ast.unparse(b)}`, not to len({seq}): the elements of the last chunk(s) are never visited when the length is not a multiple that hides it"))
        for sl in slices:
            up = sl.slice.upper
            okup = up is not None and ast.unparse(up).replace(" ", "") in (f"{i}+{step}".replace(" ", ""), f"{step}+{i}".replace(" ", ""))
            if not okup or sl.slice.step is not None:
                out.append((lp, seq, f"the chunk is `{ast.unparse(sl)}`, not {seq}[{i}:{i} + {step}]"))
    return out


def always_raises(stmts: list[ast.stmt]) -> bool:
    """every path through the statement list ends in `raise` (syntactic, conservative)"""
    if not stmts:
        return False
    last = stmts[-1]
    if isinstance(last, ast.Raise):
        return True
    if isinstance(last, ast.If):
        return bool(last.orelse) and always_raises(last.body) and always_raises(last.orelse)
    if isinstance(last, (ast.With, ast.AsyncWith)):
        return always_raises(last.body)
    return False


def swallowing_handlers(func_node: ast.AST, node: ast.AST) -> list[ast.ExceptHandler]:
    """`except` clauses of the try statements whose BODY contains `node` that have a path ending without `raise`:
    an exception raised by `node` can be turned into normal continuation there."""
    pm = parent_map(func_node)
    out: list[ast.ExceptHandler] = []
    cur = node
    while True:
        par = pm.get(id(cur))
        if par is None:
            break
        if isinstance(par, ast.Try) and any(cur is b or any(cur is y for y in ast.walk(b)) for b in par.body):
            out += [h for h in par.handlers if not always_raises(h.body)]
        cur = par
    return out


_LIVE_CACHE: dict[int, dict[str, str]] = {}


def class_live_returns(cls) -> dict[str, str]:
    """live_returning_methods over a class and its bases (most derived definition wins); cached per ClassInfo."""
    if cls is None:
        return {}
    k = id(cls)
    if k not in _LIVE_CACHE:
        methods: dict[str, ast.AST] = {}
        for c in reversed(cls.mro()):
            for n, m in c.methods.items():
                methods[n] = m.node
        _LIVE_CACHE[k] = live_returning_methods(methods)
    return _LIVE_CACHE[k]


# ---------------------------------------------------------------------------------------------
# conditions known to hold at a program point (independent of how the branches are nested)


_NEG_OPS = {ast.In: ast.NotIn, ast.NotIn: ast.In, ast.Eq: ast.NotEq, ast.NotEq: ast.Eq, ast.Is: ast.IsNot, ast.IsNot: ast.Is,
            ast.Lt: ast.GtE, ast.GtE: ast.Lt, ast.Gt: ast.LtE, ast.LtE: ast.Gt}


def negate(e: ast.AST) -> ast.AST:
    """logical negation in normal form: not-not removed, single comparisons flipped, De Morgan over and/or"""
    if isinstance(e, ast.UnaryOp) and isinstance(e.op, ast.Not):
        return e.operand
    if isinstance(e, ast.Compare) and len(e.ops) == 1 and type(e.ops[0]) in _NEG_OPS:
        return ast.copy_location(ast.Compare(left=e.left, ops=[_NEG_OPS[type(e.ops[0])]()], comparators=e.comparators), e)
    if isinstance(e, ast.BoolOp):
        return ast.copy_location(ast.BoolOp(op=ast.Or() if isinstance(e.op, ast.And) else ast.And(), values=[negate(v) for v in e.values]), e)
    return ast.copy_location(ast.UnaryOp(op=ast.Not(), operand=e), e)


def _conjuncts(e: ast.AST) -> list[ast.AST]:
    if isinstance(e, ast.BoolOp) and isinstance(e.op, ast.And):
        out: list[ast.AST] = []
        for v in e.values:
            out.extend(_conjuncts(v))
        return out
    if isinstance(e, ast.UnaryOp) and isinstance(e.op, ast.Not) and isinstance(e.operand, (ast.UnaryOp, ast.Compare, ast.BoolOp)):
        n = negate(e.operand)
        if not (isinstance(n, ast.UnaryOp) and isinstance(n.op, ast.Not) and n.operand is e.operand):
            return _conjuncts(n)
    return [e]


def conditions_at(g: CFG, func_node: ast.AST, target: ast.AST, pm: dict[int, ast.AST] | None = None) -> list[ast.AST]:
    """Conditions (normalised, split into conjuncts) that hold on EVERY path reaching `target`: a test contributes when
    the target becomes unreachable once one of the test's outgoing edges is removed - `if c: <target>`,
    `if not c: continue` / `return` before the target, and any nesting of these give the same answer."""
    nodes = [n.id for n in cfg_node_of(g, func_node, target, pm)]
    if not nodes:
        return []
    out: list[ast.AST] = []
    for t in g.nodes:
        if t.kind != "test" or t.ast is None:
            continue
        for lab in ("true", "false"):
            if not any(l_ == lab for _, l_ in g.succ[t.id]):
                continue
            # reachability without the edge (t, lab)
            seen: set[int] = set()
            stack = [g.entry]
            while stack:
                x = stack.pop()
                if x in seen:
                    continue
                seen.add(x)
                for s_, l_ in g.succ[x]:
                    if x == t.id and l_ == lab:
                        continue
                    stack.append(s_)
            if all(nid not in seen for nid in nodes) and all(nid != t.id for nid in nodes):
                cond = t.ast if lab == "true" else negate(t.ast)
                out.extend(_conjuncts(cond))
    return out


def some_path_avoids(g: CFG, func_node: ast.AST, target: ast.AST, fact, pm: dict[int, ast.AST] | None = None) -> bool:
    """True when `target` is reachable from the entry along a path on which NO branch edge establishes `fact`
    (a predicate over one normalised conjunct of the edge's condition).  The disjunctive counterpart of conditions_at:
    `if a: (if not f: return)  else: (if not f: return)` establishes f on every path although no single test dominates."""
    nodes = {n.id for n in cfg_node_of(g, func_node, target, pm)}
    if not nodes:
        return False
    blocked: set[tuple[int, str]] = set()
    for t in g.nodes:
        if t.kind != "test" or t.ast is None:
            continue
        for lab in ("true", "false"):
            cond = t.ast if lab == "true" else negate(t.ast)
            if any(fact(c) for c in _conjuncts(cond)):
                blocked.add((t.id, lab))
    seen: set[int] = set()
    stack = [g.entry]
    while stack:
        x = stack.pop()
        if x in seen:
            continue
        seen.add(x)
        if x in nodes:
            return True
        for s_, l_ in g.succ[x]:
            if (x, l_) in blocked:
                continue
            stack.append(s_)
    return False


def read_copy_write_sites(func_node: ast.AST) -> list[tuple[ast.AST, str, str]]:
    """`tmp = <copy of self.X[k] / self.X.get(k, ..)>; ...; self.X[k] = tmp` (or the same in one expression): the element of
    a shared container is replaced by a value computed from a copy of its previous content.  Without a lock around both steps
    a concurrent writer's update between the read and the store is lost.  Returns (store node, attribute, local name)."""
    out: list[tuple[ast.AST, str, str]] = []

    def reads_elem(v: ast.AST, attr: str) -> bool:
        for x in ast.walk(v):
            if isinstance(x, ast.Subscript) and self_attr(x) == attr and isinstance(x.value, ast.Attribute):
                return True
            if isinstance(x, ast.Call) and call_name(x) in ("get", "setdefault") and self_attr(x.func) == attr and isinstance(x.func.value, ast.Attribute):
                return True
        return False

    derived: dict[str, set[str]] = {}  # local name -> store attributes its value was copied from
    for n in walk_no_nested(func_node):
        if isinstance(n, ast.Assign) and len(n.targets) == 1 and isinstance(n.targets[0], ast.Name):
            for a in {self_attr(x) for x in ast.walk(n.value) if isinstance(x, (ast.Subscript, ast.Call)) and self_attr(x)}:
                if a and reads_elem(n.value, a):
                    derived.setdefault(n.targets[0].id, set()).add(a)
    pm = parent_map(func_node)
    for n in walk_no_nested(func_node):
        if not isinstance(n, ast.Assign):
            continue
        for t in n.targets:
            if isinstance(t, ast.Subscript) and isinstance(t.value, ast.Attribute) and self_attr(t):
                a = self_attr(t)
                src = None
                if isinstance(n.value, ast.Name) and a in derived.get(n.value.id, ()):
                    src = n.value.id
                elif not isinstance(n.value, ast.Name) and reads_elem(n.value, a):
                    src = "<expression>"
                if src is None:
                    continue
                locked = any(isinstance(x, (ast.With, ast.AsyncWith)) and any("lock" in ast.unparse(i.context_expr).lower() for i in x.items) for x in ancestors(pm, n))
                if not locked:
                    out.append((n, a, src))
    # the same over the whole container: `tmp = dict(self.X); ...; self.X = tmp` / `self.X = [.. for .. in self.X ..]`
    def reads_whole(v: ast.AST, attr: str) -> bool:
        return any(isinstance(x, ast.Attribute) and isinstance(x.ctx, ast.Load) and isinstance(x.value, ast.Name) and x.value.id == "self" and x.attr == attr for x in ast.walk(v))

    whole: dict[str, set[str]] = {}
    for n in walk_no_nested(func_node):
        if isinstance(n, ast.Assign) and len(n.targets) == 1 and isinstance(n.targets[0], ast.Name):
            for x in ast.walk(n.value):
                if isinstance(x, ast.Attribute) and isinstance(x.value, ast.Name) and x.value.id == "self" and isinstance(x.ctx, ast.Load):
                    whole.setdefault(n.targets[0].id, set()).add(x.attr)
    for n in walk_no_nested(func_node):
        if not isinstance(n, ast.Assign):
            continue
        for t in n.targets:
            if isinstance(t, ast.Attribute) and isinstance(t.value, ast.Name) and t.value.id == "self":
                a = t.attr
                src = None
                if isinstance(n.value, ast.Name) and a in whole.get(n.value.id, ()):
                    src = n.value.id
                elif not isinstance(n.value, ast.Name) and reads_whole(n.value, a):
                    src = "<expression>"
                if src is None:
                    continue
                locked = any(isinstance(x, (ast.With, ast.AsyncWith)) and any("lock" in ast.unparse(i.context_expr).lower() for i in x.items) for x in ancestors(pm, n))
                if not locked:
                    out.append((n, a, src))
    return out


_UNIT_FACTORS = {"_minutes": (60,), "_hours": (3600,), "_days": (86400,)}


def unit_misuse_sites(repo) -> tuple[int, list[tuple[object, ast.AST, str]]]:
    """Dimension check, seeded by the names of the configuration options and carried by dataflow.  A read of an option
    `<x>.conf.<name>_minutes` / `_hours` is a quantity in that unit.  It may be multiplied by the factor that turns it into
    seconds (60 / 3600), formatted into text, bound to a local, or handed to a callee - the local / the callee's parameter
    (resolved by position or keyword, whatever it is called) then carries the unit and its own uses are judged the same
    way.  Every other use - compared, added to a time, passed to an unresolved callee - mixes units.
    Returns (uses examined, misuses)."""
    funcs_by_name: dict[str, list] = {}
    for f in repo.all_functions():
        funcs_by_name.setdefault(f.name, []).append(f)
    bad: list[tuple[object, ast.AST, str]] = []
    seen: set[tuple[int, str]] = set()
    work: list[tuple[object, str, str]] = []  # (function, local / parameter name, unit suffix)
    n = 0

    def judge(f, x: ast.AST, suf: str, pm) -> None:
        nonlocal n
        par = pm.get(id(x))
        n += 1
        if isinstance(par, ast.BinOp) and isinstance(par.op, ast.Mult):
            other = par.right if par.left is x else par.left
            if not (isinstance(other, ast.Constant) and other.value in _UNIT_FACTORS[suf]):
                bad.append((f, x, f"multiplied by `{ast.unparse(other)[:30]}`, not by {_UNIT_FACTORS[suf][0]}"))
            return
        if isinstance(par, (ast.FormattedValue, ast.JoinedStr)):
            return
        if isinstance(par, (ast.Assign, ast.AnnAssign)) and getattr(par, "value", None) is x:
            tg = par.targets[0] if isinstance(par, ast.Assign) else par.target
            if isinstance(tg, ast.Name):
                work.append((f, tg.id, suf))
                return
            bad.append((f, x, f"stored into `{ast.unparse(tg)[:40]}`"))
            return
        call = par if isinstance(par, ast.Call) and any(a is x for a in par.args) else None
        kw = par if isinstance(par, ast.keyword) else None
        if kw is not None:
            call = pm.get(id(kw))
        if isinstance(call, ast.Call):
            cands = funcs_by_name.get(call_name(call) or "", [])
            targets = []
            for c in cands:
                ps = [a.arg for a in c.node.args.args + c.node.args.kwonlyargs]
                if kw is not None:
                    if kw.arg in ps:
                        targets.append((c, kw.arg))
                else:
                    i_ = next(k for k, a in enumerate(call.args) if a is x)
                    off = 1 if ps and ps[0] in ("self", "cls") and isinstance(call.func, ast.Attribute) else 0
                    if i_ + off < len(ps):
                        targets.append((c, ps[i_ + off]))
            if targets and len(targets) == len(cands):
                for c, pn in targets:
                    work.append((c, pn, suf))
                return
            bad.append((f, x, f"passed to `{call_name(call)}`, which could not be resolved to one parameter"))
            return
        bad.append((f, x, f"used in `{ast.unparse(par)[:50]}`" if par is not None else "used"))

    for f in repo.all_functions():
        if not f.module.name.startswith("pynenc.") or f.module.name.startswith("pynenc.conf"):
            continue
        pm = None
        for x in walk_no_nested(f.node):
            if isinstance(x, ast.Attribute) and isinstance(x.ctx, ast.Load) and isinstance(x.value, ast.Attribute) and x.value.attr == "conf":
                suf = next((s_ for s_ in _UNIT_FACTORS if x.attr.endswith(s_)), None)
                if suf is None:
                    continue
                if pm is None:
                    pm = parent_map(f.node)
                judge(f, x, suf, pm)
    rounds = 0
    while work and rounds < 200:
        rounds += 1
        f, name, suf = work.pop()
        if (id(f), name) in seen:
            continue
        seen.add((id(f), name))
        pm = parent_map(f.node)
        for x in walk_no_nested(f.node):
            if isinstance(x, ast.Name) and x.id == name and isinstance(x.ctx, ast.Load):
                judge(f, x, suf, pm)
    return n, bad
