"""C17 - applications with different ids are fully isolated, for any id string.

R1 every SQL statement text is built only from constants, per-app table-name attributes,
   placeholder lists and names read back from sqlite_master; all values travel as bound parameters
R2 prefix construction: sanitiser regex = complement of [A-Za-z0-9_], leading digit guarded,
   hash of the UNSANITISED id appended on every path; every table attribute derives from the prefix
R3 purge is scoped to the component's own prefix, pattern bound as a parameter; the prefix scheme
   must not be forgeable by another id (prefix-delete with a user-controlled leading part)
R4 one component instance per app object; class-/module-level mutable state in component code is
   keyed by app id (frozen table)
R5 the only SQL that reads other apps' tables is the documented discovery
"""

from __future__ import annotations

import ast
import re

from .. import sqlmini
from ..flow import call_name, calls_in, names_in
from ..loader import AnalysisError, ClassInfo, FuncInfo, walk_no_nested
from ..report import Context
from ..sqltaint import SqlText

PROPERTY = "C17"
TECHNIQUE = "static analysis: taint lattice over SQL statement text (reaching definitions, join/f-string closure), regex-AST check of the sanitiser, who-may-share tables for process-level state"

# class-level / module-level mutable containers allowed in component code, each keyed by app id
SHARED_STATE_TABLE = {
    "pynenc.state_backend.mem_state_backend.MemStateBackend._app_info_registry": "app-info registry keyed by app_id (documented discovery for in-memory apps)",
    "pynenc.app.Pynenc._instances": "multiton registry keyed by app_id",
}
COMPONENT_BASES = ["BaseOrchestrator", "BaseBlockingControl", "BaseBroker", "BaseStateBackend", "BaseTrigger", "BaseClientDataStore"]


def r1(ctx: Context, sites) -> None:
    ctx.rule("R1", "the text of every executed SQL statement is composed only of constants, table-name attributes of a TableNames object, '?' placeholder lists, integer counters and names read back from sqlite_master; nothing else is interpolated")
    st = SqlText(ctx.repo, ctx.resolver)
    n = 0
    kinds: dict[str, int] = {}
    for s in sites:
        f = s.func
        # the connection wrapper forwards its parameter: pass-through, the callers are the sites
        if f.cls is not None and f.cls.name == "SQLiteConnection":
            ok = isinstance(s.text_node, ast.Name) and s.text_node.id in f.params
            ctx.add("R1", f"wrapper-pass-through::{f.qualname}", ok, s.where, "" if ok else "the connection wrapper alters the statement text")
            continue
        n += 1
        c = st.classify(f, s.text_node)
        kinds[c.kind] = kinds.get(c.kind, 0) + 1
        tt = (sqlmini.target_table(s.template) or (s.tables[0] if s.tables else "-")).split(".")[-1]
        key = f"sql-text::{f.qualname}::{s.verb}:{tt}"
        ctx.add("R1", key, c.safe, s.where, "" if c.safe else f"statement text depends on {c.why}: a value (possibly derived from an app id or user data) is interpolated into SQL instead of being bound")
        # parameters are given as a second argument whenever the text has placeholders
        if "?" in s.template and s.params is None and "{" not in s.template.replace("{self.tables", "").replace("{tables", ""):
            ctx.fail("R1", key + "::placeholders-without-parameters", s.where, "'?' placeholders but no parameter tuple")
    ctx.floor("R1", "SQL statement sites", n, 110)
    ctx.analysed["sql_text_kinds"] = kinds
    # positive fixture: the lattice must reject an interpolated parameter
    import textwrap

    fx = ast.parse(textwrap.dedent('''
        def f(self, app_id):
            conn.execute(f"DELETE FROM {app_id}_queue")
    ''')).body[0]
    from ..loader import FuncInfo as FI

    anyf = sites[0].func
    fake = FI("selftest.f", "f", anyf.module, fx)
    call = [x for x in ast.walk(fx) if isinstance(x, ast.Call)][0]
    c = st.classify(fake, call.args[0])
    ctx.add("R1", "selfcheck::lattice-rejects-interpolated-parameter", not c.safe, "", "")


def r2(ctx: Context) -> None:
    ctx.rule("R2", "table_prefix = sanitize_table_prefix(app_id) + '__' + constant component; the sanitiser replaces exactly the complement of [A-Za-z0-9_], guards a leading digit, and appends >= 8 hex digits of a hash of the unsanitised id on every path; every table attribute is the prefix plus a constant suffix; components use distinct component labels")
    repo = ctx.repo
    m = repo.modules.get("pynenc.util.sqlite_utils")
    if m is None or "sanitize_table_prefix" not in m.functions:
        raise AnalysisError("anchor-vanished: sanitize_table_prefix")
    f = m.functions["sanitize_table_prefix"]
    p_id = f.params[0]
    subs = [c for c in calls_in(f.node) if call_name(c) == "sub" and isinstance(c.func, ast.Attribute)]
    ok = False
    detail = "no re.sub(...) on the app id"
    if subs:
        c = subs[0]
        pat = c.args[0] if c.args else None
        if isinstance(pat, ast.Constant) and isinstance(pat.value, str):
            import re._parser as sre_parse  # type: ignore

            try:
                parsed = sre_parse.parse(pat.value)
                items = list(parsed)
                ok = len(items) == 1 and str(items[0][0]) == "IN"
                if ok:
                    members = items[0][1]
                    neg = any(str(k) == "NEGATE" for k, _ in members)
                    allowed = set()
                    for k, v in members:
                        if str(k) == "RANGE":
                            allowed |= {chr(x) for x in range(v[0], v[1] + 1)}
                        elif str(k) == "LITERAL":
                            allowed.add(chr(v))
                        elif str(k) == "CATEGORY":
                            ok = False  # \w is unicode-aware: non-ASCII letters would survive
                    import string

                    want = set(string.ascii_letters + string.digits + "_")
                    ok = ok and neg and allowed <= want
                    detail = "" if ok else f"pattern {pat.value!r} keeps {sorted(allowed - want)[:10]} / negated={neg}"
                else:
                    detail = f"pattern {pat.value!r} is not a single negated character class"
            except Exception as e:  # malformed regex
                ok, detail = False, f"pattern does not parse: {e}"
        arg_ok = len(c.args) >= 3 and isinstance(c.args[2], ast.Name) and c.args[2].id == p_id and isinstance(c.args[1], ast.Constant) and re.fullmatch(r"[A-Za-z0-9_]*", str(c.args[1].value)) is not None
        ok = ok and arg_ok
        if not arg_ok:
            detail = "re.sub is not applied to the app id with a safe replacement"
    ctx.add("R2", "sanitiser::replaces-complement-of-safe-set", ok, f.loc(), detail)
    # leading digit
    lead = any(isinstance(n, ast.If) and "isdigit()" in ast.unparse(n.test) and "[0]" in ast.unparse(n.test) for n in walk_no_nested(f.node))
    ctx.add("R2", "sanitiser::leading-digit-guard", lead, f.loc(), "" if lead else "an id starting with a digit would yield an invalid unquoted identifier")
    # hash of the unsanitised id on every path
    rets = [n for n in walk_no_nested(f.node) if isinstance(n, ast.Return)]
    hash_names = set()
    for n in walk_no_nested(f.node):
        if isinstance(n, ast.Assign) and isinstance(n.value, (ast.Subscript, ast.Call)) and "hashlib" in ast.unparse(n.value):
            src = ast.unparse(n.value)
            good = f"{p_id}.encode(" in src and re.search(r"sha(256|512|1)|blake2", src) is not None
            width = re.search(r"\[:(\d+)\]", src)
            if good and (width is None or int(width.group(1)) >= 8):
                hash_names |= {t.id for t in n.targets if isinstance(t, ast.Name)}
    ok = bool(rets) and bool(hash_names) and all(r.value is not None and isinstance(r.value, ast.JoinedStr) and bool(names_in(r.value) & hash_names) for r in rets)
    ctx.add("R2", "sanitiser::hash-of-raw-id-on-every-path", ok, f.loc(), "" if ok else "some return path lacks the >= 8 hex digit hash of the unsanitised id: ids that sanitise to the same text (punctuation variants) would share tables")
    # ... and "the unsanitised id" means the caller's string: the parameter is not rebound (normalised, stripped, case-folded)
    # on any path to the hash - two different ids that normalise alike would get the same hash and share every table
    from ..flow import build_cfg, cfg_node_of, parent_map, reaching_definitions

    g_ = build_cfg(f.node)
    defs_, IN_ = reaching_definitions(g_)
    pm_ = parent_map(f.node)
    rebound = []
    for n in walk_no_nested(f.node):
        if isinstance(n, ast.Assign) and "hashlib" in ast.unparse(n.value) and f"{p_id}.encode(" in ast.unparse(n.value):
            for nd in cfg_node_of(g_, f.node, n, pm_):
                rebound += [d_ for d_ in IN_[nd.id] if d_.name == p_id and d_.value is not None]
    ctx.add("R2", "sanitiser::hashes-the-callers-string", not rebound, f.loc(), "" if not rebound else f"`{p_id}` is rebound to `{ast.unparse(rebound[0].value)[:60]}` before it is hashed: ids that differ only in what this step erases get one prefix - they share queue, invocations, history and workflow data, and purging one wipes the other")
    # everything else in the returned text is the sanitised text
    ok2 = all(isinstance(r.value, ast.JoinedStr) and all(isinstance(v, ast.Constant) and re.fullmatch(r"[A-Za-z0-9_]*", str(v.value)) or isinstance(v, ast.FormattedValue) and isinstance(v.value, ast.Name) for v in r.value.values) for r in rets if r.value is not None)
    ctx.add("R2", "sanitiser::returns-only-safe-text", bool(ok2), f.loc(), "" if ok2 else "the returned prefix contains something else than sanitised text, separators and the hash")
    # TableNames
    tn = repo.cls("TableNames")
    init = tn.methods.get("__init__")
    okp = False
    if init is not None:
        for n in walk_no_nested(init.node):
            if isinstance(n, (ast.Assign, ast.AnnAssign)):
                tg = n.targets[0] if isinstance(n, ast.Assign) else n.target
                if isinstance(tg, ast.Attribute) and tg.attr == "table_prefix" and isinstance(n.value, ast.JoinedStr):
                    txt = ast.unparse(n.value)
                    okp = f"sanitize_table_prefix({init.params[1]})" in txt and "{" + init.params[2] + "}" in txt and "__" in txt
    ctx.add("R2", "TableNames::prefix-from-sanitised-id-and-component", okp, tn.module.relpath, "" if okp else "table_prefix is not f'{sanitize_table_prefix(app_id)}__{component}'")
    comps: dict[str, str] = {}
    n_attr = 0
    for c in tn.all_subclasses():
        ci = c.methods.get("__init__")
        if ci is None:
            ctx.fail("R2", f"{c.qualname}::init", c.module.relpath, "no __init__")
            continue
        sup = [x for x in calls_in(ci.node) if isinstance(x.func, ast.Attribute) and x.func.attr == "__init__"]
        label = None
        if sup and len(sup[0].args) >= 2 and isinstance(sup[0].args[1], ast.Constant) and isinstance(sup[0].args[0], ast.Name) and sup[0].args[0].id == ci.params[1]:
            label = sup[0].args[1].value
        ok = isinstance(label, str) and re.fullmatch(r"[a-z_]+", label or "") is not None
        ctx.add("R2", f"{c.qualname}::constant-component-label", ok, ci.loc(), "" if ok else "super().__init__(app_id, <constant component>) not found")
        if ok:
            if label in comps:
                ctx.fail("R2", f"{c.qualname}::distinct-component-label", ci.loc(), f"component label {label!r} is also used by {comps[label]}")
            comps[label] = c.qualname
        prefix_names = {"table_prefix"}
        for n in walk_no_nested(ci.node):
            if isinstance(n, ast.Assign) and len(n.targets) == 1:
                tg = n.targets[0]
                if isinstance(tg, ast.Name) and ast.unparse(n.value) == "self.table_prefix":
                    prefix_names.add(tg.id)
                if isinstance(tg, ast.Attribute) and isinstance(tg.value, ast.Name) and tg.value.id == "self" and tg.attr.isupper():
                    n_attr += 1
                    v = n.value
                    ok = isinstance(v, ast.JoinedStr) and len(v.values) == 2 and isinstance(v.values[0], ast.FormattedValue) and (ast.unparse(v.values[0].value) in prefix_names or ast.unparse(v.values[0].value) == "self.table_prefix") and isinstance(v.values[1], ast.Constant) and re.fullmatch(r"_[a-z_]+", str(v.values[1].value)) is not None and "__" not in str(v.values[1].value)
                    ctx.add("R2", f"{c.qualname}::{tg.attr}::prefix-plus-constant", ok, ci.loc(n), "" if ok else f"{tg.attr} = {ast.unparse(v)[:60]}")
    ctx.floor("R2", "table attributes", n_attr, 20)


def r3(ctx: Context, sites) -> None:
    ctx.rule("R3", "every component purge deletes by its own self.tables.table_prefix; the LIKE pattern is prefix + '%' bound as a parameter; a prefix-delete is only safe if another id cannot forge a table name that starts with this app's prefix (user-controlled text must not lead the name when deletion matches by prefix)")
    repo = ctx.repo
    m = repo.modules["pynenc.util.sqlite_utils"]
    d = m.functions.get("delete_tables_with_prefix")
    if d is None:
        raise AnalysisError("anchor-vanished: delete_tables_with_prefix")
    n = 0
    for f in repo.all_functions():
        for c in calls_in(f.node):
            if call_name(c) == "delete_tables_with_prefix":
                n += 1
                ok = len(c.args) >= 2 and ast.unparse(c.args[1]) == "self.tables.table_prefix" and f.name in ("purge", "_purge")
                ctx.add("R3", f"purge-scope::{f.qualname}", ok, f.loc(c), "" if ok else f"delete_tables_with_prefix({', '.join(ast.unparse(a) for a in c.args)})")
    ctx.floor("R3", "prefix-delete call sites", n, 5)
    sel = [s for s in sites if s.func is d and s.verb == "SELECT"]
    ok = False
    if sel:
        s = sel[0]
        ps = sqlmini.param_exprs(s) or []
        t_ = " ".join(s.template.split())
        like = "LIKE ?" in t_ and len(ps) == 1 and isinstance(ps[0], ast.JoinedStr) and ast.unparse(ps[0]) == "f'{" + d.params[1] + "}%'"
        # other spellings of "starts with the prefix": instr(name, ?) = 1 / substr(name, 1, length(?)) = ?  bound to the prefix itself
        starts = bool(re.search(r"\binstr\(\s*name\s*,\s*\?\s*\)\s*=\s*1\b", t_, re.I) or re.search(r"\bsubstr\(\s*name\s*,\s*1\s*,\s*length\(\s*\?\s*\)\s*\)\s*=\s*\?", t_, re.I)) and bool(ps) and all(isinstance(p_, ast.Name) and p_.id == d.params[1] for p_ in ps)
        ok = "{" not in s.template and (like or starts)
        why3 = ""
        if not ok:
            why3 = "the selection is not a starts-with test on the prefix bound as a parameter (`name LIKE ?` with f'{prefix}%', `instr(name, ?) = 1`, `substr(name, 1, length(?)) = ?`)"
            if re.search(r"\binstr\(\s*name\s*,\s*\?\s*\)\s*(>|>=|!=|<>)", t_, re.I):
                why3 = "`instr(name, ?) > 0` is a CONTAINS test: every table whose name has this app's prefix anywhere inside it - another app whose id embeds it - is emptied by this app's purge"
    ctx.add("R3", "prefix-delete::selects-names-starting-with-the-prefix", ok, d.loc(), "" if ok else why3)
    # forgeability of the prefix under prefix matching
    f = m.functions["sanitize_table_prefix"]
    rets = [r for r in walk_no_nested(f.node) if isinstance(r, ast.Return) and isinstance(r.value, ast.JoinedStr)]
    exact = all("LIKE" not in s.template.upper() and "INSTR(" not in s.template.upper() and "SUBSTR(" not in s.template.upper() and "GLOB" not in s.template.upper() for s in sel)  # deletion by exact names would be safe
    forgeable = False
    for r in rets:
        vals = [v for v in r.value.values if isinstance(v, ast.FormattedValue)]
        if vals:
            first = ast.unparse(vals[0].value)
            # first interpolated part = the sanitised (user-chosen) text => another id can begin with it
            if "hash" not in first.lower():
                forgeable = True
    ok = exact or not forgeable
    ctx.add("R3", "prefix-delete::prefix-not-forgeable", ok, d.loc(),
            "" if ok else "table names start with the user-controlled sanitised id and purge matches `name LIKE prefix%`: an application whose id equals another app's storage prefix (e.g. id 'x_<hash of x>__broker') owns tables whose names start with that prefix, so purging app 'x' deletes the other app's rows")
    ctx.note("C17/R3 residual: '_' inside the LIKE pattern is a single-character wildcard and LIKE is ASCII case-insensitive; scoping therefore also relies on the 8-hex-digit hash inside the prefix - a 32-bit hash collision is outside what a static rule can exclude")


def r4(ctx: Context) -> None:
    ctx.rule("R4", "Pynenc builds each component with itself as argument and caches it per app object; class-level / module-level mutable containers in component and app code are limited to the frozen table of app-id-keyed registries")
    repo = ctx.repo
    app = repo.cls("Pynenc")
    for comp in ("orchestrator", "broker", "state_backend", "trigger", "client_data_store"):
        p = app.methods.get(comp)
        if p is None or not p.is_property:
            raise AnalysisError(f"anchor-vanished: Pynenc.{comp}")
        ctor = [c for c in calls_in(p.node) if isinstance(c.func, ast.Call) and call_name(c.func) == "get_subclass"]
        ok = bool(ctor) and all(len(c.args) == 1 and isinstance(c.args[0], ast.Name) and c.args[0].id == "self" for c in ctor)
        cache = any(isinstance(n, ast.Assign) and any(isinstance(t, ast.Attribute) and t.attr == f"_{comp}" and isinstance(t.value, ast.Name) and t.value.id == "self" for t in n.targets) for n in walk_no_nested(p.node))
        ctx.add("R4", f"Pynenc.{comp}::built-with-self-and-cached-per-app", ok and cache, p.loc(), "" if ok and cache else "the component is not constructed as Component(self) and cached on the app instance")
    # shared mutable state
    bases = [repo.cls(b) for b in COMPONENT_BASES]
    classes: list[ClassInfo] = [app]
    for b in bases:
        classes.append(b)
        classes.extend(b.all_subclasses())
    found = 0
    for c in classes:
        for name, val in c.class_attrs.items():
            if _is_mutable_container(val):
                found += 1
                q = f"{c.qualname}.{name}"
                ok = q in SHARED_STATE_TABLE
                ctx.add("R4", f"class-level-state::{q}", ok, f"{c.module.relpath}:{getattr(val, 'lineno', 0)}", SHARED_STATE_TABLE.get(q, "") if ok else "a class-level mutable container in component code is shared by all apps in the process")
    mods = list({c.module.name: c.module for c in classes}.values())
    for m in mods:
        for name, val in m.assigns.items():
            if _is_mutable_container(val) and not name.isupper() and name != "__all__":
                found += 1
                q = f"{m.name}.{name}"
                ok = q in SHARED_STATE_TABLE
                ctx.add("R4", f"module-level-state::{q}", ok, f"{m.relpath}:{getattr(val, 'lineno', 0)}", SHARED_STATE_TABLE.get(q, "") if ok else "a module-level mutable container in component code is shared by all apps in the process")
    ctx.floor("R4", "shared containers enumerated", found, 2)
    # the registry really is keyed by app id
    ms = repo.cls("MemStateBackend")
    for meth, want in (("store_app_info", "<param1>.app_id"), ("get_app_info", "self.app.app_id")):
        f = ms.methods.get(meth)
        if f is None:
            raise AnalysisError(f"anchor-vanished: MemStateBackend.{meth}")
        subs = [n for n in walk_no_nested(f.node) if isinstance(n, ast.Subscript) and "_app_info_registry" in ast.unparse(n.value)]
        keys = set()
        for s in subs:
            k = s.slice
            if isinstance(k, ast.Name):
                from .c01 import _reaching_values

                for v in _reaching_values(f, k.id):
                    keys.add(ast.unparse(v))
            else:
                keys.add(ast.unparse(k))
        want = want.replace("<param1>", f.params[1] if len(f.params) > 1 else "?")
        ok = bool(keys) and keys <= {want}
        ctx.add("R4", f"app-info-registry::{meth}::keyed-by-app-id", ok, f.loc(), "" if ok else f"registry accessed with {sorted(keys)}")
    # every MUTATION of a class-level registry of a component touches one app's entry only
    n_mut = 0
    for c in classes:
        shared = [n for n, v in c.class_attrs.items() if _is_mutable_container(v)]
        if not shared:
            continue
        users = [c] + [x for x in c.all_subclasses()]
        for u in users:
            for f in u.methods.values():
                if not f.params or f.params[0] != "self":
                    continue  # classmethods / staticmethods are process-wide administration, not an operation of one app
                for n in walk_no_nested(f.node):
                    hit = None  # (attribute name, kind, key expr or None)
                    def reg(e):
                        return e.attr if isinstance(e, ast.Attribute) and e.attr in shared and (ast.unparse(e.value) in (c.name, "cls", "type(self)", "self.__class__", "self")) else None
                    if isinstance(n, (ast.Assign, ast.Delete)):
                        for t in n.targets:
                            if isinstance(t, ast.Subscript) and reg(t.value):
                                hit = (reg(t.value), "item", t.slice)
                            elif reg(t):
                                hit = (reg(t), "rebind", None)
                    elif isinstance(n, ast.Call) and isinstance(n.func, ast.Attribute) and reg(n.func.value) and n.func.attr in ("clear", "update", "pop", "popitem", "setdefault", "append", "extend", "remove", "add", "discard"):
                        hit = (reg(n.func.value), n.func.attr, n.args[0] if n.func.attr in ("pop", "setdefault") and n.args else None)
                    if hit is None:
                        continue
                    n_mut += 1
                    attr, kind, key = hit
                    ktxt = None
                    if key is not None:
                        ktxt = ast.unparse(key)
                        if isinstance(key, ast.Name):
                            from .c01 import _reaching_values

                            vals = {ast.unparse(v) for v in _reaching_values(f, key.id)}
                            if len(vals) == 1:
                                ktxt = vals.pop()
                    okm = kind in ("item", "pop", "setdefault") and ktxt is not None and (ktxt.endswith(".app_id") or ktxt.endswith("app.app_id"))
                    ctx.add("R4", f"shared-registry::{c.name}.{attr}::{f.qualname}::{kind}", okm, f.loc(n), "" if okm else f"`{ast.unparse(n)[:70]}` changes the process-wide {c.name}.{attr} for every application, not only the entry of this app's id: purging / writing one app removes or replaces another app's data")
    ctx.floor("R4", "mutations of class-level registries", n_mut, 1)
    # in-memory component state is created per instance in __init__
    for b in bases:
        for c in b.all_subclasses():
            if c.name.startswith("Mem"):
                init = c.find_method("__init__")
                ok = init is not None
                ctx.add("R4", f"{c.qualname}::instance-state-in-init", ok, c.module.relpath, "")


def _is_mutable_container(v: ast.AST) -> bool:
    if isinstance(v, (ast.Dict, ast.List, ast.Set)):
        return True
    if isinstance(v, ast.Call) and call_name(v) in ("dict", "list", "set", "defaultdict", "OrderedDict", "deque"):
        return True
    return False


def r5(ctx: Context, sites) -> None:
    ctx.rule("R5", "SQL that reads tables of other applications (table name taken from sqlite_master, not from this app's TableNames) exists only in the documented discovery and in the prefix-bounded purge helper")
    st = SqlText(ctx.repo, ctx.resolver)
    allowed = {"discover_app_infos": "documented app discovery", "delete_tables_with_prefix": "purge helper, names bounded by the caller's own prefix (R3)"}
    n = 0
    for s in sites:
        if s.func.cls is not None and s.func.cls.name == "SQLiteConnection":
            continue
        c = st.classify(s.func, s.text_node)
        uses_master = "sqlite_master" in s.template or c.kind == "MASTER_NAME"
        if uses_master:
            n += 1
            ok = s.func.name in allowed
            ctx.add("R5", f"cross-app-sql::{s.func.qualname}::{s.verb}", ok, s.where, allowed.get(s.func.name, "") if ok else "this statement can read or write tables that belong to other applications")
    ctx.floor("R5", "sqlite_master statements", n, 3)


def r6(ctx: Context) -> None:
    ctx.rule("R6", "identity of app objects: (a) an app object looked up for a requested id is returned only under `<obj>.app_id == <requested id>`; (b) the per-process instance registry is consulted with an id resolved from the SAME configuration sources the app itself uses (every configuration parameter of __new__ reaches the ConfigPynenc that resolves the id)")
    from ..cfg import build_cfg
    from ..flow import conditions_at, parent_map

    repo = ctx.repo
    m = repo.modules.get("pynenc.util.import_app")
    if m is None:
        raise AnalysisError("anchor-vanished: pynenc.util.import_app")
    n = 0
    for f in m.functions.values():
        # functions that look an app up FOR a request: a parameter annotated AppInfo, or a str parameter compared with .app_id
        anns = {a.arg: (ast.unparse(a.annotation) if a.annotation is not None else "") for a in f.node.args.args}
        infos = [p for p, t in anns.items() if "AppInfo" in t]
        ids = [p for p, t in anns.items() if t.strip("'\"") == "str" and any(isinstance(c, ast.Compare) and any(isinstance(s_, ast.Name) and s_.id == p for s_ in [c.left] + c.comparators) and "app_id" in ast.unparse(c) for c in ast.walk(f.node))]
        if not ids and not infos:
            # a str parameter that is never compared: only relevant when the function returns a module attribute for an AppInfo
            continue
        wanted = {f"{p}" for p in ids} | {f"{p}.app_id" for p in infos}
        got = {t.id for x in walk_no_nested(f.node) if isinstance(x, ast.Assign) and isinstance(x.value, ast.Call) and call_name(x.value) == "getattr" for t in x.targets if isinstance(t, ast.Name)}
        g = build_cfg(f.node)
        pm = parent_map(f.node)
        for r in [x for x in walk_no_nested(f.node) if isinstance(x, ast.Return) and isinstance(x.value, ast.Name) and x.value.id in got]:
            n += 1
            conds = conditions_at(g, f.node, r, pm)
            ok = any(isinstance(c, ast.Compare) and isinstance(c.ops[0], ast.Eq) and {ast.unparse(c.left), ast.unparse(c.comparators[0])} & wanted and any(isinstance(s_, ast.Attribute) and s_.attr == "app_id" and isinstance(s_.value, ast.Name) and s_.value.id == r.value.id for s_ in (c.left, c.comparators[0])) for c in conds)
            ctx.add("R6", f"{f.qualname}::returned-app-has-the-requested-id", ok, f.loc(r), "" if ok else f"`{r.value.id}` (taken from a module attribute) is returned without `{r.value.id}.app_id == {sorted(wanted)[0]}`: the monitor / a worker asking for one application gets ANOTHER application's object - reads, purges and routing then hit the wrong tenant")
    ctx.floor("R6", "app lookups by id", n, 2)
    app = repo.cls("Pynenc")
    new = app.methods.get("__new__")
    if new is None:
        raise AnalysisError("anchor-vanished: Pynenc.__new__")
    conf_params = [p for p in new.params[1:]]
    calls = [c for c in calls_in(new.node) if call_name(c) == "ConfigPynenc"]
    for c in calls:
        passed = {k.arg for k in c.keywords if isinstance(k.value, ast.Name) and k.value.id == k.arg} | {a.id for a in c.args if isinstance(a, ast.Name)}
        ok = set(conf_params) <= passed
        ctx.add("R6", f"{new.qualname}::instance-lookup-resolves-the-id-from-all-configuration-sources", ok, new.loc(c), "" if ok else f"the id used to look an existing instance up is resolved from {sorted(passed)} only, the app itself also reads {sorted(set(conf_params) - passed)}: an app configured through the omitted source is given the id of the default configuration and receives ANOTHER app's object (shared broker, orchestrator, state backend; its purge wipes the other app)")
    ctx.floor("R6", "instance registry lookups", len(calls), 1)


def run(ctx: Context) -> None:
    sites = sqlmini.sites(ctx.repo)
    ctx.analysed["sql_sites"] = len(sites)
    r1(ctx, sites)
    r2(ctx)
    r3(ctx, sites)
    r4(ctx)
    r5(ctx, sites)
    r6(ctx)
    ctx.exhaustive = True
    ctx.not_decided += [
        "injectivity of the prefix for all strings beyond 'hash of the raw id is part of it' (hash collisions)",
        "behaviour of SQLite itself (identifier length limits, LIKE collation)",
        "interleaved operation sequences on several apps (follows from disjoint table sets + per-instance in-memory state)",
    ]
    ctx.assumptions += ["bound parameters cannot alter statement structure (sqlite3 API)"]
