import t_trig as T
from pynenc.invocation.status import InvocationStatus as S
from pynenc.runner.runner_context import RunnerContext
from pynenc import context
app=T.app
app.register_deferred_triggers()
rc = RunnerContext("A")
def run_all():
    n=0
    while True:
        got = list(app.orchestrator.get_invocations_to_run(10, rc))
        if not got: break
        for inv in got:
            try: inv.run(rc)
            except Exception: pass
            n+=1
    return n
def launched(task):
    return [ (app.state_backend.get_invocation(i).arguments.kwargs) for i in app.orchestrator.get_task_invocation_ids(task.task_id)]
# (a) two different invocations fail with the same exception type
T.boom(1); T.boom(2); run_all()
print("pending valid conditions after 2 failures:", len(app.trigger.get_valid_conditions()))
app.trigger.trigger_loop_iteration()
print("on_boom launches:", len(launched(T.on_boom)))
# (b) three events pending for a single-condition trigger (default logic AND)
for n in (1,2,3): app.trigger.emit_event("ev", {"n": n})
print("pending:", len(app.trigger.get_valid_conditions()))
app.trigger.trigger_loop_iteration()
print("on_ev launches:", launched(T.on_ev))
# (c) OR trigger, two occurrences pending
app.trigger.emit_event("ev2", {"n": 20}); app.trigger.emit_event("ev3", {"n": 30})
app.trigger.trigger_loop_iteration()
print("on_ev_or launches:", launched(T.on_ev_or))
# (d) CAS with expected None
from datetime import datetime, UTC
t1=datetime(2026,1,1,0,0,tzinfo=UTC); t2=datetime(2026,1,1,0,0,1,tzinfo=UTC)
print("CAS first:", app.trigger.store_last_cron_execution("c", t1, expected_last_execution=None), "CAS second with stale expected None:", app.trigger.store_last_cron_execution("c", t2, expected_last_execution=None))
