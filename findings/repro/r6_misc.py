import t_tasks as T, threading
from pynenc.invocation.status import InvocationStatus as S
from pynenc.runner.runner_context import RunnerContext
from pynenc.exceptions import RetryError, PynencError
app=T.app; app.purge()
print("== C20 queue_view logic (drain `limit`, requeue) on a queue longer than limit")
ids=[T.add(i).invocation_id for i in range(5)]
before=list(app.broker._queue)
limit=2; pend=[]
for _ in range(min(limit, app.broker.count_invocations())):
    if i:=app.broker.retrieve_invocation(): pend.append(app.state_backend.get_invocation(i))
for inv in pend: app.broker.route_invocation(inv.invocation_id)
after=list(app.broker._queue)
print(" order preserved:", before==after, [x[:4] for x in before], "->", [x[:4] for x in after])
print("== C05 PynencError positional args")
e=RetryError("try later"); s=app.state_backend.serialize_exception(e); d=app.state_backend.deserialize_exception(s)
print(" in:", type(e).__name__, e.args, " out:", type(d).__name__, d.args)
print("== C15 reserved-prefix string / cached caller object")
from pynenc.serializer.constants import ReservedKeys
v=ReservedKeys.CLIENT_DATA.value+" is just a user string"
ser=app.client_data_store.serialize(v)
try: print(" round trip:", app.client_data_store.resolve(ser)==v)
except Exception as ex: print(" resolve raised", type(ex).__name__, str(ex)[:60])
big=list(range(2000)); key=app.client_data_store.serialize(big); big.append("mutated-after-serialize")
print(" is reference:", app.client_data_store.is_reference(key), " resolves to content it was created from:", app.client_data_store.resolve(key)==list(range(2000)))
print("== C15 canonical identity on batch path with common_args")
from pynenc.call import Call
from pynenc.arguments import Arguments
c1=Call(T.add, Arguments.from_call(T.add.func, 1))
g=T.add.parallelize([{"x":1},{"x":5}], common_args={})   # no common -> prepare_arguments path
print(" no-common batch same identity as plain call:", g.invocations[0].call.call_id==c1.call_id)
g2=T.add.parallelize([{"x":1},{"x":5}], common_args={"y": 2})
c2=Call(T.add, Arguments.from_call(T.add.func, 1, 2))
g3=T.add.parallelize([{"x":1},{"x":5}], common_args={"x": 1}) if False else None
# defaults omitted on the common_args batch path:
g4=T.add.parallelize([{"x":1},{"x":5}], common_args={"x":1}) if False else None
print(" with common_args {y:2}: same identity as add(1,2):", g2.invocations[0].call.call_id==c2.call_id, g2.invocations[0].call.serialized_arguments)
g5=T.three.parallelize([{"x":1},{"x":5}], common_args={"y": 2})
c5=Call(T.three, Arguments.from_call(T.three.func, 1, 2))
print(" default z omitted on batch+common path: same identity as three(1,2):", g5.invocations[0].call.call_id==c5.call_id, sorted(g5.invocations[0].call.serialized_arguments), "vs", sorted(c5.serialized_arguments))
