import t_tasks as T, tempfile, os
from pynenc import PynencBuilder
from pynenc.invocation.status import InvocationStatus as S
from pynenc.runner.runner_context import RunnerContext
from pynenc.identifiers.invocation_id import InvocationId
rc=RunnerContext("A")
d=tempfile.mkdtemp(); 
apps={"mem":PynencBuilder().memory().app_id("sib").build(), "sqlite":PynencBuilder().sqlite(sqlite_db_path=os.path.join(d,"x.db")).app_id("sib").build()}
for name,app in apps.items():
    out=[]
    for label,fn in [("set_status(unknown id, PENDING)", lambda: app.orchestrator._atomic_status_transition(InvocationId("nope"), S.PENDING, "A")),
                     ("set_status(unknown id, REGISTERED)", lambda: app.orchestrator._atomic_status_transition(InvocationId("nope2"), S.REGISTERED, "A")),
                     ("get_app_info() missing", lambda: (app.state_backend.purge() , app.state_backend.get_app_info()) if name=="sqlite" else (type(app.state_backend)._app_info_registry.pop("sib",None), app.state_backend.get_app_info())),
                    ]:
        try: r=fn(); out.append(f"{label}: ok {getattr(r,'status',r)}")
        except Exception as e: out.append(f"{label}: {type(e).__name__}")
    print(name, "|", " ; ".join(out))
import shutil; shutil.rmtree(d)
