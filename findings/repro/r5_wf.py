import t_wf as T
from pynenc.runner.runner_context import RunnerContext
app=T.app; rc=RunnerContext("A")
a = T.wf_task("first"); b = T.wf_task("second")
for inv in list(app.orchestrator.get_invocations_to_run(5, rc)): inv.run(rc)
# replay of the first workflow in the same process (e.g. retry / recovery re-run): re-run body of `a`
inv_a = app.state_backend.get_invocation(a.invocation_id)
from pynenc import context
prev = context.swap_dist_invocation_context(app.app_id, inv_a)
T.wf_task.func("first-replay")
context.swap_dist_invocation_context(app.app_id, prev)
for s in T.seen: print(s[0], "| invocation wf:", s[1], "| executor bound to wf:", s[2], "|", [round(v,4) if isinstance(v,float) else v[:8] for v in s[3]])
print("workflow data keys per workflow:", {str(k)[:8]: sorted(v) for k,v in app.state_backend._workflow_data.items()})
