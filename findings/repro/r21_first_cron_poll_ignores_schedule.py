# C13/R10: BaseTrigger._should_trigger_cron_condition evaluates the schedule only when a previous execution is
# known (cached or stored).  The first poll of a condition that never fired skips `is_satisfied_by` altogether and goes
# straight to the compare-and-swap: a yearly cron ("0 0 1 1 *") yields an occurrence at whatever moment the first
# runner starts polling - "polls outside any window yield none" does not hold.  Documentation only.
import logging, sys
logging.disable(logging.CRITICAL)
from datetime import UTC, datetime
from pynenc.trigger.conditions.cron import CronCondition, CronContext
import t_r11

out = {}
for kind in ("mem", "sqlite"):
    app = t_r11.app_mem if kind == "mem" else t_r11.app_sql
    app.purge()
    trig = app.trigger
    cond = CronCondition("0 0 1 1 *")                       # midnight of January 1st
    trig.register_condition(cond)
    now = datetime(2026, 6, 15, 10, 17, 42, tzinfo=UTC)     # a June morning: months away from any window
    in_window = cond.is_satisfied_by(CronContext(timestamp=now))
    fired = trig._should_trigger_cron_condition(cond, now)
    out[kind] = (in_window, fired is not None)
print("(schedule satisfied at the poll time, occurrence produced):", out)
sys.exit(1 if any(f and not w for w, f in out.values()) else 0)
