"""C20 - monitoring pages only observe: a GET never changes the system.

R1 mutator inference: a function is a store mutator when it writes a store attribute of a
   component class (frozen store / cache table), executes a non-read SQL statement, or
   (transitively) calls one
R2 no function registered with a GET decorator reaches a mutator over the resolved,
   over-approximated call graph (properties and function references included); templates do not
   read side-effect properties
R3 handlers that do reach a mutator are registered with POST / PUT / DELETE only
"""

from __future__ import annotations

import ast
import json
import re

from .. import sqlmini
from ..callgraph import build, top_level_owner
from ..flow import aliased_store_mutations, class_live_returns, call_name, calls_in, mem_store_writes
from ..loader import AnalysisError, ClassInfo, FuncInfo, walk_no_nested
from ..report import VERIF, Context

PROPERTY = "C20"
TECHNIQUE = "static analysis: effect (mutator) inference + may-reach over a class-hierarchy-expanded call graph from every GET route; Jinja template attribute scan"
STORES = VERIF / "spec" / "stores.json"
HTTP_METHODS = ("get", "post", "put", "delete", "patch", "head", "options", "api_route", "websocket")


def component_classes(ctx: Context, spec: dict) -> list[ClassInfo]:
    out = []
    for b in spec["component_bases"]:
        c = ctx.repo.cls(b)
        out.append(c)
        out.extend(c.all_subclasses())
    return out


def routes(ctx: Context) -> list[tuple[FuncInfo, str, str]]:
    """(handler, METHOD, path) for every function decorated with <router|app>.<method>(...)"""
    out = []
    for f in ctx.repo.all_functions():
        if not f.module.name.startswith("pynmon"):
            continue
        for d in f.node.decorator_list:
            if isinstance(d, ast.Call) and isinstance(d.func, ast.Attribute) and d.func.attr in HTTP_METHODS:
                path = ast.unparse(d.args[0]) if d.args else "?"
                method = d.func.attr.upper()
                if method == "API_ROUTE":
                    ms = [k.value for k in d.keywords if k.arg == "methods"]
                    method = ast.unparse(ms[0]) if ms else "GET"
                out.append((f, method, f"{ast.unparse(d.func.value)}:{path}"))
    return out


def base_mutators(ctx: Context, spec: dict, comps: list[ClassInfo], sites) -> dict[str, tuple[str, str]]:
    """qualname -> (where, why) for functions that directly mutate a store."""
    not_store = set(spec["not_store"])
    read_verbs = tuple(spec["sql_read_verbs"])
    out: dict[str, tuple[str, str]] = {}
    comp_q = {c.qualname for c in comps}
    for c in comps:
        for m in c.methods.values():
            if m.name in ("__init__", "__setstate__", "__getstate__"):
                continue
            for w in mem_store_writes(m.node):
                if w.attr in not_store:
                    continue
                # lazily initialised holder: `if self._x is None: self._x = ...` of a non-container
                out.setdefault(m.qualname, (m.loc(w.node), f"writes self.{w.attr} ({w.how})"))
            # store values mutated through a local alias (flow-sensitive reaching definitions)
            for node, name, attr in aliased_store_mutations(m.node, None, class_live_returns(m.cls)):
                if attr in not_store:
                    continue
                out.setdefault(m.qualname, (m.loc(node), f"mutates self.{attr} through the local alias `{name}`"))
            # class-level registries: ClassName._registry[...] = ...
            for n in walk_no_nested(m.node):
                if isinstance(n, (ast.Assign, ast.Delete)):
                    tgts = n.targets
                    for t in tgts:
                        if isinstance(t, ast.Subscript) and isinstance(t.value, ast.Attribute) and isinstance(t.value.value, ast.Name) and t.value.value.id in {k.name for k in comps}:
                            out.setdefault(m.qualname, (m.loc(n), f"writes class-level registry {ast.unparse(t.value)}"))
    for s in sites:
        v = s.verb
        if v.startswith(read_verbs) or v in ("?",):
            continue
        t = " ".join(s.template.upper().split())
        if t.startswith(("BEGIN", "PRAGMA", "COMMIT")):
            continue
        owner = top_level_owner(s.func)
        if s.func.name in ("_init_tables", "__init__") or s.func.name.startswith("_init_"):
            continue  # schema creation (CREATE ... IF NOT EXISTS) at component construction
        out.setdefault(owner.qualname, (s.where, f"executes {v} on {sqlmini.target_table(s.template) or s.tables[:1]}"))
    return out


def guard_g1(ctx: Context) -> bool:
    """from_dto passes stored_in_backend=True and store_in_backend upserts only when not stored."""
    di = ctx.repo.cls("DistributedInvocation")
    fd = di.methods.get("from_dto")
    sib = di.methods.get("store_in_backend")
    init = di.methods.get("__init__")
    if fd is None or sib is None or init is None:
        return False
    ok1 = False
    for c in calls_in(fd.node):
        if isinstance(c.func, ast.Name) and c.func.id == "cls":
            for k in c.keywords:
                if k.arg == "stored_in_backend" and isinstance(k.value, ast.Constant) and k.value.value is True:
                    ok1 = True
    # every upsert in store_in_backend happens only under `not self._stored_in_backend` (nested if or guard clause alike)
    from ..cfg import build_cfg
    from ..flow import conditions_at, parent_map

    g_ = build_cfg(sib.node)
    pm_ = parent_map(sib.node)
    ups = [c for c in calls_in(sib.node) if call_name(c) == "upsert_invocations"]
    ok2 = bool(ups) and all(any(ast.unparse(t).replace(" ", "") == "notself._stored_in_backend" for t in conditions_at(g_, sib.node, c, pm_)) for c in ups)
    ok3 = any(isinstance(n, ast.Assign) and ast.unparse(n.targets[0]) == "self._stored_in_backend" and ast.unparse(n.value) == "stored_in_backend" for n in walk_no_nested(init.node))
    # the assignment precedes the store_in_backend() call
    return ok1 and ok2 and ok3


def guard_g2_static(ctx: Context) -> bool:
    lc = ctx.repo.cls("LazyCall")
    init = lc.methods.get("__init__")
    if init is None:
        return False
    a = init.node.args
    params = [x.arg for x in a.args]
    if "_serialized_arguments" not in params:
        return False
    i = params.index("_serialized_arguments")
    n_def = len(a.defaults)
    has_default = i >= len(params) - n_def
    ann = a.args[i].annotation
    non_optional = ann is not None and "None" not in ast.unparse(ann)
    fwd = False
    for c in calls_in(init.node):
        if isinstance(c.func, ast.Attribute) and c.func.attr == "__init__":
            for k in c.keywords:
                if k.arg == "_serialized_arguments" and isinstance(k.value, ast.Name) and k.value.id == "_serialized_arguments":
                    fwd = True
    # Call.serialized_arguments computes only under `if self._serialized_arguments is None`
    prop = ctx.repo.cls("Call").methods.get("serialized_arguments")
    guarded = False
    if prop is not None:
        for n in walk_no_nested(prop.node):
            if isinstance(n, ast.If) and ast.unparse(n.test).replace(" ", "") == "self._serialized_argumentsisNone":
                inside = [c for c in calls_in(n) if call_name(c) == "serialize_arguments"]
                outside = [c for c in calls_in(prop.node) if call_name(c) == "serialize_arguments" and not any(x is c for x in ast.walk(n))]
                guarded = bool(inside) and not outside
    # LazyCall does not override serialized_arguments
    return (not has_default) and non_optional and fwd and guarded and "serialized_arguments" not in lc.methods


def template_attr_chains(ctx: Context) -> list[tuple[str, int, str]]:
    out = []
    tdir = ctx.repo.root / "pynmon" / "templates"
    if not tdir.is_dir():
        raise AnalysisError("anchor-vanished: pynmon/templates")
    for p in sorted(tdir.rglob("*.html")):
        txt = p.read_text(encoding="utf-8", errors="replace")
        for m in re.finditer(r"\{\{(.*?)\}\}|\{%(.*?)%\}", txt, re.S):
            expr = m.group(1) or m.group(2) or ""
            line = txt.count("\n", 0, m.start()) + 1
            for a in re.finditer(r"\.([A-Za-z_][A-Za-z_0-9]*)\b(\s*\()?", expr):
                out.append((p.relative_to(ctx.repo.root).as_posix(), line, a.group(1) + ("()" if a.group(2) else "")))
    return out


_APP_SOURCES = ("state_backend.", "orchestrator.", "broker.", "trigger.", "client_data_store.", "app.", "invocation.", ".result", ".arguments", ".get_result(", ".get_exception(")


def r5(ctx: Context) -> None:
    """What a page shows is the application's own object more often than a copy (results and arguments come out of the
    client data store's process-local cache)."""
    from ..flow import MUTATING_METHODS, build_cfg, cfg_node_of, parent_map, reaching_definitions

    ctx.rule("R5", "the monitor never changes an object the application handed it: in pynmon no in-place mutation (mutating method, `del x[..]`, item assignment, augmented item assignment) is applied to a local whose reaching definition is the result of a call into the application (state backend, orchestrator, broker, trigger, client data store, an invocation's result / arguments) - such a value can be the cached object later readers receive; a page that trims or annotates it for display must work on a copy")
    n = 0
    for f in ctx.repo.all_functions():
        if not f.module.name.startswith("pynmon."):
            continue
        g = None
        for x in walk_no_nested(f.node):
            root = None
            if isinstance(x, ast.Call) and isinstance(x.func, ast.Attribute) and x.func.attr in MUTATING_METHODS:
                root = x.func.value
            elif isinstance(x, (ast.Assign, ast.Delete)):
                for t in x.targets:
                    if isinstance(t, ast.Subscript):
                        root = t.value
            elif isinstance(x, ast.AugAssign) and isinstance(x.target, ast.Subscript):
                root = x.target.value
            if root is None:
                continue
            while isinstance(root, (ast.Subscript, ast.Attribute)):
                root = root.value
            if not isinstance(root, ast.Name):
                continue
            if g is None:
                g = build_cfg(f.node)
                defs, IN = reaching_definitions(g)
                pm = parent_map(f.node)
            n += 1
            src = None
            for nd in cfg_node_of(g, f.node, x, pm):
                for d in IN[nd.id]:
                    if d.name == root.id and d.kind == "assign" and isinstance(d.value, (ast.Call, ast.Attribute, ast.Await)):
                        txt = ast.unparse(d.value)
                        if any(k in txt for k in _APP_SOURCES) and not (isinstance(d.value, ast.Call) and call_name(d.value) in ("list", "dict", "set", "sorted", "tuple", "copy", "deepcopy", "loads")):
                            src = txt
            if src is not None:
                ctx.fail("R5", f"{f.qualname}::mutates-a-value-obtained-from-the-app::{root.id}", f.loc(x), f"`{ast.unparse(x)[:60]}` changes `{root.id}` in place, which is `{src[:60]}`: when that call answers from a process-local cache (externalised results and arguments do) every later reader - the caller's result(), another page - receives the modified object")
    ctx.ok("R5", "pynmon::in-place-mutations-scanned", "pynmon/", f"{n} in-place mutations of locals examined")
    ctx.floor("R5", "in-place mutations of locals in pynmon", n, 20)


def run(ctx: Context) -> None:
    ctx.rule("R1", "mutator inference: writes to store attributes of component classes (frozen store/cache table), non-read SQL statements, class-level registries; transitive closure over the call graph")
    ctx.rule("R2", "no handler registered with a GET decorator reaches a store mutator over the over-approximated call graph; no template expression reads a side-effect property (result / results / async_result) or calls a mutator by name")
    ctx.rule("R3", "every handler that reaches a mutator is registered with POST/PUT/DELETE/PATCH only")
    repo = ctx.repo
    spec = json.loads(STORES.read_text())
    comps = component_classes(ctx, spec)
    sites = sqlmini.sites(repo)
    rs = ctx.resolver
    cg = build(repo, rs, name_classes=comps + [repo.cls("BaseInvocation"), repo.cls("BaseInvocationGroup"), repo.cls("Pynenc"), repo.cls("Task"), repo.cls("BaseRunner")])
    ctx.analysed["callgraph"] = cg.stats
    muts = base_mutators(ctx, spec, comps, sites)
    ctx.analysed["direct_mutators"] = len(muts)
    ctx.floor("R1", "direct store mutators", len(muts), 60)
    # R1 sanity instances: the operations the property names are inferred as mutators
    must = ["BaseBroker.route_invocation", "BaseBroker.retrieve_invocation", "BaseBroker.purge", "BaseOrchestrator._atomic_status_transition",
            "BaseStateBackend._set_result", "BaseStateBackend._add_histories", "BaseOrchestrator.register_runner_heartbeats", "BaseTrigger.claim_trigger_run"]
    for m in must:
        cn, mn = m.split(".")
        ovs = [o for o in repo.overrides(repo.cls(cn), mn) if not o.is_abstract]
        if not ovs:
            raise AnalysisError(f"anchor-vanished: no implementation of {m}")
        for o in ovs:
            # direct or through a same-class helper
            reach = cg.reach(o.qualname)
            ok = any(q in muts for q in reach)
            ctx.add("R1", f"inferred-mutator::{o.qualname}", ok, o.loc(), "" if ok else "a known state-changing operation is not inferred as a mutator (the inference lost a store write)")
    # guarded pruning
    g1 = guard_g1(ctx)
    ctx.add("R1", "guard::G1::from_dto-never-upserts", g1, "pynenc/invocation/dist_invocation.py", "" if g1 else "cannot re-establish that DistributedInvocation.from_dto constructs without writing to the state backend (stored_in_backend=True / `if not self._stored_in_backend`)")
    pruned = spec["pruned_edges"]
    g2_static = guard_g2_static(ctx)
    ctx.add("R1", "guard::G2::lazycall-carries-serialized-arguments", g2_static, "pynenc/call.py", "" if g2_static else "cannot re-establish that LazyCall always carries its stored serialized arguments")
    raw_ctors = {"pynenc.call.Call.__init__", "pynenc.call.PreSerializedCall.__init__"}

    def make_prune(active: set):
        def prune(e) -> bool:
            for p in pruned:
                if e.src == p["src"] and e.dst.split(".")[-1] == p["dst_name"]:
                    g = p.get("guard")
                    return g is None or g in active
            return False
        return prune

    def reach_for(start: str):
        active = set()
        if g1:
            active.add("G1")
        if g2_static:
            active.add("G2")
        reach = cg.reach(start, make_prune(active))
        if "G2" in active:
            # per-handler part of G2: no raw Call constructor reachable except through LazyCall.__init__
            for q in list(reach):
                for e in cg.succ(q):
                    if e.dst in raw_ctors and q != "pynenc.call.LazyCall.__init__" and not q.startswith("pynenc.call."):
                        active.discard("G2")
            if "G2" not in active:
                reach = cg.reach(start, make_prune(active))
        return reach

    rts = routes(ctx)
    gets = [(f, m, p) for f, m, p in rts if m == "GET"]
    nong = [(f, m, p) for f, m, p in rts if m != "GET"]
    ctx.floor("R2", "GET routes", len(gets), 30)
    ctx.analysed["routes"] = {"GET": len(gets), "other": len(nong)}
    ctx.extra["get_routes"] = [f"{p} -> {f.qualname}" for f, m, p in gets]
    for f, m, p in rts:
        reach = reach_for(top_level_owner(f).qualname)
        hit = sorted(q for q in reach if q in muts)
        if m == "GET":
            if not hit:
                ctx.ok("R2", f"GET::{f.qualname}", f.loc(), f"{p}: {len(reach)} functions reachable, no store mutator")
            seen_m = set()
            comp_q = {c.qualname for c in comps}
            for q in hit:
                ch = cg.chain(reach, q)
                # the operation = the first component-API method entered on the chain
                mname = q.split(".")[-1]
                for e in ch:
                    fi = repo.functions.get(e.dst)
                    if fi is not None and fi.cls is not None and fi.cls.qualname in comp_q:
                        mname = fi.name
                        break
                if mname in seen_m:
                    continue  # one finding per (handler, operation): sibling backends / helpers share the key
                seen_m.add(mname)
                path = [f"{repo.functions[e.src].module.relpath if e.src in repo.functions else '?'}:{e.lineno} {e.src.split('.')[-1]} -> {e.dst} [{e.how}] via {e.text}" for e in ch]
                where, why = muts[q]
                ctx.fail("R2", f"GET::{f.qualname}::reaches::{mname}", f.loc(), f"{p}: reaches store mutator {q} ({why} at {where})", path)
        else:
            if hit:
                ctx.ok("R3", f"{m}::{f.qualname}", f.loc(), f"{p}: mutating endpoint registered with {m}")
            else:
                ctx.ok("R3", f"{m}::{f.qualname}::no-mutation", f.loc(), f"{p}")
        # unresolved calls inside handlers are reported as information
    unres = sum(len(v) for k, v in cg.unresolved.items() if k.startswith("pynmon"))
    ctx.analysed["unresolved_calls_in_pynmon"] = unres
    # templates
    chains = template_attr_chains(ctx)
    ctx.analysed["template_attribute_reads"] = len(chains)
    ctx.floor("R2", "template attribute reads", len(chains), 300)
    se = spec["side_effect_properties"]
    mut_names = {q.split(".")[-1] for q in muts} - {"get", "items", "keys", "values"}
    bad = 0
    for path, line, attr in chains:
        nm = attr.rstrip("()")
        if nm in se:
            bad += 1
            ctx.fail("R2", f"template::{path}::reads::{nm}", f"{path}:{line}", f"template reads the side-effect property .{nm} ({se[nm]})")
        elif attr.endswith("()") and nm in mut_names and not nm.startswith("_"):
            bad += 1
            ctx.fail("R2", f"template::{path}::calls::{nm}", f"{path}:{line}", f"template calls .{nm}(), the name of a store mutator")
    if not bad:
        ctx.ok("R2", "templates::no-side-effect-reads", "pynmon/templates", f"{len(chains)} attribute reads scanned")
    # positive fixture for the zero-count rule: the scan must recognise a planted read
    fx = re.findall(r"\.([A-Za-z_]+)\b", "{{ invocation.result }}")
    ctx.add("R2", "selfcheck::template-scan-recognises-fixture", "result" in fx, "", "")
    # R4: a GET handler that pops from the queue and routes back (itself a reported mutation) must at least
    # compensate one to one - a weaker compensation loses messages instead of only reordering them
    ctx.rule("R4", "pop / re-route compensation inside a handler is one to one: every popped id is appended unconditionally to a list and exactly that list is iterated to route every element back")
    n4 = 0
    for f, m, p in rts:
        pops = [c for c in calls_in(f.node) if call_name(c) == "retrieve_invocation"]
        pushes = [c for c in calls_in(f.node) if call_name(c) in ("route_invocation", "route_invocations")]
        if not pops or not pushes:
            continue
        n4 += 1
        pm_ = {id(ch): par for par in ast.walk(f.node) for ch in ast.iter_child_nodes(par)}

        def ancestors(n):
            cur = pm_.get(id(n))
            while cur is not None and cur is not f.node:
                yield cur
                cur = pm_.get(id(cur))

        problems: list[str] = []
        collected: set[str] = set()
        for c in pops:
            # the popped id: walrus target or assignment target
            par = pm_.get(id(c))
            idname = par.target.id if isinstance(par, ast.NamedExpr) and isinstance(par.target, ast.Name) else (par.targets[0].id if isinstance(par, ast.Assign) and isinstance(par.targets[0], ast.Name) else None)
            if idname is None:
                problems.append("the popped id is not bound to a name")
                continue
            apps = [a for a in calls_in(f.node) if call_name(a) == "append" and isinstance(a.func, ast.Attribute) and isinstance(a.func.value, ast.Name) and a.args and idname in {x.id for x in ast.walk(a.args[0]) if isinstance(x, ast.Name)}]
            if not apps:
                problems.append(f"the popped id `{idname}` is not appended to a list (a dict / set forgets duplicate messages)")
                continue
            for a in apps:
                conds = [x for x in ancestors(a) if isinstance(x, ast.If)]
                extra = [x for x in conds if not (any(y is c for y in ast.walk(x.test)) or (isinstance(x.test, ast.Name) and x.test.id == idname))]
                if extra:
                    problems.append(f"the popped id is kept only under `{ast.unparse(extra[0].test)[:50]}`")
                collected.add(a.func.value.id)
        for c in pushes:
            loops = [x for x in ancestors(c) if isinstance(x, (ast.For, ast.AsyncFor))]
            if call_name(c) == "route_invocations":
                src = c.args[0] if c.args else None
                if not (isinstance(src, ast.Name) and src.id in collected) and not (isinstance(src, (ast.ListComp, ast.GeneratorExp)) and isinstance(src.generators[0].iter, ast.Name) and src.generators[0].iter.id in collected and not src.generators[0].ifs):
                    problems.append("the batch routed back is not the list of popped messages")
                continue
            if not loops or not (isinstance(loops[0].iter, ast.Name) and loops[0].iter.id in collected):
                problems.append(f"the re-route loop does not iterate the list of popped messages ({ast.unparse(loops[0].iter)[:40] if loops else 'no loop'})")
                continue
            conds = [x for x in ancestors(c) if isinstance(x, ast.If) and any(x is y for y in ast.walk(loops[0]))]
            if conds:
                problems.append(f"re-routing is conditional on `{ast.unparse(conds[0].test)[:50]}`")
        ctx.add("R4", f"{f.qualname}::requeues-every-popped-message", not problems, f.loc(), "" if not problems else f"{p}: " + "; ".join(problems) + ": messages popped by the page are not all routed back - the page deletes queue entries")
        # nothing that can fail stands between the last pop and the first re-route (otherwise an error there - e.g. while
        # rendering the page - leaves the popped messages out of the queue for good)
        top = f.node.body
        def top_of(n):
            cur = n
            while pm_.get(id(cur)) is not None and pm_.get(id(cur)) is not f.node:
                cur = pm_.get(id(cur))
            return cur
        i_pop = max(top.index(top_of(c)) for c in pops if top_of(c) in top)
        i_push = min(top.index(top_of(c)) for c in pushes if top_of(c) in top)
        between = top[i_pop + 1:i_push] if i_pop < i_push else []
        risky = [st for st in between if any(isinstance(x, ast.Call) for x in ast.walk(st))]
        okb = i_pop < i_push and not risky
        ctx.add("R4", f"{f.qualname}::nothing-fallible-between-pop-and-requeue", okb, f.loc(risky[0]) if risky else f.loc(), "" if okb else (f"`{ast.unparse(risky[0])[:60]}` runs after the messages were popped and before they are routed back: if it raises, the popped messages are lost" if risky else "the re-routing does not follow the pops"))
    ctx.floor("R4", "handlers that pop and re-route", n4, 1)
    r5(ctx)
    # side-effect property reads in handler code (typed through the call graph: property edges)
    ctx.exhaustive = True
    ctx.not_decided += ["dynamic dispatch through Jinja filters/macros beyond textual attribute chains"]
    ctx.assumptions += [
        "the frozen store-vs-cache table (spec/stores.json) classifies component attributes correctly",
        "component construction (schema creation IF NOT EXISTS, registering the app's own info) is not an observable change",
    ]
