"""C01 - invocation lifecycle follows the documented state machine; finals absorbing.

R1 status table = documentation (SVG data-edge / markdown category tables / frozen spec)
R2 decision functions evaluated over the complete single-step space against the spec semantics
R3 validate dominates write, per backend; requested values reach the store only through it
R4 single writer (who-may-call / who-may-write)
R5 sibling agreement on what is persisted and how a record is read back
"""

from __future__ import annotations

import ast
import json
import re
from pathlib import Path

from .. import sqlmini
from ..absint import EnumVal, Interp, Obj, Raised
from ..flow import (ExcHierarchy, assigned_from, call_name, calls_in, cfg_node_of, derived_names,
                    func_cfg, mem_store_writes, names_in, parent_map)
from ..loader import AnalysisError, FuncInfo, walk_no_nested
from ..report import VERIF, Context
from ..statusmodel import FLAGS, extract

PROPERTY = "C01"
TECHNIQUE = "static analysis: extraction of the status table from the AST and comparison with the documented graph (SVG / markdown), exhaustive finite-domain abstract evaluation of the pure decision functions over the complete single-step space, validate-dominates-write on the CFG of each backend, who-may-write / who-may-call rules, sibling agreement on persisted columns"
LEVEL_TEXT = "Every single step (status x requested status x owner x requester: 1890 cases) decided exactly from the source of the pure status functions against the documented graph; backends decided structurally (validation dominates the only write). Multi-step histories follow by induction on the step relation; interleavings are C02."
SPEC = VERIF / "spec" / "lifecycle.json"
STATUS_COLUMNS = {"status", "status_runner_id", "status_timestamp"}
MEM_RECORD_ATTRS = {"invocation_status_record", "status_index"}


# ------------------------------------------------------------------------------------ docs
def parse_svg(path: Path) -> tuple[set[tuple[str, str]], set[str]]:
    if not path.exists():
        raise AnalysisError(f"anchor-vanished: {path}")
    txt = path.read_text()
    edges = set()
    for m in re.finditer(r'data-edge="([A-Z_]+)-(?:>|&gt;)([A-Z_]+)"', txt):
        edges.add((m.group(1), m.group(2)))
    nodes = set(re.findall(r'data-status="([A-Z_]+)"', txt))
    return edges, nodes


def parse_md_tables(path: Path) -> dict[str, set[str]]:
    if not path.exists():
        raise AnalysisError(f"anchor-vanished: {path}")
    out: dict[str, set[str]] = {}
    heading = None
    for line in path.read_text().splitlines():
        hm = re.match(r"#+\s+(.*)", line)
        if hm:
            heading = hm.group(1).strip()
            continue
        tm = re.match(r"\|\s*`([A-Z_]+)`\s*\|", line)
        if tm and heading:
            out.setdefault(heading, set()).add(tm.group(1))
    return out


def r1_docs(ctx: Context, sm) -> None:
    ctx.rule("R1", "status table (edges, final / available / owned / recovery-override sets) equals the documented graph: SVG data-edge attributes, markdown category tables, the frozen spec and the clauses named in the property")
    root = ctx.repo.root
    svg_edges, svg_nodes = parse_svg(root / "docs/_static/invocation_state_machine.svg")
    md = parse_md_tables(root / "docs/usage_guide/invocation_status.md")
    spec = json.loads(SPEC.read_text())
    code_edges = sm.edges()
    where = f"{sm.module.relpath}"
    ctx.floor("R1", "documented edges", len(svg_edges), 20)
    # --- code vs SVG, edge by edge (each edge is one obligation)
    for e in sorted(code_edges | svg_edges):
        a, b = e
        key = f"edge::{a}->{b}"
        line = sm.def_lines.get(None if a == "START" else a, 0)
        if e in code_edges and e in svg_edges:
            ctx.ok("R1", key, f"{where}:{line}")
        elif e in code_edges:
            ctx.fail("R1", key + "::not-documented", f"{where}:{line}", f"transition {a}->{b} is allowed by the code table but is not an edge of the documented lifecycle graph")
        else:
            ctx.fail("R1", key + "::missing-in-code", f"{where}:{line}", f"documented edge {a}->{b} is not allowed by the code table")
    code_nodes = set(sm.members)
    ctx.add("R1", "status-set=svg-nodes", code_nodes == svg_nodes, where, f"code-only={sorted(code_nodes - svg_nodes)} svg-only={sorted(svg_nodes - code_nodes)}")
    # --- category tables
    cats = {
        "Available for Run": ("available_for_run", sm.available),
        "Owned by Runner": ("requires_ownership", sm.owned),
        "Recovery Statuses": ("overrides_ownership", sm.overriding),
        "Final Statuses": ("is_final", sm.final),
    }
    for heading, (flag, code_set) in cats.items():
        doc = md.get(heading)
        if doc is None:
            raise AnalysisError(f"anchor-vanished: markdown table '{heading}'")
        for s in sorted(code_set | doc):
            okk = (s in code_set) == (s in doc)
            ctx.add("R1", f"flag::{flag}::{s}", okk, f"{where}:{sm.def_lines.get(s, 0)}",
                    "" if okk else f"{s}: code {flag}={s in code_set}, documentation table '{heading}' says {s in doc}")
    all_md = md.get("All Invocation Statuses", set())
    ctx.add("R1", "status-set=markdown", code_nodes == all_md, where, f"code-only={sorted(code_nodes - all_md)} md-only={sorted(all_md - code_nodes)}")
    # --- clauses the property itself names
    for f in ("SUCCESS", "FAILED", "CONCURRENCY_CONTROLLED_FINAL"):
        d = sm.defs.get(f)
        okk = d is not None and d["is_final"] and not d["allowed_transitions"]
        ctx.add("R1", f"named::final-absorbing::{f}", okk, f"{where}:{sm.def_lines.get(f, 0)}", "" if okk else f"{f} must be final with no outgoing transition")
    okk = sm.defs[None]["allowed_transitions"] == {"REGISTERED"}
    ctx.add("R1", "named::start-at-REGISTERED", okk, f"{where}:{sm.def_lines.get(None, 0)}", "" if okk else f"a new invocation may start at {sorted(sm.defs[None]['allowed_transitions'])}")
    okk = sm.owned == {"PENDING", "RUNNING", "PAUSED", "RESUMED"}
    ctx.add("R1", "named::owned-set", okk, where, "" if okk else f"requires_ownership set is {sorted(sm.owned)}")
    okk = sm.overriding == {"PENDING_RECOVERY", "RUNNING_RECOVERY"}
    ctx.add("R1", "named::recovery-override-set", okk, where, "" if okk else f"overrides_ownership set is {sorted(sm.overriding)}")
    # --- frozen spec: drift note only when code and docs agree with each other
    spec_edges = {tuple(e) for e in spec["edges"]}
    if spec_edges != code_edges and code_edges == svg_edges:
        ctx.note(f"spec-drift: code and documentation agree with each other but differ from the frozen copy: +{sorted(code_edges - spec_edges)} -{sorted(spec_edges - code_edges)}")
    ctx.analysed["documented_edges"] = len(svg_edges)
    ctx.analysed["code_edges"] = len(code_edges)


# ------------------------------------------------------------------------------------ absint
def r2_decision(ctx: Context, sm) -> None:
    ctx.rule("R2", "status_record_transition (validate_transition, validate_ownership, compute_new_owner) evaluated from its AST on all (current|none, owner) x (requested, requester) cases: error <=> missing edge or ownership violation per the documented semantics; otherwise new record = (requested, owner per acquire/keep/release)")
    repo = ctx.repo
    m = sm.module
    if "status_record_transition" not in m.functions:
        raise AnalysisError("anchor-vanished: status_record_transition")
    spec = json.loads(SPEC.read_text())
    spec_edges = {tuple(e) for e in spec["edges"]}
    owned = set(spec["owned_by_runner"])
    overrides = set(spec["recovery_overrides_ownership"])
    acquires = set(spec["acquires_ownership"])
    interp = Interp(repo, m, sm.enum_cls, sm.members)
    entry = m.functions["status_record_transition"]
    rec_cls = sm.record_cls
    if rec_cls is None:
        raise AnalysisError("anchor-vanished: status record class")
    hier = ExcHierarchy(repo)
    statuses = sorted(sm.members)
    owners = [None, "A", "B"]
    n = 0
    bad: dict[str, tuple[str, str]] = {}
    for cur in [None] + statuses:
        for owner in owners:
            for req in statuses:
                for who in owners:
                    n += 1
                    rec = None
                    if cur is not None:
                        rec = Obj(rec_cls, {"status": interp.enum_vals[cur], "runner_id": owner, "timestamp": "T0"})
                    frm = cur or "START"
                    allowed = (frm, req) in spec_edges
                    own_err = rec is not None and req not in overrides and (
                        (cur in owned and who != owner) or (req in acquires and not who)
                    )
                    if req in acquires:
                        exp_owner = who
                    elif req in owned:
                        exp_owner = owner if rec is not None else None
                    else:
                        exp_owner = None
                    try:
                        res = interp.call_function(entry, [rec, interp.enum_vals[req], who], {})
                        got = ("ok", res)
                    except Raised as r:
                        got = ("raise", r.exc.cls)
                    if rec is not None and (rec.fields["status"] != interp.enum_vals[cur] or rec.fields["runner_id"] != owner or rec.fields["timestamp"] != "T0"):
                        bad.setdefault(f"mutates-current-record::{frm}->{req}", (f"{m.relpath}:{entry.lineno}", "the current record object is modified in place"))
                    case = f"{frm}[owner={owner}]->{req}[by={who}]"
                    if not allowed or own_err:
                        if got[0] != "raise" or not hier.is_sub(got[1], "InvocationStatusError"):
                            kind = "missing-edge" if not allowed else "ownership"
                            k = f"accepts-forbidden::{kind}::{frm}->{req}" + ("" if not allowed else f"::owner={_abs(owner)}::by={_abs(who, owner)}")
                            bad.setdefault(k, (f"{m.relpath}:{entry.lineno}", f"case {case}: expected a status error ({kind}), evaluation gives {got[0]} {got[1] if got[0]=='raise' else _rec(got[1])}"))
                    else:
                        if got[0] == "raise":
                            k = f"rejects-allowed::{frm}->{req}::owner={_abs(owner)}::by={_abs(who, owner)}"
                            bad.setdefault(k, (f"{m.relpath}:{entry.lineno}", f"case {case}: documented as allowed, evaluation raises {got[1]}"))
                        else:
                            r = got[1]
                            if not isinstance(r, Obj) or r.fields.get("status") != interp.enum_vals[req]:
                                bad.setdefault(f"wrong-new-status::{frm}->{req}", (f"{m.relpath}:{entry.lineno}", f"case {case}: new record {_rec(r)}"))
                            elif r.fields.get("runner_id") != exp_owner:
                                k = f"wrong-new-owner::{frm}->{req}::owner={_abs(owner)}::by={_abs(who, owner)}"
                                bad.setdefault(k, (f"{m.relpath}:{entry.lineno}", f"case {case}: new owner {r.fields.get('runner_id')!r}, documented semantics give {exp_owner!r}"))
    ctx.extra["single_step_cases"] = n
    ctx.extra["absint_steps"] = interp.steps
    # one obligation per (from, to) pair, so the evidence counts are about distinct cases
    pairs = {(c or "START", r) for c in [None] + statuses for r in statuses}
    badpairs = set()
    for k, (where, detail) in bad.items():
        ctx.fail("R2", k, where, detail)
        mm = re.search(r"::([A-Z_]+)->([A-Z_]+)", k)
        if mm:
            badpairs.add((mm.group(1), mm.group(2)))
    for a, b in sorted(pairs - badpairs):
        ctx.ok("R2", f"pair::{a}->{b}", f"{m.relpath}:{entry.lineno}")
    # helpers used by guards elsewhere: is_final / is_available_for_run / can_transition_to
    for meth, flagset in (("is_final", set(spec["final"])), ("is_available_for_run", set(spec["available_for_run"]))):
        fm = sm.enum_cls.find_method(meth)
        if fm is None:
            raise AnalysisError(f"anchor-vanished: InvocationStatus.{meth}")
        for s in statuses:
            try:
                v = interp.call_function(fm, [interp.enum_vals[s]], {})
            except Raised as r:
                v = f"raise {r.exc.cls}"
            okk = v is (s in flagset) or v == (s in flagset)
            ctx.add("R2", f"guard::{meth}::{s}", okk, f"{m.relpath}:{fm.lineno}", "" if okk else f"{s}.{meth}() evaluates to {v}, documentation says {s in flagset}")
    fm = sm.enum_cls.find_method("can_transition_to")
    if fm is not None:
        wrong = []
        for a in statuses:
            for b in statuses:
                try:
                    v = interp.call_function(fm, [interp.enum_vals[a], interp.enum_vals[b]], {})
                except Raised as r:
                    v = f"raise {r.exc.cls}"
                if bool(v) != ((a, b) in spec_edges) or not isinstance(v, bool):
                    wrong.append(f"{a}->{b}={v}")
        ctx.add("R2", "guard::can_transition_to", not wrong, f"{m.relpath}:{fm.lineno}", "; ".join(wrong[:6]))


def _abs(v, owner="?"):
    if v is None:
        return "none"
    if owner == "?":
        return "some"
    return "owner" if v == owner else "other"


def _rec(r) -> str:
    if isinstance(r, Obj):
        return f"({r.fields.get('status')}, owner={r.fields.get('runner_id')!r})"
    return repr(r)


# ------------------------------------------------------------------------------------ R3
def _is_validate_call(c: ast.Call) -> bool:
    return call_name(c) == "status_record_transition"


def atomic_overrides(ctx: Context) -> list[FuncInfo]:
    base = ctx.repo.cls("BaseOrchestrator")
    ovs = [f for f in ctx.repo.overrides(base, "_atomic_status_transition") if not f.is_abstract]
    return ovs


def sql_writes_in(f: FuncInfo) -> list[sqlmini.SqlSite]:
    out = []
    for s in sqlmini.sites(f.module.__class__ and _repo_of(f)):
        pass
    return out


def _repo_of(f):  # pragma: no cover - placeholder (not used)
    return None


def r3_validate_dominates_write(ctx: Context) -> None:
    ctx.rule("R3", "in each _atomic_status_transition override every store write is reachable only through the normal exit of the status_record_transition call, whose arguments are (record read by the invocation_id parameter, status parameter, runner_id parameter); the requested status / runner id reach the store only through the returned record")
    repo = ctx.repo
    ovs = atomic_overrides(ctx)
    ctx.floor("R3", "_atomic_status_transition overrides", len(ovs), 2)
    all_sites = sqlmini.sites(repo)
    for f in ovs:
        qual = f.qualname
        where = f.loc()
        params = f.params  # self, invocation_id, status, runner_id
        if len(params) < 4:
            ctx.fail("R3", f"{qual}::signature", where, f"expected (self, invocation_id, status, runner_id), got {params}")
            continue
        p_id, p_status, p_runner = params[1], params[2], params[3]
        vcalls = [c for c in calls_in(f.node) if _is_validate_call(c)]
        if not vcalls:
            ctx.fail("R3", f"{qual}::no-validate-call", where, "the override never calls status_record_transition")
            continue
        g = func_cfg(repo, f)
        pm = parent_map(f.node)
        vnodes = []
        for c in vcalls:
            vnodes.extend(cfg_node_of(g, f.node, c, pm))
        vids = {n.id for n in vnodes}
        # --- argument discipline
        for c in vcalls:
            args = list(c.args) + [None] * 3
            kw = {k.arg: k.value for k in c.keywords}
            a_rec = args[0] or kw.get("current_record")
            a_st = args[1] or kw.get("new_status")
            a_run = args[2] or kw.get("runner_id")
            okk = isinstance(a_st, ast.Name) and a_st.id == p_status
            ctx.add("R3", f"{qual}::validate-arg::status", okk, f.loc(c), "" if okk else f"second argument of status_record_transition is {ast.unparse(a_st) if a_st else None}, expected the '{p_status}' parameter")
            okk = isinstance(a_run, ast.Name) and a_run.id == p_runner
            ctx.add("R3", f"{qual}::validate-arg::runner_id", okk, f.loc(c), "" if okk else f"third argument of status_record_transition is {ast.unparse(a_run) if a_run else None}, expected the '{p_runner}' parameter")
            # current record derives from a store read keyed by the id parameter
            okk = False
            detail = ""
            if isinstance(a_rec, ast.Name):
                srcs = _reaching_values(f, a_rec.id)
                okk = bool(srcs) and all(_reads_store_by(f, v, p_id, all_sites) for v in srcs)
                detail = "" if okk else f"'{a_rec.id}' is not (only) the record read from the store for '{p_id}': {[ast.unparse(v)[:60] for v in srcs]}"
            else:
                detail = f"first argument is {ast.unparse(a_rec) if a_rec else None}"
            ctx.add("R3", f"{qual}::validate-arg::current-record", okk, f.loc(c), detail)
        # --- writes (own body + private helpers of the same class, one level)
        writes = _collect_writes(repo, f, all_sites)
        if not writes:
            ctx.fail("R3", f"{qual}::no-store-write", where, "no store write found in the override (transition would not be persisted)")
            continue
        # names derived from the requested status / runner without passing through validation
        forbidden = derived_names(f.node, {p_status, p_runner}, stop=lambda v: any(_is_validate_call(c) for c in ast.walk(v) if isinstance(c, ast.Call)))
        vres = assigned_from(f.node, lambda v: any(_is_validate_call(c) for c in ast.walk(v) if isinstance(c, ast.Call)))
        vres = derived_names(f.node, vres)
        for w in writes:
            wn = cfg_node_of(g, f.node, w["anchor"], pm)
            if not wn:
                raise AnalysisError(f"cannot locate write in CFG: {ast.unparse(w['anchor'])[:60]}")
            for node in wn:
                # reachable without the normal out-edge of a validate node?
                reach = _reachable_without_normal_exit(g, vids)
                okk = node.id not in reach
                ctx.add("R3", f"{qual}::write-after-validate::{w['desc']}", okk, f.loc(w["anchor"]),
                        "" if okk else "this store write can execute on a path that did not pass (successfully) through status_record_transition")
            used = w["names"]
            leak = used & forbidden - vres
            okk = not leak
            ctx.add("R3", f"{qual}::write-uses-validated-record::{w['desc']}", okk, f.loc(w["anchor"]),
                    "" if okk else f"the write uses {sorted(leak)} (request parameters) directly instead of the record returned by status_record_transition")
            if w.get("value_names") is not None:
                okk = bool(w["value_names"] & vres)
                ctx.add("R3", f"{qual}::write-value-from-validate::{w['desc']}", okk, f.loc(w["anchor"]),
                        "" if okk else f"the persisted value {sorted(w['value_names'])} does not derive from the record returned by status_record_transition {sorted(vres)}")
        # --- the function returns the validated record
        rets = [n for n in walk_no_nested(f.node) if isinstance(n, ast.Return) and n.value is not None]
        for r in rets:
            rn = names_in(r.value)
            # the validated record itself, or a persist helper that is GIVEN the validated record (not a fresh read of the
            # store, which may already show another actor's later change)
            okk = bool(rn & vres) or any(_is_helper_call(repo, f, c) and any(names_in(a_) & vres for a_ in list(c.args) + [k.value for k in c.keywords]) for c in ast.walk(r.value) if isinstance(c, ast.Call))
            ctx.add("R3", f"{qual}::returns-validated-record", okk, f.loc(r), "" if okk else f"returns {ast.unparse(r.value)[:60]}, not the record produced by status_record_transition")


def _reachable_without_normal_exit(g, vids: set[int]) -> set[int]:
    seen: set[int] = set()
    stack = [g.entry]
    while stack:
        n = stack.pop()
        if n in seen:
            continue
        seen.add(n)
        for s, lab in g.succ[n]:
            if n in vids and lab != "exc":
                continue
            stack.append(s)
    return seen - vids


def _reaching_values(f: FuncInfo, name: str) -> list[ast.AST]:
    out = []
    for n in walk_no_nested(f.node):
        if isinstance(n, ast.Assign):
            for t in n.targets:
                if isinstance(t, ast.Name) and t.id == name:
                    out.append(n.value)
        elif isinstance(n, ast.AnnAssign) and isinstance(n.target, ast.Name) and n.target.id == name and n.value is not None:
            out.append(n.value)
        elif isinstance(n, ast.NamedExpr) and n.target.id == name:
            out.append(n.value)
    return out


def _reads_store_by(f: FuncInfo, value: ast.AST, p_id: str, all_sites) -> bool:
    """value is a read of the store keyed by the id parameter (directly or through a fetched row)."""
    from ..flow import self_attr

    # in-memory: self.<attr>.get(id) / self.<attr>[id]
    for n in ast.walk(value):
        if isinstance(n, (ast.Subscript, ast.Call)):
            a = self_attr(n)
            if a in MEM_RECORD_ATTRS and p_id in names_in(n):
                return True
    # SQL: names in value come from a cursor of a SELECT ... WHERE invocation_id = ? bound to p_id
    deps = names_in(value)
    frontier = set(deps)
    seen = set()
    while frontier:
        nm = frontier.pop()
        if nm in seen:
            continue
        seen.add(nm)
        for v in _reaching_values(f, nm):
            for c in ast.walk(v):
                if isinstance(c, ast.Call) and call_name(c) == "execute":
                    for s in all_sites:
                        if s.call is c and s.verb == "SELECT":
                            ps = sqlmini.param_exprs(s) or []
                            conds = sqlmini.conditions(sqlmini.where_clause(s.template))
                            if any(col.split(".")[-1] == "invocation_id" and op == "=" for col, op, _ in conds) and any(isinstance(p, ast.Name) and p.id == p_id for p in ps):
                                return True
            frontier |= names_in(v)
    return False


def _is_helper_call(repo, f: FuncInfo, c: ast.Call) -> bool:
    return (
        isinstance(c.func, ast.Attribute)
        and isinstance(c.func.value, ast.Name)
        and c.func.value.id == "self"
        and f.cls is not None
        and f.cls.find_method(c.func.attr) is not None
    )


def _collect_writes(repo, f: FuncInfo, all_sites) -> list[dict]:
    """Store writes in f and (one level) in same-class helpers it calls. Each write: anchor node
    in f, description, names used (mapped to f's scope), value names (if identifiable)."""
    out: list[dict] = []
    for w in mem_store_writes(f.node):
        if w.attr in MEM_RECORD_ATTRS:
            val = None
            if isinstance(w.node, ast.Assign):
                val = names_in(w.node.value)
            out.append({"anchor": w.node, "desc": f"{w.attr}:{w.how}", "names": names_in(w.node), "value_names": val})
    for s in all_sites:
        if s.func is f and s.verb in ("UPDATE", "DELETE", "REPLACE") or (s.func is f and s.verb.startswith("INSERT")):
            ps = sqlmini.param_exprs(s)
            names = set()
            for p in ps or ([s.params] if s.params is not None else []):
                names |= names_in(p)
            cols = sqlmini.set_columns(s.template)
            out.append({"anchor": s.call, "desc": f"sql:{s.verb}:{','.join(cols)}", "names": names, "value_names": names - {f.params[1]} if names else None})
    # helpers
    for c in calls_in(f.node):
        if _is_helper_call(repo, f, c):
            h = f.cls.find_method(c.func.attr)
            if h is None or h is f:
                continue
            hw = [w for w in mem_store_writes(h.node) if w.attr in MEM_RECORD_ATTRS]
            hs = [s for s in all_sites if s.func is h and (s.verb in ("UPDATE", "DELETE", "REPLACE") or s.verb.startswith("INSERT"))]
            if not hw and not hs:
                continue
            # map helper params to caller arg names
            hp = h.params[1:]
            amap: dict[str, set[str]] = {}
            for i, a in enumerate(c.args):
                if i < len(hp):
                    amap[hp[i]] = names_in(a)
            for k in c.keywords:
                if k.arg:
                    amap[k.arg] = names_in(k.value)
            for w in hw:
                used = set()
                for nm in names_in(w.node):
                    used |= amap.get(nm, set())
                val = None
                if isinstance(w.node, ast.Assign):
                    val = set()
                    for nm in names_in(w.node.value):
                        val |= amap.get(nm, set())
                out.append({"anchor": c, "desc": f"{h.name}:{w.attr}:{w.how}", "names": used, "value_names": val})
            for s in hs:
                used = set()
                for p in sqlmini.param_exprs(s) or []:
                    for nm in names_in(p):
                        used |= amap.get(nm, set())
                out.append({"anchor": c, "desc": f"{h.name}:sql:{s.verb}", "names": used, "value_names": None})
    return out


# ------------------------------------------------------------------------------------ R4
def r4_single_writer(ctx: Context, sm) -> None:
    ctx.rule("R4", "single writer: _atomic_status_transition is called only by BaseOrchestrator.set_invocation_status; status_record_transition only by the backends' atomic transition; the status record (mem: invocation_status_record/status_index; sqlite: status columns of the invocations table) is written only by the frozen writer set")
    repo = ctx.repo
    n_calls = 0
    for f in repo.all_functions():
        for c in calls_in(f.node):
            nm = call_name(c)
            if nm == "_atomic_status_transition":
                n_calls += 1
                okk = f.name == "set_invocation_status" and f.cls is not None and f.cls.name == "BaseOrchestrator"
                ctx.add("R4", f"caller-of-atomic-transition::{f.qualname}", okk, f.loc(c), "" if okk else "the atomic transition is invoked outside BaseOrchestrator.set_invocation_status (history / waiter release / triggers are bypassed)")
            elif nm == "status_record_transition":
                okk = f.name == "_atomic_status_transition" and f.cls is not None and f.cls.is_subclass_of("BaseOrchestrator")
                ctx.add("R4", f"caller-of-validate::{f.qualname}", okk, f.loc(c), "" if okk else "status_record_transition used outside an orchestrator's atomic transition")
    ctx.floor("R4", "callers of _atomic_status_transition", n_calls, 1)
    # no second public writer: overrides of set_invocation_status are not allowed to skip the base
    base = repo.cls("BaseOrchestrator")
    for o in repo.overrides(base, "set_invocation_status"):
        ctx.fail("R4", f"override-of-public-writer::{o.qualname}", o.loc(), "set_invocation_status is overridden in a backend")
    # --- in-memory record attributes
    allowed_mem = {
        "__init__": "initialisation of empty stores",
        "_interanl_atomic_status_transition": "the private persist helper of the atomic transition",
        "clean_up_invocation": "auto-purge of final invocations",
        "purge": "test purge",
    }
    mem = repo.cls("MemOrchestrator")
    helper_names = set()
    n_w = 0
    for f in repo.all_functions():
        for w in mem_store_writes(f.node):
            if w.attr not in MEM_RECORD_ATTRS:
                continue
            if f.cls is None or not f.cls.is_subclass_of(mem):
                continue
            n_w += 1
            okk = f.name in allowed_mem or f.name == "_atomic_status_transition"
            if f.name not in ("__init__", "purge", "clean_up_invocation", "_atomic_status_transition"):
                helper_names.add(f.name)
            ctx.add("R4", f"mem-record-writer::{f.qualname}::{w.attr}", okk, f.loc(w.node), "" if okk else f"{f.qualname} writes the status record store '{w.attr}' outside the atomic transition")
        # ... and through a local alias or through a sibling method that hands out the live container
        if f.cls is not None and f.cls.is_subclass_of(mem):
            from ..flow import aliased_store_mutations, class_live_returns

            for node_, nm_, attr_ in aliased_store_mutations(f.node, MEM_RECORD_ATTRS, class_live_returns(f.cls)):
                n_w += 1
                okk = f.name in allowed_mem or f.name == "_atomic_status_transition"
                ctx.add("R4", f"mem-record-writer::{f.qualname}::{attr_}::through-alias", okk, f.loc(node_), "" if okk else f"{f.qualname} changes the status record store '{attr_}' in place through `{nm_}` (a live reference, not a copy) outside the atomic transition: statuses / index entries change without a validated transition, and every scan that iterates the index (recovery, listings) misses or gains invocations")
        # foreign access: <expr>.invocation_status_record[...] = / .status_index... from other classes
        for n in walk_no_nested(f.node):
            if isinstance(n, (ast.Assign, ast.AugAssign, ast.Delete)):
                tgts = n.targets if isinstance(n, (ast.Assign, ast.Delete)) else [n.target]
                for t in tgts:
                    for sub in ast.walk(t):
                        if isinstance(sub, ast.Attribute) and sub.attr in MEM_RECORD_ATTRS and not (isinstance(sub.value, ast.Name) and sub.value.id == "self"):
                            ctx.fail("R4", f"foreign-record-write::{f.qualname}::{sub.attr}", f.loc(n), "status record store written through a foreign reference")
            elif isinstance(n, ast.Call) and isinstance(n.func, ast.Attribute):
                from ..flow import MUTATING_METHODS

                if n.func.attr in MUTATING_METHODS:
                    for sub in ast.walk(n.func.value):
                        if isinstance(sub, ast.Attribute) and sub.attr in MEM_RECORD_ATTRS and not (isinstance(sub.value, ast.Name) and sub.value.id == "self"):
                            ctx.fail("R4", f"foreign-record-write::{f.qualname}::{sub.attr}", f.loc(n), "status record store mutated through a foreign reference")
    ctx.floor("R4", "in-memory record writes", n_w, 3)
    # the persist helper is called only from the atomic transition and from registration
    for hn in helper_names:
        for f in repo.all_functions():
            for c in calls_in(f.node):
                if call_name(c) == hn:
                    okk = f.name in ("_atomic_status_transition", "_register_new_invocations")
                    ctx.add("R4", f"caller-of-persist-helper::{f.qualname}", okk, f.loc(c), "" if okk else f"{hn} (writes the status record without validation) is called from {f.qualname}")
    # registration helper may only create REGISTERED records with no previous record
    # --- SQLite
    n_sql = 0
    for s in sqlmini.sites(repo):
        if s.func.cls is None or not (s.func.cls.is_subclass_of("BaseOrchestrator") or s.func.cls.is_subclass_of("BaseBlockingControl")):
            continue  # other components own their tables (their Tables classes use another prefix, C17)
        tt = sqlmini.target_table(s.template)
        if tt is None or not tt.endswith(".INVOCATIONS"):
            continue
        v = s.verb
        fn = s.func.name
        if v == "UPDATE":
            cols = set(sqlmini.set_columns(s.template))
            if cols & STATUS_COLUMNS:
                n_sql += 1
                okk = fn == "_atomic_status_transition"
                ctx.add("R4", f"sql-status-writer::{s.func.qualname}::UPDATE", okk, s.where, "" if okk else f"UPDATE of {sorted(cols & STATUS_COLUMNS)} outside the atomic transition")
        elif v.startswith("INSERT") or v == "REPLACE":
            n_sql += 1
            okk = fn == "_register_new_invocations" and sqlmini.conflict_clause(s.template) == "DO NOTHING" and v == "INSERT"
            ctx.add("R4", f"sql-status-writer::{s.func.qualname}::{v}", okk, s.where, "" if okk else "rows of the invocations table may only be created by _register_new_invocations with ON CONFLICT DO NOTHING (an existing record must not be overwritten)")
        elif v == "DELETE":
            n_sql += 1
            okk = fn in ("auto_purge", "purge")
            ctx.add("R4", f"sql-status-writer::{s.func.qualname}::DELETE", okk, s.where, "" if okk else "status rows deleted outside auto_purge / purge")
    ctx.floor("R4", "sqlite status writes", n_sql, 3)
    # registration writes the constant REGISTERED record
    for f in repo.overrides(base, "_register_new_invocations"):
        consts = [c for c in calls_in(f.node) if call_name(c) == "InvocationStatusRecord"]
        okk = bool(consts) and all(
            (c.args and ast.unparse(c.args[0]) == "InvocationStatus.REGISTERED") or any(k.arg == "status" and ast.unparse(k.value) == "InvocationStatus.REGISTERED" for k in c.keywords)
            for c in consts
        )
        ctx.add("R4", f"registration-status::{f.qualname}", okk, f.loc(), "" if okk else "registration must create the record with the constant REGISTERED status")


# ------------------------------------------------------------------------------------ R5
def r5_siblings(ctx: Context, sm) -> None:
    ctx.rule("R5", "both backends persist status, owner and timestamp of the validated record and read them back into the same fields; a missing record is handled the same way")
    repo = ctx.repo
    fields = list(sm.record_cls.class_annots) if sm.record_cls else ["status", "runner_id", "timestamp"]
    col_of = {"status": "status", "runner_id": "status_runner_id", "timestamp": "status_timestamp"}
    sites = sqlmini.sites(repo)
    sq = repo.cls("SQLiteOrchestrator")
    at = sq.methods.get("_atomic_status_transition")
    if at is None:
        raise AnalysisError("anchor-vanished: SQLiteOrchestrator._atomic_status_transition")
    # UPDATE column <- attribute mapping
    for s in sites:
        if s.func is at and s.verb == "UPDATE":
            cols = sqlmini.set_columns(s.template)
            ps = sqlmini.param_exprs(s) or []
            for fld in fields:
                col = col_of.get(fld)
                if col is None:
                    continue
                if col not in cols:
                    ctx.fail("R5", f"sqlite-persists::{fld}", s.where, f"column {col} is not written by the atomic transition")
                    continue
                i = cols.index(col)
                pe = ps[i] if i < len(ps) else None
                okk = pe is not None and any(isinstance(n, ast.Attribute) and n.attr == fld for n in ast.walk(pe))
                ctx.add("R5", f"sqlite-persists::{fld}", okk, s.where, "" if okk else f"column {col} is bound to {ast.unparse(pe) if pe is not None else None}, expected the '{fld}' of the validated record")
            conds = sqlmini.conditions(sqlmini.where_clause(s.template))
            okk = any(c[0].split(".")[-1] == "invocation_id" and c[1] == "=" for c in conds) and len(ps) > len(cols) and isinstance(ps[len(cols)], ast.Name) and ps[len(cols)].id == at.params[1]
            ctx.add("R5", "sqlite-update-keyed-by-id", okk, s.where, "" if okk else "the UPDATE is not restricted to the row of the invocation_id parameter")
    # read-back: constructor field <- column mapping wherever a record is built from a row
    for f in sq.methods.values():
        for c in calls_in(f.node):
            if call_name(c) != "InvocationStatusRecord":
                continue
            sel = [s for s in sites if s.func is f and s.verb == "SELECT" and "status" in " ".join(sqlmini.select_columns(s.template))]
            if not sel:
                continue
            cols = [x.split(".")[-1] for x in sqlmini.select_columns(sel[0].template)]
            argmap = {}
            for i, a in enumerate(c.args):
                if i < len(fields):
                    argmap[fields[i]] = a
            for k in c.keywords:
                if k.arg:
                    argmap[k.arg] = k.value
            for fld, a in argmap.items():
                want = col_of.get(fld)
                got = _column_of_expr(f, a, cols)
                if got is None:
                    continue
                okk = got == want
                ctx.add("R5", f"sqlite-readback::{f.name}::{fld}", okk, f.loc(c), "" if okk else f"field '{fld}' of the record is filled from column '{got}', expected '{want}'")
    # missing record
    mem_at = repo.cls("MemOrchestrator").methods.get("_atomic_status_transition")
    if mem_at is None:
        raise AnalysisError("anchor-vanished: MemOrchestrator._atomic_status_transition")
    sq_raises = _raises_keyerror_on_missing(at)
    mem_raises = _raises_keyerror_on_missing(mem_at)
    okk = sq_raises == mem_raises
    ctx.add("R5", "missing-record-handling", okk, mem_at.loc(),
            "" if okk else f"unknown invocation id: sqlite {'raises KeyError' if sq_raises else 'passes None to the validator'}, mem {'raises KeyError' if mem_raises else 'passes None to the validator (a REGISTERED request creates a record, any other raises a transition error)'}; the base-class contract says KeyError")


def _column_of_expr(f: FuncInfo, expr: ast.AST, cols: list[str]) -> str | None:
    """Which SELECTed column an expression derives from: row[i] or a name unpacked from the row."""
    for n in ast.walk(expr):
        if isinstance(n, ast.Subscript) and isinstance(n.slice, ast.Constant) and isinstance(n.slice.value, int):
            i = n.slice.value
            if i < len(cols):
                return cols[i]
    for nm in names_in(expr):
        # tuple unpack `a, b, c = row`
        for st in walk_no_nested(f.node):
            if isinstance(st, ast.Assign) and len(st.targets) == 1 and isinstance(st.targets[0], ast.Tuple):
                elts = st.targets[0].elts
                for i, e in enumerate(elts):
                    if isinstance(e, ast.Name) and e.id == nm and len(elts) == len(cols):
                        return cols[i]
            if isinstance(st, ast.Assign) and len(st.targets) == 1 and isinstance(st.targets[0], ast.Name) and st.targets[0].id == nm:
                r = _column_of_expr(f, st.value, cols) if st.value is not expr else None
                if r:
                    return r
    return None


def _raises_keyerror_on_missing(f: FuncInfo) -> bool:
    for n in walk_no_nested(f.node):
        if isinstance(n, ast.Raise) and n.exc is not None and "KeyError" in ast.unparse(n.exc):
            return True
        # self.store[id] subscript load raises KeyError
        if isinstance(n, ast.Subscript) and isinstance(n.ctx, ast.Load):
            from ..flow import self_attr

            if self_attr(n) == "invocation_status_record":
                return True
    return False


def run(ctx: Context) -> None:
    sm = extract(ctx.repo)
    ctx.analysed["statuses"] = len(sm.members)
    r1_docs(ctx, sm)
    r2_decision(ctx, sm)
    r3_validate_dominates_write(ctx)
    r4_single_writer(ctx, sm)
    r5_siblings(ctx, sm)
    # R6: single-step closure only yields legal HISTORIES if read-validate-write is one critical section per invocation
    # (otherwise two accepted requests validated against the same record write a non-edge): shared with C02/R1-R3
    from . import c02

    ctx.rule("R6", "the step relation is applied atomically: validation and write of one invocation's record form one critical section (in-memory: one never-discarded lock per invocation; SQLite: BEGIN IMMEDIATE) - shared with C02/R1-R3")
    sub = Context("C02", ctx.repo, ctx.tier, ctx.seed)
    sub._resolver = ctx._resolver
    c02.r1_sqlite(sub, sqlmini.sites(ctx.repo))
    c02.r2_r3_mem(sub)
    c02.r7_refusal_propagates(sub)
    c02.r8_own_identity(sub)
    for i in sub.instances:
        k = i.key.split("/", 2)[2]
        if "_atomic_status_transition" in k or "MemOrchestrator" in k or "runner-id-is-own" in k or "refusal-of" in k:  # the status transition only (the queue pop is C02 / C08)
            ctx.add("R6", k, i.ok, i.where, i.detail)
    ctx.floor("R6", "atomic-step obligations", ctx.count("R6"), 8)
    # R7: a refused request changes NOTHING: in set_invocation_status every effectful call (waiter release, purge registration,
    # history, trigger report, ...) is reachable only through the normal exit of the atomic transition
    ctx.rule("R7", "a refused status request has no side effect: in BaseOrchestrator.set_invocation_status every call on self / self.app components other than the atomic transition itself is reachable only through the transition's normal exit")
    bo = ctx.repo.cls("BaseOrchestrator")
    so = bo.methods.get("set_invocation_status")
    if so is None:
        raise AnalysisError("anchor-vanished: BaseOrchestrator.set_invocation_status")
    g7 = func_cfg(ctx.repo, so)
    pm7 = parent_map(so.node)
    trans = [c for c in calls_in(so.node) if call_name(c) == "_atomic_status_transition"]
    if len(trans) != 1:
        raise AnalysisError("anchor-vanished: one _atomic_status_transition call in set_invocation_status")
    tn7 = {n.id for n in cfg_node_of(g7, so.node, trans[0], pm7)}
    unreached = _reachable_without_normal_exit(g7, tn7)
    n7 = 0
    for c in calls_in(so.node):
        if c is trans[0] or not isinstance(c.func, ast.Attribute):
            continue
        rv = c.func.value
        if isinstance(rv, ast.Name) and rv.id != "self":  # a local bound to a component: `sb = self.app.state_backend`
            vals = _reaching_values(so, rv.id)
            rv = vals[0] if len(vals) == 1 else rv
        recv = ast.unparse(rv)
        if not (recv == "self" or recv.startswith("self.app.")) or ".logger" in recv or recv.endswith("logger"):
            continue
        if any(x is c for x in ast.walk(trans[0])):
            continue  # an argument of the transition call
        n7 += 1
        early = any(n.id in unreached for n in cfg_node_of(g7, so.node, c, pm7))
        ctx.add("R7", f"{so.qualname}::{call_name(c)}::only-after-the-accepted-transition", not early, so.loc(c), "" if not early else f"`{ast.unparse(c)[:60]}` can run although the requested transition is refused (it precedes the transition or sits on its failure path): a request the state machine rejects still changes the system")
    ctx.floor("R7", "effects of a status change", n7, 3)
    ctx.exhaustive = True
    ctx.not_decided += [
        "multi-step request sequences beyond what single-step closure + single writer + atomicity (C02) imply",
        "equality of timestamps across backends",
    ]
    ctx.assumptions += [
        "the documented graph (SVG data-edge attributes, markdown category tables) is the specification",
        "threading.Lock / SQLite BEGIN IMMEDIATE give mutual exclusion (C02)",
    ]
