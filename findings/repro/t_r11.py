# task module for r11 (tasks cannot live in __main__): one app per backend kind
import os, tempfile
from pynenc import Pynenc
db = os.path.join(tempfile.mkdtemp(), "x.db")
def mk(kind, app_id):
    cfg = {"app_id": app_id}
    if kind == "sqlite":
        cfg.update({"sqlite_db_path": db, "broker_cls": "SQLiteBroker", "orchestrator_cls": "SQLiteOrchestrator",
                    "state_backend_cls": "SQLiteStateBackend", "trigger_cls": "SQLiteTrigger", "client_data_store_cls": "SQLiteClientDataStore"})
    return Pynenc(config_values=cfg)
app_mem = mk("mem", "r11mem")
app_sql = mk("sqlite", "r11sqlite")
@app_mem.task
def t_mem(x: int, y: int = 2) -> int:
    return x + y
@app_sql.task
def t_sql(x: int, y: int = 2) -> int:
    return x + y
