"""Statement-level control-flow graph with exception edges, dominators and path enumeration.

Nodes are simple statements, branch tests, ``with`` enter/exit points and handler entries.
``try/finally`` duplicates the finally body per continuation kind (normal, exception, return,
break, continue).  Exception edges are produced for every node for which the ``raises``
callback returns a non-empty answer: ``None`` means "may raise anything", a list of class names
means exactly those classes (subsumption is decided by the ``catches`` callback).
"""

from __future__ import annotations

import ast
from dataclasses import dataclass, field
from typing import Callable, Iterator

ENTRY, EXIT, RAISE = "entry", "exit", "raise-exit"


@dataclass
class Node:
    id: int
    kind: str  # entry | exit | raise-exit | stmt | test | for | with-enter | with-exit | with-exit-exc | handler | yield-exit
    ast: ast.AST | None = None
    label: str = ""
    lineno: int = 0
    loop_depth: int = 0
    ctx: tuple = ()  # lexical context: tuple of ("with", withnode) / ("try", trynode) / ("loop", node) / ("handler", h)

    def __hash__(self) -> int:
        return self.id

    def __repr__(self) -> str:
        return f"<{self.id}:{self.kind}:{self.label[:40]}@{self.lineno}>"


@dataclass
class CFG:
    func: ast.AST
    nodes: list[Node] = field(default_factory=list)
    succ: dict[int, list[tuple[int, str]]] = field(default_factory=dict)
    pred: dict[int, list[tuple[int, str]]] = field(default_factory=dict)
    entry: int = 0
    exit: int = 0
    raise_exit: int = 0
    by_ast: dict[int, list[int]] = field(default_factory=dict)

    def new(self, kind: str, node: ast.AST | None = None, label: str = "", ctx: tuple = ()) -> int:
        n = Node(len(self.nodes), kind, node, label or (ast.unparse(node).split("\n")[0] if node is not None else kind), getattr(node, "lineno", 0), ctx=ctx)
        self.nodes.append(n)
        self.succ[n.id] = []
        self.pred[n.id] = []
        if node is not None:
            self.by_ast.setdefault(id(node), []).append(n.id)
        return n.id

    def edge(self, a: int, b: int, label: str = "next") -> None:
        if (b, label) not in self.succ[a]:
            self.succ[a].append((b, label))
            self.pred[b].append((a, label))

    def nodes_for(self, node: ast.AST) -> list[Node]:
        return [self.nodes[i] for i in self.by_ast.get(id(node), [])]

    def stmt_nodes(self) -> Iterator[Node]:
        for n in self.nodes:
            if n.ast is not None:
                yield n

    # -------------------------------------------------------------- dominators
    def dominators(self, exc_edges: bool = True) -> dict[int, set[int]]:
        ids = self.reachable(exc_edges)
        dom: dict[int, set[int]] = {i: set(ids) for i in ids}
        dom[self.entry] = {self.entry}
        changed = True
        order = sorted(ids)
        while changed:
            changed = False
            for i in order:
                if i == self.entry:
                    continue
                preds = [p for p, lab in self.pred[i] if p in ids and (exc_edges or lab != "exc")]
                if not preds:
                    continue
                new = set.intersection(*(dom[p] for p in preds)) | {i}
                if new != dom[i]:
                    dom[i] = new
                    changed = True
        return dom

    def reachable(self, exc_edges: bool = True, start: int | None = None) -> set[int]:
        seen: set[int] = set()
        stack = [self.entry if start is None else start]
        while stack:
            n = stack.pop()
            if n in seen:
                continue
            seen.add(n)
            for s, lab in self.succ[n]:
                if exc_edges or lab != "exc":
                    stack.append(s)
        return seen

    def reaches(self, a: int, b: int, exc_edges: bool = True, avoid: set[int] | None = None) -> bool:
        """Is there a path a -> ... -> b (length >= 1) avoiding the nodes in ``avoid``."""
        avoid = avoid or set()
        seen: set[int] = set()
        stack = [s for s, lab in self.succ[a] if exc_edges or lab != "exc"]
        while stack:
            n = stack.pop()
            if n in seen or n in avoid:
                continue
            if n == b:
                return True
            seen.add(n)
            for s, lab in self.succ[n]:
                if exc_edges or lab != "exc":
                    stack.append(s)
        return False

    # -------------------------------------------------------------- paths
    def paths(self, start: int | None = None, max_visits: int = 2, limit: int = 20000, exc_edges: bool = True,
              stop: Callable[[Node], bool] | None = None) -> Iterator[list[tuple[int, str]]]:
        """Enumerate paths from start to any terminal node; each node visited at most
        ``max_visits`` times.  A path is a list of (node id, label of the edge taken INTO it)."""
        s0 = self.entry if start is None else start
        count = 0
        stack: list[tuple[int, str, list[tuple[int, str]], dict[int, int]]] = [(s0, "", [], {})]
        while stack:
            nid, lab, path, visits = stack.pop()
            v = visits.get(nid, 0)
            if v >= max_visits:
                continue
            visits = dict(visits)
            visits[nid] = v + 1
            path = path + [(nid, lab)]
            succs = [(s, l) for s, l in self.succ[nid] if exc_edges or l != "exc"]
            if not succs or (stop is not None and stop(self.nodes[nid])):
                count += 1
                yield path
                if count >= limit:
                    return
                continue
            for s, l in reversed(succs):
                stack.append((s, l, path, visits))


class _Builder:
    def __init__(self, func: ast.AST, raises: Callable[[ast.AST], list[str] | None], catches: Callable[[str | None, ast.ExceptHandler], str]):
        self.g = CFG(func)
        self.raises = raises
        self.catches = catches
        g = self.g
        g.entry = g.new(ENTRY, None, ENTRY)
        g.exit = g.new(EXIT, None, EXIT)
        g.raise_exit = g.new(RAISE, None, RAISE)

    # frames: list of dict(kind=..., ...) innermost last
    def build(self) -> CFG:
        body = self.g.func.body  # type: ignore[attr-defined]
        ends = self.seq(body, [(self.g.entry, "next")], [], ())
        for e, lab in ends:
            self.g.edge(e, self.g.exit, lab)
        return self.g

    # ---- helpers
    def connect(self, preds: list[tuple[int, str]], nid: int) -> None:
        for p, lab in preds:
            self.g.edge(p, nid, lab)

    def exc_from(self, nid: int, classes: list[str] | None, frames: list[dict], ctx: tuple) -> None:
        """Add exception edges from node nid for the given classes (None = anything)."""
        todo: list[str | None] = [None] if classes is None else list(classes)
        for cls in todo:
            self._propagate(nid, cls, frames, len(frames) - 1, "exc")

    def _propagate(self, src: int, cls: str | None, frames: list[dict], idx: int, lab: str) -> None:
        i = idx
        while i >= 0:
            fr = frames[i]
            if fr["kind"] == "try-body":
                caught_definitely = False
                for h, hid in fr["handlers"]:
                    verdict = self.catches(cls, h)  # 'yes' | 'maybe' | 'no'
                    if verdict in ("yes", "maybe"):
                        self.g.edge(src, hid, lab)
                    if verdict == "yes":
                        caught_definitely = True
                        break
                if caught_definitely:
                    return
                if fr.get("finally") is not None:
                    fin_entry, fin_ends = self.copy_finally(fr, frames[:i], "exc")
                    self.g.edge(src, fin_entry, lab)
                    for fe, fl in fin_ends:
                        self._propagate(fe, cls, frames, i - 1, "exc")
                    return
            elif fr["kind"] in ("try-handler", "try-else"):
                if fr.get("finally") is not None:
                    fin_entry, fin_ends = self.copy_finally(fr, frames[:i], "exc")
                    self.g.edge(src, fin_entry, lab)
                    for fe, fl in fin_ends:
                        self._propagate(fe, cls, frames, i - 1, "exc")
                    return
            elif fr["kind"] == "with":
                wx = self.g.new("with-exit-exc", fr["node"], "with-exit-exc " + fr["label"], ctx=fr["ctx"])
                self.g.edge(src, wx, lab)
                src, lab = wx, "exc"
            i -= 1
        self.g.edge(src, self.g.raise_exit, lab)

    def copy_finally(self, fr: dict, outer_frames: list[dict], kind: str) -> tuple[int, list[tuple[int, str]]]:
        key = "fin-" + kind
        if key in fr:
            return fr[key]
        marker = self.g.new("finally", fr["node"], f"finally[{kind}]", ctx=fr["ctx"])
        fr[key] = (marker, [])  # guard recursion
        ends = self.seq(fr["finally"], [(marker, "next")], outer_frames, fr["ctx"] + (("finally", fr["node"]),))
        fr[key] = (marker, ends)
        return fr[key]

    def jump(self, src_preds: list[tuple[int, str]], frames: list[dict], kind: str, ctx: tuple) -> None:
        """return / break / continue: run enclosing finally blocks and with-exits."""
        preds = src_preds
        i = len(frames) - 1
        while i >= 0:
            fr = frames[i]
            if fr["kind"] in ("try-body", "try-handler", "try-else") and fr.get("finally") is not None:
                fin_entry, fin_ends = self.copy_finally(fr, frames[:i], kind)
                self.connect(preds, fin_entry)
                preds = fin_ends
            elif fr["kind"] == "with":
                wx = self.g.new("with-exit", fr["node"], "with-exit " + fr["label"], ctx=fr["ctx"])
                self.connect(preds, wx)
                preds = [(wx, "next")]
            elif fr["kind"] == "loop" and kind in ("break", "continue"):
                if kind == "break":
                    fr["breaks"].extend(preds)
                else:
                    self.connect(preds, fr["head"])
                return
            i -= 1
        if kind == "return":
            self.connect(preds, self.g.exit)

    # ---- statements
    def seq(self, body: list[ast.stmt], preds: list[tuple[int, str]], frames: list[dict], ctx: tuple) -> list[tuple[int, str]]:
        for st in body:
            if not preds:
                break
            preds = self.stmt(st, preds, frames, ctx)
        return preds

    def simple(self, st: ast.AST, preds, frames, ctx, kind: str = "stmt", label: str = "") -> int:
        nid = self.g.new(kind, st, label, ctx=ctx)
        self.connect(preds, nid)
        r = self.raises(st)
        if r is None or r:
            self.exc_from(nid, r, frames, ctx)
        return nid

    def stmt(self, st: ast.stmt, preds, frames, ctx) -> list[tuple[int, str]]:
        g = self.g
        if isinstance(st, (ast.FunctionDef, ast.AsyncFunctionDef, ast.ClassDef)):
            nid = g.new("stmt", st, f"def {st.name}", ctx=ctx)
            self.connect(preds, nid)
            return [(nid, "next")]
        if isinstance(st, ast.If):
            t = self.simple(st.test, preds, frames, ctx, "test", "if " + ast.unparse(st.test))
            g.by_ast.setdefault(id(st), []).append(t)
            a = self.seq(st.body, [(t, "true")], frames, ctx)
            b = self.seq(st.orelse, [(t, "false")], frames, ctx) if st.orelse else [(t, "false")]
            return a + b
        if isinstance(st, ast.While):
            t = self.simple(st.test, preds, frames, ctx, "test", "while " + ast.unparse(st.test))
            g.by_ast.setdefault(id(st), []).append(t)
            fr = {"kind": "loop", "head": t, "breaks": [], "node": st, "ctx": ctx}
            const_true = isinstance(st.test, ast.Constant) and bool(st.test.value)
            body_end = self.seq(st.body, [(t, "true")], frames + [fr], ctx + (("loop", st),))
            for e, lab in body_end:
                g.edge(e, t, "loop")
            out = [] if const_true else [(t, "false")]
            if st.orelse and not const_true:
                out = self.seq(st.orelse, out, frames, ctx)
            return out + fr["breaks"]
        if isinstance(st, (ast.For, ast.AsyncFor)):
            it = self.simple(st.iter, preds, frames, ctx, "stmt", "iter " + ast.unparse(st.iter))
            h = g.new("for", st, "for " + ast.unparse(st.target) + " in " + ast.unparse(st.iter), ctx=ctx)
            g.edge(it, h, "next")
            # advancing a generator may raise (the iterated callee runs here)
            r = self.raises(st.iter)
            if r is None or r:
                self.exc_from(h, r, frames, ctx)
            fr = {"kind": "loop", "head": h, "breaks": [], "node": st, "ctx": ctx}
            body_end = self.seq(st.body, [(h, "true")], frames + [fr], ctx + (("loop", st),))
            for e, lab in body_end:
                g.edge(e, h, "loop")
            out = [(h, "false")]
            if st.orelse:
                out = self.seq(st.orelse, out, frames, ctx)
            return out + fr["breaks"]
        if isinstance(st, (ast.With, ast.AsyncWith)):
            label = ", ".join(ast.unparse(i.context_expr) for i in st.items)
            en = self.simple(st, preds, frames, ctx, "with-enter", "with " + label)
            fr = {"kind": "with", "node": st, "label": label, "ctx": ctx}
            body_end = self.seq(st.body, [(en, "next")], frames + [fr], ctx + (("with", st),))
            if not body_end:
                return []
            wx = g.new("with-exit", st, "with-exit " + label, ctx=ctx)
            self.connect(body_end, wx)
            return [(wx, "next")]
        if isinstance(st, ast.Try) or st.__class__.__name__ == "TryStar":
            handlers = []
            for h in st.handlers:
                hid = g.new("handler", h, "except " + (ast.unparse(h.type) if h.type else ""), ctx=ctx)
                handlers.append((h, hid))
            fin = st.finalbody or None
            fr_body = {"kind": "try-body", "handlers": handlers, "finally": fin, "node": st, "ctx": ctx}
            body_end = self.seq(st.body, preds, frames + [fr_body], ctx + (("try", st),))
            if st.orelse:
                fr_else = {"kind": "try-else", "finally": fin, "node": st, "ctx": ctx}
                # share finally copies between frames of the same try
                self._share(fr_body, fr_else)
                body_end = self.seq(st.orelse, body_end, frames + [fr_else], ctx + (("try-else", st),))
                self._share(fr_else, fr_body)
            ends = list(body_end)
            for h, hid in handlers:
                fr_h = {"kind": "try-handler", "finally": fin, "node": st, "ctx": ctx}
                self._share(fr_body, fr_h)
                he = self.seq(h.body, [(hid, "next")], frames + [fr_h], ctx + (("handler", h),))
                self._share(fr_h, fr_body)
                ends.extend(he)
            if fin is not None and ends:
                fin_entry, fin_ends = self.copy_finally(fr_body, frames, "normal")
                self.connect(ends, fin_entry)
                return list(fin_ends)
            return ends
        if isinstance(st, ast.Return):
            nid = self.simple(st, preds, frames, ctx)
            self.jump([(nid, "return")], frames, "return", ctx)
            return []
        if isinstance(st, ast.Raise):
            nid = g.new("stmt", st, ctx=ctx)
            self.connect(preds, nid)
            cls: str | None = None
            if st.exc is not None:
                e = st.exc.func if isinstance(st.exc, ast.Call) else st.exc
                txt = ast.unparse(e)
                cls = txt.split(".")[-1] if txt[:1].isupper() or "." in txt else None
                if isinstance(st.exc, ast.Call) and isinstance(st.exc.func, ast.Attribute) and not st.exc.func.attr[:1].isupper():
                    # Cls.factory(...) -> class is the receiver
                    cls = ast.unparse(st.exc.func.value).split(".")[-1]
            self._propagate(nid, cls, frames, len(frames) - 1, "exc")
            return []
        if isinstance(st, ast.Break):
            nid = g.new("stmt", st, ctx=ctx)
            self.connect(preds, nid)
            self.jump([(nid, "break")], frames, "break", ctx)
            return []
        if isinstance(st, ast.Continue):
            nid = g.new("stmt", st, ctx=ctx)
            self.connect(preds, nid)
            self.jump([(nid, "continue")], frames, "continue", ctx)
            return []
        if isinstance(st, ast.Match):
            t = self.simple(st.subject, preds, frames, ctx, "test", "match " + ast.unparse(st.subject))
            ends = []
            for c in st.cases:
                ends.extend(self.seq(c.body, [(t, "case")], frames, ctx))
            return ends + [(t, "false")]
        # simple statement
        nid = self.simple(st, preds, frames, ctx)
        return [(nid, "next")]

    @staticmethod
    def _share(src: dict, dst: dict) -> None:
        for k, v in src.items():
            if k.startswith("fin-"):
                dst[k] = v


def default_raises(node: ast.AST) -> list[str] | None:
    """Anything containing a call, subscript load, attribute of unknown object... may raise."""
    for n in ast.walk(node) if not isinstance(node, (ast.With, ast.AsyncWith)) else _with_items(node):
        if isinstance(n, (ast.Call, ast.Subscript, ast.Await, ast.Yield, ast.YieldFrom, ast.BinOp)):
            return None
    if isinstance(node, (ast.Assert, ast.Delete, ast.Import, ast.ImportFrom)):
        return None
    return []


def _with_items(node):
    for it in node.items:
        yield from ast.walk(it.context_expr)


BROAD = {"Exception", "BaseException"}


def default_catches(cls: str | None, h: ast.ExceptHandler) -> str:
    if h.type is None:
        return "yes"
    names = [ast.unparse(t).split(".")[-1] for t in (h.type.elts if isinstance(h.type, ast.Tuple) else [h.type])]
    if any(n in BROAD for n in names):
        return "yes" if cls not in ("KeyboardInterrupt", "SystemExit", "GeneratorExit") else "no"
    if cls is None:
        return "maybe"
    return "yes" if cls in names else "no"


def build_cfg(func: ast.AST, raises: Callable[[ast.AST], list[str] | None] | None = None,
              catches: Callable[[str | None, ast.ExceptHandler], str] | None = None) -> CFG:
    return _Builder(func, raises or default_raises, catches or default_catches).build()


def lexically_inside(cfg_node: Node, kind: str, target: ast.AST) -> bool:
    return any(k == kind and n is target for k, n in cfg_node.ctx)
