"""Module index of the analysed tree (pure ``ast``; nothing under the root is imported).

Repo(root) parses every ``*.py`` under ``<root>/pynenc`` and ``<root>/pynmon`` and exposes
classes (with repo-internal MRO), functions / methods (with decorators, abstractness,
property-ness), import tables (including ``if TYPE_CHECKING`` imports) and subclass maps.
"""

from __future__ import annotations

import ast
import hashlib
import os
from dataclasses import dataclass, field
from pathlib import Path

PACKAGES = ("pynenc", "pynmon")


class AnalysisError(Exception):
    """The analysis itself cannot be carried out (anchor vanished, unsupported construct)."""


@dataclass
class FuncInfo:
    qualname: str  # pynenc.mod.Class.method / pynenc.mod.func / outer.<locals>.inner
    name: str
    module: "ModuleInfo"
    node: ast.FunctionDef | ast.AsyncFunctionDef
    cls: "ClassInfo | None" = None
    parent_func: "FuncInfo | None" = None

    @property
    def decorators(self) -> list[str]:
        return [ast.unparse(d) for d in self.node.decorator_list]

    @property
    def is_property(self) -> bool:
        for d in self.decorators:
            if d in ("property", "cached_property", "functools.cached_property"):
                return True
        return False

    @property
    def is_setter(self) -> bool:
        return any(d.endswith(".setter") for d in self.decorators)

    @property
    def is_abstract(self) -> bool:
        return any(d.split(".")[-1] == "abstractmethod" for d in self.decorators)

    @property
    def is_static(self) -> bool:
        return "staticmethod" in self.decorators

    @property
    def is_classmethod(self) -> bool:
        return "classmethod" in self.decorators

    @property
    def params(self) -> list[str]:
        a = self.node.args
        return [x.arg for x in a.posonlyargs + a.args + a.kwonlyargs]

    @property
    def file(self) -> str:
        return self.module.relpath

    @property
    def lineno(self) -> int:
        return self.node.lineno

    def loc(self, node: ast.AST | None = None) -> str:
        n = node if node is not None else self.node
        return f"{self.module.relpath}:{getattr(n, 'lineno', self.node.lineno)}"

    def body_is_trivial(self) -> bool:
        """docstring / pass / ... / return literal only."""
        for st in self.node.body:
            if isinstance(st, ast.Expr) and isinstance(st.value, ast.Constant):
                continue
            if isinstance(st, ast.Pass):
                continue
            return False
        return True

    def __hash__(self) -> int:
        return hash(self.qualname)

    def __eq__(self, other: object) -> bool:
        return isinstance(other, FuncInfo) and other.qualname == self.qualname

    def __repr__(self) -> str:
        return f"<Func {self.qualname}>"


@dataclass
class ClassInfo:
    qualname: str
    name: str
    module: "ModuleInfo"
    node: ast.ClassDef
    base_exprs: list[str] = field(default_factory=list)
    bases: list["ClassInfo"] = field(default_factory=list)  # repo-internal, resolved
    methods: dict[str, FuncInfo] = field(default_factory=dict)
    setters: dict[str, FuncInfo] = field(default_factory=dict)
    class_attrs: dict[str, ast.AST] = field(default_factory=dict)  # name -> value node
    class_annots: dict[str, ast.AST] = field(default_factory=dict)  # name -> annotation node
    subclasses: list["ClassInfo"] = field(default_factory=list)

    def mro(self) -> list["ClassInfo"]:
        out: list[ClassInfo] = []
        seen: set[str] = set()

        def visit(c: ClassInfo) -> None:
            if c.qualname in seen:
                return
            seen.add(c.qualname)
            out.append(c)
            for b in c.bases:
                visit(b)

        visit(self)
        return out

    def find_method(self, name: str) -> FuncInfo | None:
        for c in self.mro():
            if name in c.methods:
                return c.methods[name]
        return None

    def all_subclasses(self) -> list["ClassInfo"]:
        out: list[ClassInfo] = []
        seen: set[str] = set()
        stack = list(self.subclasses)
        while stack:
            c = stack.pop()
            if c.qualname in seen:
                continue
            seen.add(c.qualname)
            out.append(c)
            stack.extend(c.subclasses)
        return out

    def is_subclass_of(self, other: "ClassInfo | str") -> bool:
        q = other if isinstance(other, str) else other.qualname
        return any(c.qualname == q or c.name == q for c in self.mro())

    def external_base_names(self) -> list[str]:
        res = []
        internal = {b.name for b in self.bases}
        for e in self.base_exprs:
            last = e.split("[")[0].split(".")[-1]
            if last not in internal:
                res.append(last)
        return res

    def __hash__(self) -> int:
        return hash(self.qualname)

    def __eq__(self, other: object) -> bool:
        return isinstance(other, ClassInfo) and other.qualname == self.qualname

    def __repr__(self) -> str:
        return f"<Class {self.qualname}>"


@dataclass
class ModuleInfo:
    name: str
    path: Path
    relpath: str
    source: str
    tree: ast.Module
    imports: dict[str, str] = field(default_factory=dict)  # local name -> dotted target
    classes: dict[str, ClassInfo] = field(default_factory=dict)
    functions: dict[str, FuncInfo] = field(default_factory=dict)
    assigns: dict[str, ast.AST] = field(default_factory=dict)  # module-level name -> value

    def line(self, lineno: int) -> str:
        lines = self.source.splitlines()
        if 1 <= lineno <= len(lines):
            return lines[lineno - 1].strip()
        return ""


class Repo:
    def __init__(self, root: str | os.PathLike | None = None) -> None:
        self.root = Path(root or os.environ.get("SA_ROOT") or "/repo").resolve()
        self.modules: dict[str, ModuleInfo] = {}
        self.classes: dict[str, ClassInfo] = {}
        self.functions: dict[str, FuncInfo] = {}
        self._by_class_name: dict[str, list[ClassInfo]] = {}
        self._methods_by_name: dict[str, list[FuncInfo]] = {}
        self.normalised: dict[str, int] = {}
        self._load()

    # ------------------------------------------------------------------ loading
    def _load(self) -> None:
        files: list[Path] = []
        for pkg in PACKAGES:
            base = self.root / pkg
            if not base.is_dir():
                raise AnalysisError(f"package directory missing: {base}")
            files.extend(sorted(base.rglob("*.py")))
        parsed: list[tuple[Path, str, str, str, ast.Module]] = []
        for f in files:
            rel = f.relative_to(self.root).as_posix()
            modname = rel[:-3].replace("/", ".")
            if modname.endswith(".__init__"):
                modname = modname[: -len(".__init__")]
            src = f.read_text(encoding="utf-8")
            try:
                tree = ast.parse(src, filename=str(f))
            except SyntaxError as e:  # the tree must compile
                raise AnalysisError(f"syntax error in {rel}: {e}") from e
            parsed.append((f, rel, modname, src, tree))
        from .normalise import collect_signatures, inline_single_use_helpers, normalise

        # local canonicalisation first (N1-N4), then the single-use helpers are folded (N5), then N1-N3 once more on the result
        sigs = collect_signatures([p[4] for p in parsed])
        trees = []
        for f, rel, modname, src, tree in parsed:
            tree, stats = normalise(tree, sigs)
            for k_, v_ in stats.items():
                self.normalised[k_] = self.normalised.get(k_, 0) + v_
            trees.append(tree)
        if os.environ.get("SA_INLINE", "1") == "1":
            total = 0
            for _ in range(8):  # chains of single-use helpers fold from the inside out
                k5 = inline_single_use_helpers(trees)
                if not k5:
                    # helpers that cannot be folded at their call site (early return, not in return position) must not
                    # block their callers for ever
                    k5 = inline_single_use_helpers(trees, leaf_first=False)
                total += k5
                if not k5:
                    break
            self.normalised["N5"] = total
            if total:
                for k, tree in enumerate(trees):
                    trees[k], stats = normalise(tree, None)
                    for k_, v_ in stats.items():
                        self.normalised[k_] = self.normalised.get(k_, 0) + v_
        for (f, rel, modname, src, _), tree in zip(parsed, trees):
            m = ModuleInfo(modname, f, rel, src, tree)
            self.modules[modname] = m
        for m in self.modules.values():
            self._index_module(m)
        self._link_classes()
        for fi in self.functions.values():
            if fi.cls is not None:
                self._methods_by_name.setdefault(fi.name, []).append(fi)

    def digest(self) -> str:
        h = hashlib.sha256()
        for name in sorted(self.modules):
            h.update(name.encode())
            h.update(self.modules[name].source.encode())
        return h.hexdigest()

    def _index_module(self, m: ModuleInfo) -> None:
        is_pkg = m.path.name == "__init__.py"
        pkg_parts = m.name.split(".") if is_pkg else m.name.split(".")[:-1]

        def add_import(node: ast.AST) -> None:
            if isinstance(node, ast.Import):
                for a in node.names:
                    m.imports[a.asname or a.name.split(".")[0]] = (
                        a.name if a.asname else a.name.split(".")[0]
                    )
            elif isinstance(node, ast.ImportFrom):
                if node.level:
                    base = pkg_parts[: len(pkg_parts) - (node.level - 1)]
                    mod = ".".join(base + ([node.module] if node.module else []))
                else:
                    mod = node.module or ""
                for a in node.names:
                    m.imports[a.asname or a.name] = f"{mod}.{a.name}"

        for node in ast.walk(m.tree):
            if isinstance(node, (ast.Import, ast.ImportFrom)):
                add_import(node)

        def index_func(
            node: ast.FunctionDef | ast.AsyncFunctionDef,
            prefix: str,
            cls: ClassInfo | None,
            parent: FuncInfo | None,
        ) -> FuncInfo:
            q = f"{prefix}.{node.name}"
            fi = FuncInfo(q, node.name, m, node, cls, parent)
            # property setters share the name: keep getter under the name
            if q in self.functions and fi.is_setter:
                q = q + "@setter"
                fi.qualname = q
            elif q in self.functions and any(
                d.endswith("overload") for d in self.functions[q].decorators
            ):
                pass  # replace overload stub by later definition
            elif q in self.functions:
                # redefinition (e.g. overloads); keep the last one
                pass
            self.functions[q] = fi
            for sub in _direct_defs(node.body):
                if isinstance(sub, (ast.FunctionDef, ast.AsyncFunctionDef)):
                    index_func(sub, f"{q}.<locals>", None, fi)
                elif isinstance(sub, ast.ClassDef):
                    index_class(sub, f"{q}.<locals>")
            return fi

        def index_class(node: ast.ClassDef, prefix: str) -> None:
            q = f"{prefix}.{node.name}"
            ci = ClassInfo(q, node.name, m, node, [ast.unparse(b) for b in node.bases])
            self.classes[q] = ci
            if prefix == m.name:
                m.classes[node.name] = ci
            self._by_class_name.setdefault(node.name, []).append(ci)
            for st in node.body:
                if isinstance(st, (ast.FunctionDef, ast.AsyncFunctionDef)):
                    fi = index_func(st, q, ci, None)
                    if fi.is_setter:
                        ci.setters[st.name] = fi
                    else:
                        ci.methods[st.name] = fi
                elif isinstance(st, ast.ClassDef):
                    index_class(st, q)
                elif isinstance(st, ast.Assign):
                    for t in st.targets:
                        if isinstance(t, ast.Name):
                            ci.class_attrs[t.id] = st.value
                elif isinstance(st, ast.AnnAssign) and isinstance(st.target, ast.Name):
                    ci.class_annots[st.target.id] = st.annotation
                    if st.value is not None:
                        ci.class_attrs[st.target.id] = st.value

        for st in _direct_defs(m.tree.body):
            if isinstance(st, (ast.FunctionDef, ast.AsyncFunctionDef)):
                fi = index_func(st, m.name, None, None)
                m.functions[st.name] = fi
            elif isinstance(st, ast.ClassDef):
                index_class(st, m.name)
            elif isinstance(st, ast.Assign):
                for t in st.targets:
                    if isinstance(t, ast.Name):
                        m.assigns[t.id] = st.value
            elif isinstance(st, ast.AnnAssign) and isinstance(st.target, ast.Name):
                if st.value is not None:
                    m.assigns[st.target.id] = st.value

    def _link_classes(self) -> None:
        for ci in self.classes.values():
            for e in ci.base_exprs:
                head = e.split("[")[0]
                target = self.resolve_name(ci.module, head)
                if isinstance(target, ClassInfo):
                    ci.bases.append(target)
                    target.subclasses.append(ci)

    # ------------------------------------------------------------------ lookup
    def resolve_name(self, m: ModuleInfo, dotted: str) -> "ClassInfo | FuncInfo | ModuleInfo | None":
        """Resolve a (dotted) name used in module ``m`` to a repo entity."""
        parts = dotted.split(".")
        head = parts[0]
        cand: str | None = None
        if head in m.classes and len(parts) == 1:
            return m.classes[head]
        if head in m.functions and len(parts) == 1:
            return m.functions[head]
        if head in m.imports:
            cand = ".".join([m.imports[head]] + parts[1:])
        elif head in m.classes or head in m.functions:
            cand = ".".join([m.name] + parts)
        else:
            cand = dotted
        return self.lookup(cand)

    def lookup(self, dotted: str, _depth: int = 0) -> "ClassInfo | FuncInfo | ModuleInfo | None":
        if dotted in self.classes:
            return self.classes[dotted]
        if dotted in self.functions:
            return self.functions[dotted]
        if dotted in self.modules:
            return self.modules[dotted]
        # re-export through a package __init__ / another module's import table
        if _depth < 6 and "." in dotted:
            mod, _, name = dotted.rpartition(".")
            mi = self.modules.get(mod)
            if mi is not None and name in mi.imports:
                return self.lookup(mi.imports[name], _depth + 1)
            # Class.method
            owner = self.lookup(mod, _depth + 1) if mod not in self.modules else None
            if isinstance(owner, ClassInfo):
                return owner.find_method(name)
        return None

    def cls(self, name: str) -> ClassInfo:
        """Class by qualname or by unique simple name."""
        if name in self.classes:
            return self.classes[name]
        c = self._by_class_name.get(name, [])
        if len(c) == 1:
            return c[0]
        if not c:
            raise AnalysisError(f"anchor-vanished: class {name} not found")
        raise AnalysisError(f"class name {name} ambiguous: {[x.qualname for x in c]}")

    def classes_named(self, name: str) -> list[ClassInfo]:
        return list(self._by_class_name.get(name, []))

    def func(self, qualname: str) -> FuncInfo:
        if qualname in self.functions:
            return self.functions[qualname]
        # Class.method with unique simple class name
        if "." in qualname:
            c, _, meth = qualname.rpartition(".")
            try:
                ci = self.cls(c)
            except AnalysisError:
                ci = None
            if ci is not None:
                f = ci.methods.get(meth)
                if f is not None:
                    return f
        raise AnalysisError(f"anchor-vanished: function {qualname} not found")

    def methods_named(self, name: str) -> list[FuncInfo]:
        return list(self._methods_by_name.get(name, []))

    def overrides(self, base: ClassInfo | str, name: str, include_base: bool = False) -> list[FuncInfo]:
        b = base if isinstance(base, ClassInfo) else self.cls(base)
        out = []
        if include_base and name in b.methods:
            out.append(b.methods[name])
        for c in b.all_subclasses():
            if name in c.methods:
                out.append(c.methods[name])
        return sorted(out, key=lambda f: f.qualname)

    def all_functions(self) -> list[FuncInfo]:
        return sorted(self.functions.values(), key=lambda f: f.qualname)

    def stats(self) -> dict:
        return {
            "root": str(self.root),
            "modules": len(self.modules),
            "classes": len(self.classes),
            "functions": len(self.functions),
        }


def _direct_defs(body: list[ast.stmt]):
    """Statements of a body including those nested in if/try/with (not in defs)."""
    for st in body:
        yield st
        if isinstance(st, (ast.If, ast.Try, ast.With, ast.For, ast.While)):
            for fld in ("body", "orelse", "finalbody"):
                yield from _direct_defs(getattr(st, fld, []) or [])
            for h in getattr(st, "handlers", []) or []:
                yield from _direct_defs(h.body)


def walk_no_nested(node: ast.AST):
    """ast.walk that does not descend into nested function / class definitions / lambdas."""
    stack = [node]
    first = True
    while stack:
        n = stack.pop()
        if not first and isinstance(n, (ast.FunctionDef, ast.AsyncFunctionDef, ast.ClassDef, ast.Lambda)):
            continue
        first = False
        yield n
        stack.extend(reversed(list(ast.iter_child_nodes(n))))


def norm(node: ast.AST | str) -> str:
    """Normalised text of a construct (whitespace / quoting independent)."""
    if isinstance(node, str):
        try:
            node = ast.parse(node, mode="eval").body
        except SyntaxError:
            return " ".join(node.split())
    return ast.unparse(node)
