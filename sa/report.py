"""Rule instances, evidence files, known-finding matching and exit codes."""

from __future__ import annotations

import hashlib
import json
import os
import sys
import time
from dataclasses import dataclass, field
from pathlib import Path

from .loader import AnalysisError, Repo

VERIF = Path(__file__).resolve().parent.parent
EVIDENCE_DIR = VERIF / "evidence"
REPLAY_DIR = EVIDENCE_DIR / "replays"
KNOWN_FILE = VERIF / "known_findings.json"


@dataclass
class Instance:
    rule: str
    key: str  # stable, no line numbers / paths
    ok: bool
    where: str = ""  # file:line (diagnostic only)
    detail: str = ""
    path: list[str] = field(default_factory=list)  # for path rules: file:line statement

    def as_dict(self) -> dict:
        d = {"rule": self.rule, "key": self.key, "ok": self.ok, "where": self.where}
        if self.detail:
            d["detail"] = self.detail
        if self.path:
            d["path"] = self.path
        return d


class Context:
    def __init__(self, prop: str, repo: Repo, tier: str, seed: int) -> None:
        self.prop = prop
        self.repo = repo
        self.tier = tier
        self.seed = seed
        self.instances: list[Instance] = []
        self.rules: dict[str, str] = {}
        self.notes: list[str] = []
        self.not_decided: list[str] = []
        self.assumptions: list[str] = []
        self.analysed: dict = {}
        self.exhaustive = False
        self.extra: dict = {}
        self.floor_failures: list[str] = []
        self._resolver = None
        self.t0 = time.time()

    @property
    def resolver(self):
        if self._resolver is None:
            from .resolve import Resolver

            self._resolver = Resolver(self.repo)
        return self._resolver

    # ------------------------------------------------------------------ recording
    def rule(self, rid: str, text: str) -> None:
        self.rules[rid] = text

    def add(self, rule: str, key: str, ok: bool, where: str = "", detail: str = "", path: list[str] | None = None) -> Instance:
        full = f"{self.prop}/{rule}/{key}"
        inst = Instance(rule, full, bool(ok), where, detail, path or [])
        self.instances.append(inst)
        return inst

    def ok(self, rule: str, key: str, where: str = "", detail: str = "") -> Instance:
        return self.add(rule, key, True, where, detail)

    def fail(self, rule: str, key: str, where: str = "", detail: str = "", path: list[str] | None = None) -> Instance:
        return self.add(rule, key, False, where, detail, path)

    def note(self, text: str) -> None:
        self.notes.append(text)

    def floor(self, rule: str, what: str, found: int, floor: int) -> None:
        """Guard against vacuous passes: fewer matched anchors than confirmed by hand."""
        if found < floor:
            # deferred: a genuine violation found by another rule takes precedence (exit 1);
            # with no violation the run is reported as analysis-broken (exit 2), never a pass
            self.floor_failures.append(
                f"anchor-vanished: rule {self.prop}/{rule} matched {found} {what}, expected at least {floor}"
            )

    def count(self, rule: str) -> int:
        return sum(1 for i in self.instances if i.rule == rule)


def load_known() -> dict:
    if KNOWN_FILE.exists():
        return json.loads(KNOWN_FILE.read_text())
    return {"findings": [], "fixed": []}


def finish(ctx: Context) -> int:
    """Write evidence, print verdict lines, return the exit code."""
    known = {
        f["key"]: f for f in load_known().get("findings", []) if f.get("property") == ctx.prop
    }
    failing = [i for i in ctx.instances if not i.ok]
    unknown = [i for i in failing if i.key not in known]
    matched = [i for i in failing if i.key in known]
    REPLAY_DIR.mkdir(parents=True, exist_ok=True)
    lines: list[str] = []
    seen_known: set[str] = set()
    for i in matched:
        if i.key in seen_known:
            continue
        seen_known.add(i.key)
        lines.append(f"KNOWN-FINDING: property={ctx.prop} {i.key} -- {known[i.key].get('what', i.detail)}")
    seen_keys: set[str] = set()
    for i in unknown:
        if i.key in seen_keys:
            continue
        seen_keys.add(i.key)
        h = hashlib.sha256(i.key.encode()).hexdigest()[:12]
        rp = REPLAY_DIR / f"{ctx.prop}-{h}.json"
        rp.write_text(
            json.dumps(
                {
                    "property": ctx.prop,
                    "rule": i.rule,
                    "rule_text": ctx.rules.get(i.rule, ""),
                    "key": i.key,
                    "where": i.where,
                    "detail": i.detail,
                    "path": i.path,
                    "root": str(ctx.repo.root),
                },
                indent=1,
            )
        )
        lines.append(f"VIOLATION property={ctx.prop} replay={rp}")
        lines.append(f"  rule {i.rule}: {ctx.rules.get(i.rule, '')}")
        lines.append(f"  at {i.where}: {i.key}")
        if i.detail:
            lines.append(f"  {i.detail}")
    wall = time.time() - ctx.t0
    distinct = len({i.key for i in ctx.instances})
    per_rule: dict[str, dict] = {}
    for i in ctx.instances:
        d = per_rule.setdefault(i.rule, {"text": ctx.rules.get(i.rule, ""), "instances": 0, "held": 0})
        d["instances"] += 1
        d["held"] += 1 if i.ok else 0
    # samples: every failing instance + up to 3 per rule of the passing ones
    samples: list[dict] = [i.as_dict() for i in failing]
    taken: dict[str, int] = {}
    for i in ctx.instances:
        if i.ok and taken.get(i.rule, 0) < 3:
            taken[i.rule] = taken.get(i.rule, 0) + 1
            samples.append(i.as_dict())
    explanation = (
        "Static analysis of the source tree (nothing executed). Rules applied: "
        + "; ".join(f"{k}: {v}" for k, v in ctx.rules.items())
        + ". NOT decided: "
        + ("; ".join(ctx.not_decided) if ctx.not_decided else "-")
    )
    evidence = {
        "property_id": ctx.prop,
        "tier": ctx.tier,
        "seed": ctx.seed,
        "level": "other",
        "coverage": {
            "explanation": explanation,
            "obligations": len(ctx.instances),
            "discharged": len(ctx.instances) - len(failing),
            "evaluations": max(len(ctx.instances), 0),
            "distinct_nontrivial": distinct,
            "rule": "one evaluation = one rule instance (a call site, function, path, table row or sibling pair on which a rule had something to decide); distinct = distinct finding keys",
            "samples": samples[:80],
            "exhaustive": ctx.exhaustive,
            "rules": per_rule,
            "analysed": {**ctx.repo.stats(), **ctx.analysed},
            "not_decided": ctx.not_decided,
            "known_findings_matched": sorted({i.key for i in matched}),
            "notes": ctx.notes,
            **ctx.extra,
        },
        "assumptions": ctx.assumptions,
        "wall_s": round(wall, 3),
        "violations": len(seen_keys),
    }
    EVIDENCE_DIR.mkdir(parents=True, exist_ok=True)
    out = EVIDENCE_DIR / f"{ctx.prop}.json"
    if os.environ.get("SA_NO_EVIDENCE") != "1":
        out.write_text(json.dumps(evidence, indent=1, default=str))
    out_lines = [f"NOTE {n}" for n in ctx.notes]
    out_lines.append(
        f"{ctx.prop} [{ctx.tier}] root={ctx.repo.root} rules={len(ctx.rules)} instances={len(ctx.instances)} "
        f"held={len(ctx.instances) - len(failing)} known={len(matched)} violations={len(seen_keys)} wall={wall:.2f}s"
    )
    out_lines += [f"  {rid}: {d['held']}/{d['instances']} held -- {d['text']}" for rid, d in per_rule.items()]
    out_lines += lines
    out_lines += [f"{'NOTE' if unknown else 'ANALYSIS-ERROR'} {ctx.prop}: {ff}" for ff in ctx.floor_failures]
    try:
        # the verdict must not depend on who reads the output: a reader that closes the pipe early changes nothing
        for ln in out_lines:
            print(ln)
        sys.stdout.flush()
    except BrokenPipeError:
        try:
            sys.stdout = open(os.devnull, "w")
        except OSError:
            pass
    if unknown:
        return 1
    return 2 if ctx.floor_failures else 0
