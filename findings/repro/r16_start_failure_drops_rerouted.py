"""C03/R3 exit::get_additional_invocations_to_run::Q-::return  (and C11): an invocation that blocks others is
claimed through the blocking path, its thread cannot be started (RuntimeError: can't start new thread), the
runner re-routes it - and the SAME poll, whose generator is still running, then pops that invocation's messages
and drops them because the id is still listed in `blocking_invocation_ids`.  Result: REROUTED, not queued, no
owner: nothing will ever run it and the parent waiting for it never finishes.

Documentation only (not a check).  Exit 1 when the invocation is lost.
"""
import logging, sys, threading
logging.disable(logging.CRITICAL)
import t_tasks as T
from pynenc.invocation.status import InvocationStatus as S
from pynenc.runner.runner_context import RunnerContext
from pynenc.runner.thread_runner import ThreadRunner

app = T.app
app.purge()
orch = app.orchestrator
child = T.add(1, 2)                     # REGISTERED, one message in the queue
parent = T.add(5, 5)                    # a second invocation that will be made to wait on `child`
ctxP = RunnerContext("P")
# the parent is taken by another runner and declares that it waits for the child -> child is a blocking invocation
got = [i for i in orch.get_invocations_to_run(2, ctxP)]
for i in got:
    if i.invocation_id != parent.invocation_id:
        # give the child back exactly as a stopping runner would (REROUTED + queued)
        orch.reroute_invocations({i.invocation_id}, ctxP)
orch.set_invocation_status(parent.invocation_id, S.RUNNING, ctxP)
orch.waiting_for_results(parent.invocation_id, [child.invocation_id])
print("before: child", orch.get_invocation_status(child.invocation_id).name, "queue length", app.broker.count_invocations())

runner = ThreadRunner(app)
runner._on_start()
real_start = threading.Thread.start
def failing_start(self):
    if getattr(getattr(self, "_target", None), "__name__", "") == "run":    # only the task threads, not the history writers
        raise RuntimeError("can't start new thread")
    return real_start(self)
threading.Thread.start = failing_start
try:
    runner.conf.runner_loop_sleep_time_sec = 0
    runner.runner_loop_iteration()       # one ordinary iteration of the real loop
finally:
    threading.Thread.start = real_start
st = orch.get_invocation_status(child.invocation_id)
q = app.broker.count_invocations()
print("after:  child", st.name, "queue length", q, "tracked threads", len(runner.threads))
lost = st.is_available_for_run() and q == 0
print("LOST: available status, not queued, nobody holds it" if lost else "ok")
sys.exit(1 if lost else 0)
