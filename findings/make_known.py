"""Development-time generator of /verif/known_findings.json (never run by a check).

Each known finding is a genuine defect of pynenc that was reproduced against the real code
(script under findings/repro) and is NOT repaired because the repair is not small and safe.
Keys are rule / construct based (no line numbers); a different construct, status or function
is a different key and is still reported as a VIOLATION.
"""

import json
from pathlib import Path

W = "architecture: status store and queue are two stores without a common transaction; repairing needs a transactional outbox or recovery scans for every non-available, non-final status"
F = []


def add(prop, key, what, why, repro, note=""):
    F.append({"property": prop, "key": key, "what": what, "why_genuine": why, "reproduction": repro, "not_repaired_because": note, "status": "known"})


# ------------------------------------------------------------------ C01 / C16: unknown id
add("C01", "C01/R5/missing-record-handling",
    "unknown invocation id: MemOrchestrator passes None to the validator (REGISTERED request creates a record, any other raises a transition error), SQLiteOrchestrator raises KeyError",
    "input: set_invocation_status(<id without record>, REGISTERED | RUNNING, ctx) on both backends", "findings/repro/r8_sibling.py",
    "either direction changes what runner shutdown does for purged invocations (_kill_and_reroute only handles status errors): a design decision for the maintainers")
add("C16", "C16/R2/BaseOrchestrator._atomic_status_transition::raises::mem=nothing::sqlite=KeyError",
    "same divergence as C01/R5 seen as a sibling difference of raised exception classes", "input: status request for an unknown id", "findings/repro/r8_sibling.py", "see C01/R5")
# ------------------------------------------------------------------ C03 windows
for key, what in [
    ("C03/R2/window::get_additional_invocations_to_run::Q-->S(PENDING)", "message popped, invocation not yet claimed"),
    ("C03/R2/window::get_additional_invocations_to_run::Q-->S!(PENDING:race)", "message popped, the claim is lost to another runner (same window as the successful claim)"),
    ("C03/R2/window::get_additional_invocations_to_run::Q-->S(CONCURRENCY_CONTROLLED)", "message popped, blocked invocation not yet marked"),
    ("C03/R2/window::get_additional_invocations_to_run::Q-->S(CONCURRENCY_CONTROLLED_FINAL)", "message popped, blocked invocation not yet finalised"),
    ("C03/R2/window::get_additional_invocations_to_run::Q-->S!(CONCURRENCY_CONTROLLED:typestate:from=RETRY)", "message popped, blocked RETRY invocation about to be rejected (see C06/R3)"),
    ("C03/R2/window::get_additional_invocations_to_run::Q-->S!(CONCURRENCY_CONTROLLED_FINAL:typestate:from=REROUTED,RETRY)", "message popped, blocked invocation about to be rejected (see C06/R3)"),
    ("C03/R2/window::get_additional_invocations_to_run::S(CONCURRENCY_CONTROLLED)->S(REROUTED)", "CONCURRENCY_CONTROLLED written, reroute deferred to the end of the poll"),
    ("C03/R2/window::reroute_invocations::S(REROUTED)->Q+", "REROUTED written, message not yet pushed"),
    ("C03/R2/window::set_invocation_retry::S(RETRY)->Q+", "RETRY written, message not yet pushed"),
    ("C03/R2/window::_kill_and_reroute::S(KILLED)->S(REROUTED)", "KILLED written, not yet rerouted"),
    ("C03/R2/window::recover_pending_invocations::S(PENDING_RECOVERY)->S(REROUTED)", "PENDING_RECOVERY written, reroute happens after the loop"),
    ("C03/R2/window::recover_running_invocations::S(RUNNING_RECOVERY)->S(REROUTED)", "RUNNING_RECOVERY written, reroute happens after the loop"),
]:
    add("C03", key, "crash window: " + what + "; a process dying here leaves the invocation not queued, not held in PENDING/RUNNING, and selected by no recovery scan",
        "crash point: kill the process between the two named effects", "findings/repro/r12_crash_windows.py", W)
for st in ("CONCURRENCY_CONTROLLED", "KILLED", "PENDING_RECOVERY", "RUNNING_RECOVERY"):
    add("C03", f"C03/R4/left-behind-status-not-scanned::{st}", f"{st} is written by an operation that relies on the same actor continuing; no recovery scan selects {st}",
        f"crash point: after the {st} status write", "findings/repro/r12_crash_windows.py", W)
add("C03", "C03/R3/exit::get_additional_invocations_to_run::S(CONCURRENCY_CONTROLLED)::raise:InvocationStatusTransitionError",
    "two blocked invocations in one poll: the first is marked CONCURRENCY_CONTROLLED (reroute deferred to the end of the poll), the second is rejected by the status table (RETRY -> CONCURRENCY_CONTROLLED) and the error leaves the poll before the deferred reroute: the first stays CONCURRENCY_CONTROLLED, not queued (found with two loop unrollings, thorough tier)",
    "history: as C06/R3, with one more same-key invocation in REGISTERED polled before the RETRY one", "findings/repro/r2_cc_typestate.py", "same root cause as C06/R3 (state-machine change)")
add("C03", "C03/R3/exit::get_additional_invocations_to_run::S(CONCURRENCY_CONTROLLED)::return:after-caught:InvocationStatusTransitionError",
    "the same history seen from a process worker (persistent_process_main): the status error that leaves the poll is swallowed by the worker's generic `except Exception`, the worker carries on, and the first invocation stays CONCURRENCY_CONTROLLED, not queued (the deferred reroute never ran)",
    "history: as above, polled by a PersistentProcessRunner worker", "findings/repro/r2_cc_typestate.py", "same root cause as C06/R3 (state-machine change)")
for key in [
    "C03/R3/exit::get_additional_invocations_to_run::S!(CONCURRENCY_CONTROLLED:typestate:from=RETRY)::raise:InvocationStatusTransitionError",
    "C03/R3/exit::get_additional_invocations_to_run::S!(CONCURRENCY_CONTROLLED:typestate:from=RETRY)::return:after-caught:InvocationStatusTransitionError",
    "C03/R3/exit::get_additional_invocations_to_run::S!(CONCURRENCY_CONTROLLED_FINAL:typestate:from=REROUTED,RETRY)::raise:InvocationStatusTransitionError",
    "C03/R3/exit::get_additional_invocations_to_run::S!(CONCURRENCY_CONTROLLED_FINAL:typestate:from=REROUTED,RETRY)::return:after-caught:InvocationStatusTransitionError",
]:
    add("C03", key, "a popped invocation in RETRY / REROUTED that is blocked by concurrency control is rejected by the status table; the poll ends (raise, or swallowed by the worker's generic handler) with the message gone and the invocation in an available status that is not queued",
        "history: task with running concurrency; one invocation RUNNING, a same-key invocation fails with a retriable error (RETRY, re-queued) and is polled while the first still runs", "findings/repro/r2_cc_typestate.py",
        "needs new edges in the documented state machine (RETRY -> CONCURRENCY_CONTROLLED*, REROUTED -> CONCURRENCY_CONTROLLED_FINAL) or a different treatment of blocked retries: a design change, see C06/R3")
# ------------------------------------------------------------------ C06
for src, tgt in (("RETRY", "CONCURRENCY_CONTROLLED"), ("REROUTED", "CONCURRENCY_CONTROLLED_FINAL"), ("RETRY", "CONCURRENCY_CONTROLLED_FINAL")):
    add("C06", f"C06/R3/pynenc.orchestrator.base_orchestrator.BaseOrchestrator.get_additional_invocations_to_run::S({tgt})::from={src}",
        f"a blocked invocation in {src} is sent to {tgt}, which is not an edge of the status table; the rejection is not handled and the poll fails",
        "history: see C03/R3 (RETRY blocked by a same-key RUNNING invocation); REROUTED with reroute_on_concurrency_control=False by the table", "findings/repro/r2_cc_typestate.py",
        "changes the documented lifecycle graph (code, SVG and markdown tables)")
for key in [
    "C06/R4/pynenc.invocation.dist_invocation.DistributedInvocation.run::is_authorize_to_run_by_concurrency_control->S(RUNNING)",
    "C06/R4/pynenc.orchestrator.base_orchestrator.BaseOrchestrator.get_additional_invocations_to_run::is_candidate_to_run_by_concurrency_control->S(PENDING)",
    "C06/R4/pynenc.orchestrator.base_orchestrator.BaseOrchestrator.get_blocking_invocations_to_run::is_candidate_to_run_by_concurrency_control->S(PENDING)",
]:
    add("C06", key, "check-then-act: the same-key lookup and the transition it guards are separate store operations",
        "schedule: two runners evaluate the guard for two same-key invocations before either claims (and again before either starts): both RUNNING with the same key", "findings/repro/r13_cc_check_then_act.py",
        "needs a per-key critical section across orchestrator backends (lock table / conditional update): architectural")
# ------------------------------------------------------------------ C11
add("C11", "C11/R5/pynenc.runner.thread_runner.ThreadRunner._on_stop::join(.thread)",
    "ThreadRunner._on_stop joins task threads without a timeout while a waiting task's result loop only tests the awaited invocation's status",
    "program: a task waiting on a sub-task that is still queued; stop request while it waits: run() never returns", "findings/repro/r14_stop_hang.py",
    "needs a cooperative cancellation of waiting task threads (or a bounded join plus a policy for threads that keep running): behavioural change of the runner")
# ------------------------------------------------------------------ C13
add("C13", "C13/R6/pynenc.trigger.base_trigger.BaseTrigger.trigger_loop_iteration::launch-arguments-depend-on-iterated-occurrence",
    "the launch loop computes the arguments from the aggregate trigger context; ContextTypeArgumentProvider returns the first matching occurrence",
    "history: OR trigger, two occurrences (n=20, n=30) pending in one loop iteration: two launches, both with {n: 20}", "findings/repro/r4_triggers.py (c)",
    "needs the per-run-id occurrence to be threaded through get_arguments / the argument providers (API change)")
add("C13", "C13/R8/pynenc.trigger.trigger_definitions.TriggerDefinition.generate_trigger_run_ids::single-id-branch-requires-several-conditions",
    "a trigger on a single condition has default logic AND and gets ONE run id for all pending occurrences",
    "history: three events pending for a single-condition trigger in one loop iteration: one launch", "findings/repro/r4_triggers.py (b)",
    "changes the launch cardinality of existing single-condition triggers (semantic decision)")
# ------------------------------------------------------------------ C15
add("C15", "C15/R2/pynenc.task.distribute_batch_calls::PreSerializedCall-arguments-bound",
    "parallelize(..., common_args=...) forwards the raw parameter dictionaries: never bound to the signature",
    "input: three.parallelize([{x: 1}], common_args={y: 2}) vs three(1, 2): different call identity (default z missing)", "findings/repro/r6_misc.py",
    "binding must merge common and specific arguments without re-serialising the common ones: not a one-line change")
add("C15", "C15/R2/pynenc.trigger.base_trigger.BaseTrigger.execute_task::_call-arguments-bound",
    "trigger-launched calls wrap the provider's dictionary in Arguments(kwargs=...) without binding",
    "input: task u(x, y=2), provider returns {x: 1}: identity differs from u(1)", "findings/repro/r11_siblings2.py",
    "binding makes the existing test test_execute_task (arguments that do not match the signature) fail: the unedited suite must pass")
add("C15", "C15/R4/pynenc.client_data_store.base_client_data_store.BaseClientDataStore.serialize::cache-insert-is-fresh-object",
    "serialize() caches the caller's own object under the reference key", "input: serialize(list), mutate the list, resolve(reference) in the same process returns the mutated list", "findings/repro/r6_misc.py",
    "copying on insert costs what the cache is meant to save; needs a maintainer decision")
add("C15", "C15/R5/pynenc.client_data_store.base_client_data_store.BaseClientDataStore.serialize::no-unserialised-pass-through-of-prefixed-strings",
    "a user string that starts with the reserved prefix is passed through as if it were a reference", "input: serialize('__pynenc__client_data__:x') then resolve(): KeyError instead of the string", "findings/repro/r6_misc.py",
    "the pass-through is relied upon for already-externalised values; needs a distinguishing envelope")
# ------------------------------------------------------------------ C16
add("C16", "C16/R2/BaseStateBackend.get_app_info::raises::mem=ValueError::sqlite=KeyError", "missing app info: ValueError (mem) vs KeyError (sqlite)", "input: get_app_info() after purge / before store_app_info", "findings/repro/r8_sibling.py, r11_siblings2.py", "which class is the contract is undocumented in the base class")
add("C16", "C16/R5/increment-retries-unknown-id::mem=creates-entry::sqlite=no-op", "increment_invocation_retries(<unknown id>) creates a counter in memory, is a no-op in SQLite", "input: increment then get_invocation_retries(unknown): 1 vs 0", "findings/repro/r11_siblings2.py", "trivial, but which behaviour is intended is undocumented")
add("C16", "C16/R5/BaseOrchestrator.record_atomic_service_execution::unknown-key::mem=creates::sqlite=no-op", "record_atomic_service_execution(<runner without heartbeat row>) keeps the window in memory, is a no-op in SQLite", "history: record_atomic_service_execution('r', t0, t1); register_runner_heartbeats(['r']); _get_active_runners(): last_service_start set (mem) vs None (sqlite)", "findings/repro/r23_update_of_absent_row.py", "harmless in the runner loop (a runner heartbeats before it runs a service); which behaviour is intended is undocumented")
add("C16", "C16/R5/BaseTrigger.store_last_cron_execution::unknown-key::mem=creates::sqlite=no-op", "store_last_cron_execution(<condition id without row>, t, expected=None) answers True on both backends but stores nothing in SQLite: the same swap succeeds again", "history: store_last_cron_execution('c', t0, None) twice for a condition id that has no row (store purged by another process after this runner registered): (True, False) mem vs (True, True) sqlite", "findings/repro/r23_update_of_absent_row.py", "a repair has to decide what a swap for an unregistered condition means (refuse, or create the row - condition_json is NOT NULL); not a local change")
# ------------------------------------------------------------------ C17
add("C17", "C17/R3/prefix-delete::prefix-not-forgeable",
    "purge deletes `name LIKE <prefix>%` and table names start with the user-controlled sanitised id",
    "input: app A id 'x', app B id = A's broker prefix 'x_<hash of x>__broker' in one database file: A.broker.purge() empties B's queue", "findings/repro/r10_prefix_forge.py",
    "a sound repair changes the naming scheme (hash first) or deletes by exact table names in all five components")
# ------------------------------------------------------------------ C20
for op in ("retrieve_invocation", "route_invocation"):
    add("C20", f"C20/R2/GET::pynmon.views.broker.queue_view::reaches::{op}",
        "GET /broker/queue pops up to `limit` messages and routes them back", "input: queue of 5, GET /broker/queue?limit=2: order afterwards 3,4,5,1,2; a purged record raises between pop and re-route and the popped messages are lost", "findings/repro/r6_misc.py",
        "needs a peek operation in the broker interface (all broker backends, plugins included)")

# each fix is also exported to /verif/fixes/<property>-<commit>.diff (git show <commit> --format=) so that the thorough tier can un-apply it
fixed = [
    ("C02", "ea7eb1d", "MemOrchestrator._get_invocation_lock was a check-then-insert: two first-time claimers obtained two locks (C02/R3)"),
    ("C04", "19d5774", "recover_pending_invocations / recover_running_invocations stranded the invocations already taken when a later request lost a race (C04/R3, C03/R3)"),
    ("C13", "50794d0", "SQLiteTrigger.claim_trigger_run / store_last_cron_execution read-test-write without BEGIN IMMEDIATE (C13/R2)"),
    ("C13", "0f2b677", "store_last_cron_execution skipped the comparison when expected_last_execution was None, mem and sqlite (C13/R3)"),
    ("C13", "d1972b7", "ExceptionContext.context_id lacked the invocation id: failures of different invocations collapsed (C13/R5)"),
    ("C14", "a35dd0d", "MultiThreadRunner.runner_loop_iteration never pruned dead workers (C14/R1)"),
    ("C06", "13faa5a", "route_calls (batch path) did not index arguments for running concurrency control (C06/R1)"),
    ("C16", "57a9247", "MemStateBackend.purge left _workflow_data and _runner_contexts (C16/R4)"),
    ("C16", "a983df0", "MemOrchestrator._register_new_invocations overwrote the record of an existing invocation (C16/R5)"),
    ("C05", "82499b9", "PynencError subclasses without attributes lost Exception.args on serialisation (C05/R4)"),
    ("C18", "f31d3bd", "WorkflowContext.deterministic cached the executor of the first invocation on the per-process Task (C18/R1)"),
    ("C03", "06e9472", "get_additional_invocations_to_run dropped every popped message whose id was listed in blocking_invocation_ids, also after that invocation had been handed back within the same poll (thread start failure -> rerouted): REROUTED, not queued, lost (C03/R3 exit::get_additional_invocations_to_run::Q-::return, found after the engine required listed ids to be HELD; findings/repro/r16_start_failure_drops_rerouted.py)"),
    ("C16", "d96871a", "MemBlockingControl.get_blocking_invocations(0) returned every ready invocation (the == 0 test came after the decrement), SQLiteBlockingControl none (LIMIT 0): a runner without a free slot claimed blocking invocations on the in-memory backend only (C16/R3 blocking-limit::zero-means-none-on-both-backends; observed by a seeding agent, findings/repro/r17_blocking_limit_zero.py)"),
    ("C14", "93ae93f", "persistent_process_main's SIGTERM handler set the stop event the parent shares between all workers: one terminated worker stopped its siblings, and every replacement started with the event already set and exited at once (C14/R4 sets-only-this-workers-event; noted by a seeding agent, reproduced with real processes in findings/repro/r18_sigterm_stops_all_workers.py)"),
    ("C16", "4fb5a9d", "MemStateBackend.purge kept this app's entry in the class-level app-info registry while the SQLite purge empties the app_info table (C16/R4 purge-coverage::MemStateBackend::_app_info_registry; formerly a known finding - the repair removes only the own app's entry, cf. seed C17-2)"),
    ("C13", "45db215", "SQLiteTrigger._register_condition was INSERT OR REPLACE with two of the three columns: registering a condition again (every runner at start-up) reset last_cron_execution and the current cron tick fired a second time; the in-memory trigger kept the value (C13/R12 replace-keeps-maintained-columns; noted by two seeding agents, findings/repro/r19_cron_reregistration_resets.py)"),
    ("C16", "8c23fe6", "SQLiteStateBackend.purge kept _runner_context_cache, the process-local cache that gates store_runner_context: after a purge the context was never written again and other processes missed it; MemStateBackend.purge clears it (C16/R4 purge-clears-write-gating-cache; noted by a seeding agent, findings/repro/r20_sqlite_purge_keeps_gating_cache.py)"),
    ("C13", "76143ad", "BaseTrigger._should_trigger_cron_condition evaluated the schedule only when a previous execution was cached or stored: the first poll of a condition that never fired went straight to the compare-and-swap and produced an occurrence outside every check window, e.g. '0 0 1 1 *' on a June morning (C13/R10 schedule-consulted-on-every-path-to-the-swap; noted by a seeding agent, findings/repro/r21_first_cron_poll_ignores_schedule.py)"),
    ("C16", "1a79e24", "SQLiteStateBackend.get_matching_runner_contexts bound the searched text into LIKE '%..%' ('_' and '%' act as wildcards, ASCII case ignored) while the in-memory backend tests `partial_id in runner_id`: 'a_1' also matched 'ab1', 'threadrunner' matched 'ThreadRunner@..' on SQLite only (C16/R15 text-match-is-literal-on-both-backends; noted by a seeding agent, findings/repro/r22_like_wildcards_runner_search.py)"),
    ("C13", "16fecfb", "BaseTrigger.report_invocation_failure built the ExceptionContext with invocation.status (the object's 100 ms cache) where report_invocation_result asks the orchestrator: a RUNNING read shortly before the body raised made the FAILED occurrence carry RUNNING, the on_exception condition was not satisfied and its task launched zero times (C13/R14 status-read-from-the-orchestrator; noted by a seeding agent, findings/repro/r24_failure_report_uses_cached_status.py)"),
    ("C12", "02fb446", "calculate_time_slot computed a window's end as start + slot - margin: with margin 0 the rounded end could exceed the next window's rounded start by one ulp, two runners authorised at one instant, e.g. N=7, 6 min (C12/R6; findings/repro/r15_slot_rounding.py)"),
]
out = {
    "_comment": "Committed by hand (generated with findings/make_known.py at development time). Checks only READ this file. A 'fixed' entry suppresses nothing.",
    "findings": F,
    "fixed": [{"property": p, "commit": c, "what": w, "line": f"fixed: property={p} {c} {w}"} for p, c, w in fixed],
}
Path(__file__).resolve().parent.parent.joinpath("known_findings.json").write_text(json.dumps(out, indent=1) + "\n")
print(len(F), "known findings,", len(fixed), "fixed")
