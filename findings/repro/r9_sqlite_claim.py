# C13/R2: SQLite claim_trigger_run is SELECT-then-INSERT without BEGIN IMMEDIATE
import tempfile, os, threading, shutil
from pynenc import PynencBuilder
import pynenc.trigger.sqlite_trigger as ST
d=tempfile.mkdtemp()
app=PynencBuilder().sqlite(sqlite_db_path=os.path.join(d,"x.db")).app_id("claim").build()
trg=app.trigger
orig=ST.sqlite_conn
after_select=threading.Barrier(2)
class Conn:
    def __init__(s,c): s.c=c
    def execute(s,sql,params=()):
        r=s.c.execute(sql,params)
        if sql.lstrip().upper().startswith("SELECT EXPIRATION") and "run_claims" in sql:
            rows=r.fetchall()
            try: after_select.wait(timeout=3)     # both claimers have read "no claim" before either writes
            except Exception: pass
            class Cur:
                def fetchone(_): return rows[0] if rows else None
                def close(_): pass
            return Cur()
        return r
    def __getattr__(s,n): return getattr(s.c,n)
    def __enter__(s): s.c.__enter__(); return s
    def __exit__(s,*a): return s.c.__exit__(*a)
ST.sqlite_conn=lambda p: Conn(orig(p))
res={}
def claim(n): res[n]=trg.claim_trigger_run("run-1")
ts=[threading.Thread(target=claim,args=(n,)) for n in "AB"]; [t.start() for t in ts]; [t.join() for t in ts]
print("both claimed the same run id:", res)
shutil.rmtree(d)
