"""C14 - process-based runners keep their worker pool at capacity when workers die.

R1 from runner_loop_iteration the (intra-class) call graph reaches a statement that forgets
   tracked workers whose process is not alive, and it precedes the spawn decision
R2 the spawn decision compares the size of the tracking table with the configured capacity
R3 heartbeats are reported only for workers whose process is alive, every loop iteration
"""

from __future__ import annotations

import ast

from ..flow import call_name, calls_in, cfg_node_of, func_cfg, names_in, parent_map, self_attr
from ..loader import AnalysisError, ClassInfo, FuncInfo, walk_no_nested
from ..report import Context

PROPERTY = "C14"
TECHNIQUE = "static analysis: intra-class call-graph reachability from the loop iteration, CFG ordering of prune and spawn, operand check of the capacity comparison, liveness filter check"
CAPACITY_ATTRS = ("max_processes", "num_processes", "max_parallel_slots")


def process_runners(ctx: Context) -> list[tuple[ClassInfo, FuncInfo, str]]:
    """(class, get_active_child_runner_ids override, tracking attribute)"""
    base = ctx.repo.cls("BaseRunner")
    out = []
    for c in base.all_subclasses():
        f = c.methods.get("get_active_child_runner_ids")
        if f is None:
            continue
        attrs = {self_attr(n) for n in walk_no_nested(f.node) if isinstance(n, (ast.Attribute, ast.Call, ast.Subscript)) and self_attr(n)}
        attrs.discard(None)
        if not attrs:
            continue  # returns a constant: no children
        # the tracking table = the self attribute iterated
        table = None
        for n in walk_no_nested(f.node):
            if isinstance(n, ast.comprehension) or isinstance(n, ast.For):
                a = self_attr(n.iter)
                if a:
                    table = a
        if table is None:
            table = sorted(attrs)[0]
        out.append((c, f, table))
    return out


def intra_reach(c: ClassInfo, start: FuncInfo) -> dict[str, list[str]]:
    """methods of the class (MRO) reachable from start through self.<m>() calls -> call chain"""
    chains: dict[str, list[str]] = {start.name: [start.name]}
    stack = [start]
    while stack:
        f = stack.pop()
        for call in calls_in(f.node):
            if isinstance(call.func, ast.Attribute) and isinstance(call.func.value, ast.Name) and call.func.value.id == "self":
                m = c.find_method(call.func.attr)
                if m is not None and m.name not in chains:
                    chains[m.name] = chains[f.name] + [m.name]
                    stack.append(m)
        # property reads self.<prop>
        for n in walk_no_nested(f.node):
            if isinstance(n, ast.Attribute) and isinstance(n.value, ast.Name) and n.value.id == "self":
                m = c.find_method(n.attr)
                if m is not None and m.is_property and m.name not in chains:
                    chains[m.name] = chains[f.name] + [m.name]
                    stack.append(m)
    return chains


def prune_sites(c: ClassInfo, table: str) -> list[tuple[FuncInfo, ast.AST]]:
    """Removals from the tracking table in functions that test `not <proc>.is_alive()`."""
    out = []
    seen = set()
    for k in c.mro():
        for m in k.methods.values():
            if m.name in seen:
                continue
            seen.add(m.name)
            neg_alive = False
            for n in walk_no_nested(m.node):
                if isinstance(n, ast.UnaryOp) and isinstance(n.op, ast.Not) and "is_alive()" in ast.unparse(n.operand):
                    neg_alive = True
            mentions = any(isinstance(n, ast.Call) and call_name(n) == "is_alive" for n in walk_no_nested(m.node))
            if not neg_alive and not mentions:
                continue

            def dead_only(node) -> bool:
                # `not <p>.is_alive()` holds on every path to the removal, however the branch is written
                from ..flow import conditions_at
                from ..cfg import build_cfg

                g_ = build_cfg(m.node)
                return any(isinstance(c_, ast.UnaryOp) and isinstance(c_.op, ast.Not) and isinstance(c_.operand, ast.Call) and call_name(c_.operand) == "is_alive" for c_ in conditions_at(g_, m.node, node, parent_map(m.node)))

            for n in walk_no_nested(m.node):
                if isinstance(n, ast.Call) and call_name(n) in ("pop", "popitem") and self_attr(n.func) == table and (neg_alive or dead_only(n)):
                    out.append((m, n))
                elif isinstance(n, ast.Delete) and any(self_attr(t) == table for t in n.targets) and (neg_alive or dead_only(n)):
                    out.append((m, n))
                elif isinstance(n, ast.Assign) and any(isinstance(t, ast.Attribute) and t.attr == table and isinstance(t.value, ast.Name) and t.value.id == "self" for t in n.targets) and isinstance(n.value, ast.DictComp) and "is_alive()" in ast.unparse(n.value):
                    out.append((m, n))
    return out


def spawn_sites(c: ClassInfo, table: str) -> list[tuple[FuncInfo, ast.AST]]:
    out = []
    seen = set()
    for k in c.mro():
        for m in k.methods.values():
            if m.name in seen:
                continue
            seen.add(m.name)
            has_proc = any(call_name(x) == "Process" for x in calls_in(m.node))
            if not has_proc:
                continue
            for n in walk_no_nested(m.node):
                if isinstance(n, ast.Assign) and any(isinstance(t, ast.Subscript) and self_attr(t) == table for t in n.targets):
                    out.append((m, n))
    return out


def first_step_nodes(repo, c: ClassInfo, loop: FuncInfo, target: FuncInfo, g, pm) -> list:
    """CFG nodes of `loop` from which `target` is entered (the call in loop's body whose
    intra-class reach contains target), or the statement itself when target is loop."""
    if target is loop:
        return []
    out = []
    for call in calls_in(loop.node):
        if isinstance(call.func, ast.Attribute) and isinstance(call.func.value, ast.Name) and call.func.value.id == "self":
            m = c.find_method(call.func.attr)
            if m is not None and target.name in intra_reach(c, m):
                out.extend(cfg_node_of(g, loop.node, call, pm))
    for n in walk_no_nested(loop.node):
        if isinstance(n, ast.Attribute) and isinstance(n.value, ast.Name) and n.value.id == "self":
            m = c.find_method(n.attr)
            if m is not None and m.is_property and target.name in intra_reach(c, m):
                out.extend(cfg_node_of(g, loop.node, n, pm))
    return out


def r4_worker_signals(ctx: Context) -> None:
    """One worker's death stays that worker's death: what a worker's own signal handler sets must not be an object the
    parent hands to ALL its workers (a shared stop event makes every sibling - and every replacement - leave its loop)."""
    ctx.rule("R4", "a worker process's signal handler does not set an event the parent shares between workers: the value passed for that parameter at the Process(...) construction is created per worker, not one attribute of the parent given to every worker")
    repo = ctx.repo
    n = 0
    for c in repo.cls("BaseRunner").all_subclasses():
        for m in c.methods.values():
            for call in calls_in(m.node):
                if call_name(call) != "Process":
                    continue
                tgt = next((k.value for k in call.keywords if k.arg == "target"), None)
                kw = next((k.value for k in call.keywords if k.arg == "kwargs"), None)
                if not isinstance(tgt, ast.Name) or kw is None:
                    continue
                target = repo.resolve_name(m.module, tgt.id)
                if not isinstance(target, FuncInfo):
                    continue
                # the kwargs dictionary: literal or a local bound to a literal
                d = kw
                if isinstance(kw, ast.Name):
                    from .c01 import _reaching_values

                    vals = [v for v in _reaching_values(m, kw.id) if isinstance(v, ast.Dict)]
                    d = vals[0] if len(vals) == 1 else None
                if not isinstance(d, ast.Dict):
                    continue
                passed = {k.value: v for k, v in zip(d.keys, d.values) if isinstance(k, ast.Constant)}
                # parameters the worker's signal handlers call .set() on
                handlers = set()
                for x in ast.walk(target.node):
                    if isinstance(x, ast.Call) and call_name(x) == "signal" and len(x.args) == 2 and isinstance(x.args[1], ast.Name):
                        handlers.add(x.args[1].id)
                for h in [x for x in ast.walk(target.node) if isinstance(x, (ast.FunctionDef, ast.AsyncFunctionDef)) and x.name in handlers]:
                    for s_ in ast.walk(h):
                        if isinstance(s_, ast.Call) and isinstance(s_.func, ast.Attribute) and s_.func.attr == "set" and isinstance(s_.func.value, ast.Name) and s_.func.value.id in passed:
                            n += 1
                            v = passed[s_.func.value.id]
                            shared = self_attr(v) is not None and isinstance(v, ast.Attribute)
                            ctx.add("R4", f"{target.qualname}::{h.name}::sets-only-this-workers-event", not shared, target.loc(s_), "" if not shared else f"the handler sets `{s_.func.value.id}`, which {m.qualname} passes as `{ast.unparse(v)}` - ONE object for every worker: a single worker that is terminated makes all its siblings leave their loops, and every replacement is started with the event already set and exits at once; the pool never gets back to capacity")
    ctx.floor("R4", "events set from worker signal handlers", n, 1)


def run(ctx: Context) -> None:
    ctx.rule("R1", "for each runner that tracks child processes: runner_loop_iteration reaches (through self.* calls) a removal from the tracking table of entries whose process is not alive, and that removal precedes the spawn decision on every path of the iteration")
    ctx.rule("R2", "the spawn decision compares the size of the tracking table (after pruning) with the runner's configured capacity attribute")
    ctx.rule("R3", "get_active_child_runner_ids keeps only entries whose process is_alive(); _report_child_runner_heartbeats passes exactly that list; BaseRunner.run reports them on every loop iteration before the atomic-service check")
    repo = ctx.repo
    runners = process_runners(ctx)
    ctx.floor("R1", "runner classes tracking child processes", len(runners), 3)
    ctx.analysed["process_runner_classes"] = [c.name for c, _, _ in runners]
    for c, active, table in runners:
        loop = c.find_method("runner_loop_iteration")
        if loop is None or loop.is_abstract:
            raise AnalysisError(f"anchor-vanished: {c.name}.runner_loop_iteration")
        reach = intra_reach(c, loop)
        prunes = prune_sites(c, table)
        spawns = spawn_sites(c, table)
        reach_prunes = [(m, n) for m, n in prunes if m.name in reach]
        ok = bool(reach_prunes)
        unreachable = sorted({m.name for m, _ in prunes if m.name not in reach})
        ctx.add("R1", f"{c.qualname}::loop-reaches-dead-worker-prune", ok, loop.loc(),
                "" if ok else (f"runner_loop_iteration never removes dead workers from self.{table}: " + (f"the helper(s) {unreachable} that do are not reachable from the loop" if unreachable else "no such removal exists") + "; dead workers keep counting as tracked and are not replaced"))
        reach_spawns = [(m, n) for m, n in spawns if m.name in reach]
        ok_s = bool(reach_spawns)
        ctx.add("R1", f"{c.qualname}::loop-reaches-spawn", ok_s, loop.loc(), "" if ok_s else f"runner_loop_iteration never spawns a worker into self.{table}")
        # ordering inside the iteration
        if reach_prunes and reach_spawns:
            g = func_cfg(repo, loop)
            pm = parent_map(loop.node)
            dom = g.dominators(exc_edges=False)
            def region_entry(n):
                # the removal / spawn may sit in a loop over the (possibly empty) list of dead ids:
                # what must precede is the whole top-level statement of the iteration containing it
                top = n
                for st in loop.node.body:
                    if any(x is n for x in ast.walk(st)):
                        top = st
                ids = [nd.id for x in ast.walk(top) for nd in g.nodes_for(x)]
                return [g.nodes[min(ids)]] if ids else []

            pn = []
            for m, n in reach_prunes:
                pn.extend(region_entry(n) if m is loop else first_step_nodes(repo, c, loop, m, g, pm))
            sn = []
            for m, n in reach_spawns:
                sn.extend(cfg_node_of(g, loop.node, n, pm) if m is loop else first_step_nodes(repo, c, loop, m, g, pm))
            ok = bool(pn) and bool(sn) and all(any(p.id in dom.get(s.id, set()) and p.id != s.id for p in pn) for s in sn)
            ctx.add("R1", f"{c.qualname}::prune-before-spawn", ok, loop.loc(), "" if ok else "the spawn decision can be taken before dead workers were removed from the tracking table (the tracked count still includes them)")
            # the statement that computes the tracked count (in the loop function itself) comes after the prune
            counts = [x for x in walk_no_nested(loop.node) if isinstance(x, ast.Call) and call_name(x) == "len" and x.args and self_attr(x.args[0]) == table]
            for cnt in counts:
                cn = cfg_node_of(g, loop.node, cnt, pm)
                okc = all(any(p.id in dom.get(n_.id, set()) and p.id != n_.id for p in pn) for n_ in cn)
                # a count inside the prune region itself (e.g. logging how many are dead) is not the decision
                in_prune = any(any(x is cnt for x in ast.walk(st)) for m2, pr in reach_prunes if m2 is loop for st in loop.node.body if any(y is pr for y in ast.walk(st)))
                if in_prune:
                    continue
                ctx.add("R1", f"{c.qualname}::prune-before-count", okc, loop.loc(cnt), "" if okc else f"len(self.{table}) is read before dead workers are removed: the spawn decision uses a count that still includes them")
        # every dead worker is forgotten: the test that selects what to forget is exactly `not <proc>.is_alive()`; a further
        # conjunct (exit code, age, ...) keeps some dead workers in the table for ever and the pool is never refilled for them
        for mname in reach:
            m = c.find_method(mname)
            if m is None or not any(pm_ is m for pm_, _ in reach_prunes):
                continue
            conds = []
            for n in walk_no_nested(m.node):
                if isinstance(n, ast.comprehension):
                    conds += [x for x in n.ifs if "is_alive()" in ast.unparse(x)]
                elif isinstance(n, (ast.If, ast.IfExp)) and "is_alive()" in ast.unparse(n.test):
                    conds.append(n.test)
            for cond in conds:
                core = cond.operand if isinstance(cond, ast.UnaryOp) and isinstance(cond.op, ast.Not) else cond
                exact = isinstance(core, ast.Call) and call_name(core) == "is_alive"
                ctx.add("R1", f"{c.qualname}::{m.name}::every-dead-worker-is-selected", exact, m.loc(cond), "" if exact else f"the liveness test `{ast.unparse(cond)[:70]}` carries a further condition: workers that are dead but do not meet it (e.g. exit code 0 after SIGTERM) stay in the tracking table, are counted as capacity and are never replaced")
        # R2: capacity comparison
        found = False
        detail = "no comparison of the tracked count with a capacity attribute on the way to the spawn"
        for mname in reach:
            m = c.find_method(mname)
            if m is None:
                continue
            count_names = set()
            for n in walk_no_nested(m.node):
                if isinstance(n, ast.Assign) and isinstance(n.value, ast.Call) and call_name(n.value) == "len" and n.value.args and self_attr(n.value.args[0]) == table:
                    count_names |= {t.id for t in n.targets if isinstance(t, ast.Name)}
            for n in walk_no_nested(m.node):
                if isinstance(n, (ast.Compare, ast.BinOp)):
                    txt = ast.unparse(n)
                    has_count = f"len(self.{table})" in txt or bool(names_in(n) & count_names)
                    has_cap = any(f"self.{a}" in txt for a in CAPACITY_ATTRS)
                    if has_count and has_cap:
                        found = True
        ctx.add("R2", f"{c.qualname}::capacity-comparison", found, loop.loc(), "" if found else detail)
        # the size the pool is STARTED with is the capacity the loop refills to: a start loop over a local that was
        # computed from the capacity attribute (max(floor, self.<cap>), self.<cap> + 1, ...) starts a pool the refill
        # never restores once workers die
        st_m = c.find_method("_on_start")
        if st_m is not None:
            for lp in [n for n in walk_no_nested(st_m.node) if isinstance(n, ast.For) and isinstance(n.iter, ast.Call) and call_name(n.iter) == "range" and len(n.iter.args) == 1 and any("spawn" in (call_name(x) or "") for x in calls_in(n))]:
                e = lp.iter.args[0]
                caps = [a for a in CAPACITY_ATTRS if any(isinstance(x, ast.Attribute) and x.attr == a and isinstance(x.value, ast.Name) and x.value.id == "self" for x in ast.walk(e))]
                okS, whyS = True, ""
                if isinstance(e, ast.Name):
                    dvals = [n.value for n in walk_no_nested(st_m.node) if isinstance(n, ast.Assign) and any(isinstance(t, ast.Name) and t.id == e.id for t in n.targets)]
                    for dv in dvals:
                        mentioned = [a for a in CAPACITY_ATTRS if any(isinstance(x, ast.Attribute) and x.attr == a and isinstance(x.value, ast.Name) and x.value.id == "self" for x in ast.walk(dv))]
                        if mentioned:
                            okS, whyS = False, f"the pool is started with `{e.id} = {ast.unparse(dv)[:60]}` workers but refilled to self.{mentioned[0]}: after worker deaths it stays below the size it was started with"
                elif caps and not (isinstance(e, ast.Attribute) and e.attr in CAPACITY_ATTRS):
                    okS, whyS = False, f"the pool is started with `{ast.unparse(e)[:60]}` workers, an expression over self.{caps[0]}, but refilled to self.{caps[0]}"
                ctx.add("R2", f"{c.qualname}::start-size-is-the-refill-capacity", okS, st_m.loc(lp), whyS)
        # a capacity option whose raw value has a sentinel ("0 = number of CPUs") is resolved once
        # (`self.A = ... self.conf.B or <fallback> ...`); pool-size decisions must use the resolved value
        resolved: dict[str, tuple[str, ast.AST]] = {}
        for m in c.all_methods() if hasattr(c, "all_methods") else c.methods.values():
            for n in walk_no_nested(m.node):
                if isinstance(n, ast.Assign) and len(n.targets) == 1 and self_attr(n.targets[0]) and isinstance(n.targets[0], ast.Attribute):
                    for b in ast.walk(n.value):
                        if isinstance(b, ast.BoolOp) and isinstance(b.op, ast.Or) and isinstance(b.values[0], ast.Attribute) and isinstance(b.values[0].value, ast.Attribute) and b.values[0].value.attr == "conf" and isinstance(b.values[0].value.value, ast.Name) and b.values[0].value.value.id == "self":
                            resolved[b.values[0].attr] = (n.targets[0].attr, n)
        for raw, (res, assign) in sorted(resolved.items()):
            bad = None
            for mname in reach:
                m = c.find_method(mname)
                if m is None:
                    continue
                for n in walk_no_nested(m.node):
                    if isinstance(n, (ast.Compare, ast.BinOp)) and not any(x is n for x in ast.walk(assign)):
                        for a in ast.walk(n):
                            if isinstance(a, ast.Attribute) and a.attr == raw and isinstance(a.value, ast.Attribute) and a.value.attr == "conf":
                                bad = (m, n)
            ctx.add("R2", f"{c.qualname}::pool-decisions-use-resolved-{res}", bad is None, bad[0].loc(bad[1]) if bad else loop.loc(), "" if bad is None else f"`{ast.unparse(bad[1])[:90]}` uses the raw option self.conf.{raw} (0 means 'number of CPUs') instead of the resolved self.{res}: with the default configuration the pool is never refilled after workers die")
        # R3
        txt = ast.unparse(active.node)
        pos = False
        for n in walk_no_nested(active.node):
            if isinstance(n, ast.comprehension):
                for cond in n.ifs:
                    if "is_alive()" in ast.unparse(cond) and not (isinstance(cond, ast.UnaryOp) and isinstance(cond.op, ast.Not)):
                        pos = True
            if isinstance(n, ast.If) and "is_alive()" in ast.unparse(n.test) and not (isinstance(n.test, ast.UnaryOp) and isinstance(n.test.op, ast.Not)):
                pos = True
        ctx.add("R3", f"{active.qualname}::alive-only", pos, active.loc(), "" if pos else "the list of active children is not filtered by process.is_alive(): heartbeats would be reported for dead workers and their invocations never recovered")
    # base runner
    base = repo.cls("BaseRunner")
    runf = base.methods.get("run")
    if runf is None:
        raise AnalysisError("anchor-vanished: BaseRunner.run")
    # the report may live in a helper of its own or (single-use helpers are inlined by the loader) in run() itself
    rep = base.methods.get("_report_child_runner_heartbeats") or runf
    src = set()
    for n in walk_no_nested(rep.node):
        if isinstance(n, ast.NamedExpr) and isinstance(n.value, ast.Call) and call_name(n.value) == "get_active_child_runner_ids":
            src.add(n.target.id)
        if isinstance(n, ast.Assign) and isinstance(n.value, ast.Call) and call_name(n.value) == "get_active_child_runner_ids":
            src |= {t.id for t in n.targets if isinstance(t, ast.Name)}
    regs = [x for x in calls_in(rep.node) if call_name(x) == "register_runner_heartbeats" and x.args and ((isinstance(x.args[0], ast.Name) and x.args[0].id in src) or (isinstance(x.args[0], ast.Call) and call_name(x.args[0]) == "get_active_child_runner_ids"))]
    others = [x for x in calls_in(rep.node) if call_name(x) == "register_runner_heartbeats" and x not in regs and rep is not runf]
    ok = len(regs) == 1 and not others
    ctx.add("R3", f"{base.qualname}::reports-exactly-the-alive-list", bool(ok), rep.loc(regs[0]) if regs else rep.loc(), "" if ok else "register_runner_heartbeats is not given exactly get_active_child_runner_ids()")
    # inside the report, the write depends on nothing but "there are live children": every other condition on the path
    # to it (elapsed time, a remembered set of already reported ids) lets a live child's stored heartbeat age
    if regs and rep is not runf:
        from ..flow import conditions_at

        conds = conditions_at(func_cfg(repo, rep), rep.node, regs[0], parent_map(rep.node))
        extra = [c_ for c_ in conds if not (names_in(c_) and names_in(c_) <= src) and not any(isinstance(x, ast.Call) and call_name(x) == "get_active_child_runner_ids" for x in ast.walk(c_))]
        ctx.add("R3", f"{rep.qualname}::write-depends-only-on-live-children", not extra, rep.loc(regs[0]), "" if not extra else f"the heartbeat write is reached only when `{ast.unparse(extra[0])[:70]}`: between two writes the stored heartbeat of a live worker ages - with a period close to the dead-runner timeout a recovery scan in that gap takes the worker's RUNNING invocations")
    loops = [n for n in walk_no_nested(runf.node) if isinstance(n, ast.While)]
    ok = False
    for l in loops:
        body = l.body
        while len(body) == 1 and isinstance(body[0], ast.Try):
            body = body[0].body

        def idx(pred):
            for k_, st in enumerate(body):
                if any(pred(x) for x in ast.walk(st)):
                    return k_, st
            return None, None

        def is_report(x):
            return (isinstance(x, ast.Call) and call_name(x) == "_report_child_runner_heartbeats") or any(x is r for r in regs)

        i_, st_i = idx(is_report)
        j_, _ = idx(lambda x: isinstance(x, ast.Call) and call_name(x) == "runner_loop_iteration")
        k_, _ = idx(lambda x: isinstance(x, ast.Call) and call_name(x) in ("_check_atomic_services", "should_run_atomic_service"))
        if i_ is None or j_ is None:
            continue
        # unconditional apart from "there are children": a bare call, or `if <ids from get_active_child_runner_ids>: register(...)`
        plain = (isinstance(st_i, ast.Expr)) or (isinstance(st_i, ast.If) and not st_i.orelse and any(isinstance(x, ast.Call) and call_name(x) == "get_active_child_runner_ids" for x in ast.walk(st_i.test)) or (isinstance(st_i, ast.If) and isinstance(st_i.test, ast.Name) and st_i.test.id in src))
        ok = plain and i_ < j_ and (k_ is None or i_ < k_)
    ctx.add("R3", f"{runf.qualname}::heartbeats-every-iteration", ok, runf.loc(), "" if ok else "the run loop does not unconditionally report child heartbeats at the start of every iteration (before the atomic services / recovery)")
    r4_worker_signals(ctx)
    ctx.exhaustive = True
    ctx.not_decided += [
        "sequences of worker deaths over several iterations and the timing 'within the next loop iterations' (needs controllable stand-in processes)",
    ]
    ctx.assumptions += ["multiprocessing.Process.is_alive() reflects OS-level liveness"]
