"""Entry point: ``python -m sa.run C01 --tier quick [--root DIR] [--explain replay.json]``.

Exit 0: every rule instance held (or is a listed known finding).
Exit 1: at least one ``VIOLATION property=<id> replay=<path>`` line.
Exit 2: ``ANALYSIS-ERROR`` (the analysis could not be carried out; never a silent pass).
"""

from __future__ import annotations

import argparse
import importlib
import json
import os
import sys
import traceback

from .loader import AnalysisError, Repo
from .report import Context, finish


def main(argv: list[str] | None = None) -> int:
    ap = argparse.ArgumentParser()
    ap.add_argument("prop")
    ap.add_argument("--tier", default=os.environ.get("VERIF_TIER", "quick"), choices=["quick", "thorough"])
    ap.add_argument("--root", default=None)
    ap.add_argument("--explain", default=None, help="replay file: re-run and print that instance")
    ap.add_argument("--no-selftest", action="store_true")
    args = ap.parse_args(argv)
    prop = args.prop.upper()
    try:
        seed = int(os.environ.get("VERIF_SEED", "0"))
    except ValueError:
        seed = 0
    try:
        mod = importlib.import_module(f"sa.checks.{prop.lower()}")
    except ModuleNotFoundError:
        print(f"ANALYSIS-ERROR no check module for {prop}")
        return 2
    try:
        repo = Repo(args.root)
        ctx = Context(prop, repo, args.tier, seed)
        mod.run(ctx)
        if args.tier == "thorough" and not args.no_selftest and args.root is None:
            from .selftest import run_selftest

            run_selftest(ctx, mod)
        if args.explain:
            want = json.loads(open(args.explain).read())
            hits = [i for i in ctx.instances if i.key == want.get("key")]
            if not hits:
                print(f"instance {want.get('key')} no longer produced by the analysis (holds or construct gone)")
            for i in hits:
                print(json.dumps(i.as_dict(), indent=1))
            os.environ["SA_NO_EVIDENCE"] = "1"
        return finish(ctx)
    except AnalysisError as e:
        print(f"ANALYSIS-ERROR {prop}: {e}")
        return 2
    except Exception:  # fail closed, never exit 1 on a crash of the analysis
        print(f"ANALYSIS-ERROR {prop}: internal error")
        traceback.print_exc()
        return 2


if __name__ == "__main__":
    sys.exit(main())
