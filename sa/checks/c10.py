"""C10 - the recorded history of an invocation is exactly its sequence of status changes.

R1 every successful transition is followed, on every normal path, by exactly one history write
   carrying the record returned by the transition; no history write after a failed transition
R2 nothing else writes history (who-may-call / who-may-write)
R3 attribution: history entry, writer-thread arguments and thread registry use the same invocation id;
   the runner id stored is the requester's
R4 flushable: writer thread registered before start(); the flush joins every registered thread
R5 the stores keep distinct entries distinct and return them ordered by entry time (both backends)
"""

from __future__ import annotations

import ast
import re

from .. import sqlmini
from ..flow import (assigned_from, call_name, calls_in, cfg_node_of, derived_names, func_cfg,
                    mem_store_writes, names_in, parent_map, self_attr)
from ..loader import AnalysisError, FuncInfo, walk_no_nested
from ..report import Context
from . import c01

PROPERTY = "C10"
TECHNIQUE = "static analysis: must-pass-through / dominance on the CFG, def-use of the transition's return value, who-may-call and who-may-write tables, sibling SQL/Python ordering keys"


def _kwargs(call: ast.Call, params: list[str]) -> dict[str, ast.AST]:
    out = {}
    for i, a in enumerate(call.args):
        if i < len(params):
            out[params[i]] = a
    for k in call.keywords:
        if k.arg:
            out[k.arg] = k.value
    return out


def r1(ctx: Context) -> None:
    ctx.rule("R1", "set_invocation_status / register_new_invocations: on every normal path after the (atomic) transition exactly one add_history / add_histories call, reachable only through the transition's normal exit, whose record argument is the transition's return value and whose id / invocations argument is the transition's")
    repo = ctx.repo
    base = repo.cls("BaseOrchestrator")
    specs = [
        ("set_invocation_status", "_atomic_status_transition", "add_history"),
        ("register_new_invocations", "_register_new_invocations", "add_histories"),
    ]
    for fn, trans, hist in specs:
        f = base.methods.get(fn)
        if f is None:
            raise AnalysisError(f"anchor-vanished: BaseOrchestrator.{fn}")
        tcalls = [c for c in calls_in(f.node) if call_name(c) == trans]
        hcalls = [c for c in calls_in(f.node) if call_name(c) in ("add_history", "add_histories")]
        if len(tcalls) != 1:
            ctx.fail("R1", f"{f.qualname}::one-transition-call", f.loc(), f"{len(tcalls)} calls of {trans}")
            continue
        ok = len(hcalls) == 1 and call_name(hcalls[0]) == hist
        ctx.add("R1", f"{f.qualname}::exactly-one-history-call", ok, f.loc(), "" if ok else f"{len(hcalls)} history calls ({[call_name(c) for c in hcalls]}) after one transition")
        if not hcalls:
            continue
        g = func_cfg(repo, f)
        pm = parent_map(f.node)
        tn = {n.id for n in cfg_node_of(g, f.node, tcalls[0], pm)}
        reach = c01._reachable_without_normal_exit(g, tn)
        dom = g.dominators(exc_edges=False)
        for h in hcalls:
            hn = cfg_node_of(g, f.node, h, pm)
            ok = all(n.id not in reach for n in hn)
            ctx.add("R1", f"{f.qualname}::history-only-after-success", ok, f.loc(h), "" if ok else "the history write is reachable on a path where the transition did not succeed (handler / finally / before the transition)")
            ok = all(n.id in dom.get(g.exit, set()) for n in hn) and all(not any(k == "loop" for k, _ in n.ctx) for n in hn)
            ctx.add("R1", f"{f.qualname}::history-on-every-normal-path", ok, f.loc(h), "" if ok else "some normal path from the transition to the exit skips the history write (or repeats it in a loop)")
            # def-use of the record
            tres = assigned_from(f.node, lambda v: any(c is tcalls[0] for c in ast.walk(v)))
            hp = repo.cls("BaseStateBackend").methods.get(call_name(h))
            hparams = hp.params[1:] if hp else []
            kw = _kwargs(h, hparams)
            rec = kw.get(hparams[1]) if len(hparams) > 1 else None  # (subject, record, requester context) by position
            ok = isinstance(rec, ast.Name) and rec.id in tres
            ctx.add("R1", f"{f.qualname}::history-record-is-transition-result", ok, f.loc(h), "" if ok else f"the record passed to the history is {ast.unparse(rec) if rec is not None else None}, not the value returned by {trans}")
            # same subject
            first_h = h.args[0] if h.args else None
            first_t = tcalls[0].args[0] if tcalls[0].args else None
            ok = first_h is not None and first_t is not None and ast.unparse(first_h) == ast.unparse(first_t)
            ctx.add("R1", f"{f.qualname}::history-for-the-transitioned-invocation", ok, f.loc(h), "" if ok else f"history is written for {ast.unparse(first_h) if first_h else None}, the transition was on {ast.unparse(first_t) if first_t else None}")
            # the requester context
            rc = kw.get(hparams[2]) if len(hparams) > 2 else None
            ok = isinstance(rc, ast.Name)
            if fn == "set_invocation_status":
                ok = isinstance(rc, ast.Name) and rc.id in f.params
                # and the same context supplies the runner id of the transition
                t3 = tcalls[0].args[2] if len(tcalls[0].args) > 2 else None
                ok = ok and t3 is not None and ast.unparse(t3) == f"{rc.id}.runner_id"
            else:
                # registration: the context whose runner_id was given to the transition
                t2 = tcalls[0].args[1] if len(tcalls[0].args) > 1 else None
                src = set()
                if isinstance(t2, ast.Name):
                    for v in c01._reaching_values(f, t2.id):
                        src |= names_in(v)
                ok = isinstance(rc, ast.Name) and rc.id in src
            ctx.add("R1", f"{f.qualname}::history-names-the-requesting-runner", ok, f.loc(h), "" if ok else "the runner context stored with the history is not the one whose runner_id performed the transition")


def r2(ctx: Context, sites) -> None:
    ctx.rule("R2", "add_history is called only by set_invocation_status, add_histories only by register_new_invocations, _add_histories only as the writer-thread target inside them; the history stores are written only by _add_histories and purge")
    repo = ctx.repo
    allowed = {"add_history": {"set_invocation_status"}, "add_histories": {"register_new_invocations"}, "_add_histories": {"add_history", "add_histories"}}
    n = 0
    for f in repo.all_functions():
        for node in walk_no_nested(f.node):
            nm = None
            if isinstance(node, ast.Call) and isinstance(node.func, ast.Attribute) and node.func.attr in allowed:
                nm = node.func.attr
            elif isinstance(node, ast.Attribute) and node.attr == "_add_histories" and isinstance(node.ctx, ast.Load):
                nm = "_add_histories"
            if nm is None:
                continue
            if isinstance(node, ast.Call) and nm == "_add_histories":
                continue  # counted through its Attribute node
            n += 1
            owner = f
            while owner.parent_func is not None:  # a local writer closure counts as its enclosing method
                owner = owner.parent_func
            ok = owner.name in allowed[nm] and (owner.cls is not None)
            ctx.add("R2", f"caller::{nm}::{owner.qualname}", ok, f.loc(node), "" if ok else f"{nm} is used from {f.qualname}: a history entry without a status change (or a duplicate)")
    ctx.floor("R2", "history call sites", n, 4)
    sb = repo.cls("BaseStateBackend")
    for c in sb.all_subclasses():
        for m in c.methods.values():
            for w in mem_store_writes(m.node, {"_history"}):
                ok = m.name in ("_add_histories", "purge", "__init__")
                ctx.add("R2", f"history-store-writer::{m.qualname}", ok, m.loc(w.node), "" if ok else "the in-memory history store is mutated outside _add_histories / purge")
    for s in sites:
        tt = sqlmini.target_table(s.template)
        if tt and tt.endswith(".HISTORY") and s.func.cls is not None and s.func.cls.is_subclass_of(sb):
            ok = s.func.name in ("_add_histories",) and s.verb.startswith("INSERT")
            ctx.add("R2", f"history-table-writer::{s.func.qualname}::{s.verb}", ok, s.where, "" if ok else "the history table is written outside _add_histories")


def r3_r4(ctx: Context, sites) -> None:
    ctx.rule("R3", "inside add_history / add_histories the InvocationHistory.invocation_id, the id list given to the writer thread and the key of invocation_threads are the same invocation; status_record and runner_context_id come from the parameters; the store writes the given history under the given id")
    ctx.rule("R4", "the writer thread is appended to invocation_threads[id] before start(); wait_for_all_async_operations joins every registered thread without a timeout")
    repo = ctx.repo
    sb = repo.cls("BaseStateBackend")
    for fn in ("add_history", "add_histories"):
        f = sb.methods.get(fn)
        if f is None:
            raise AnalysisError(f"anchor-vanished: BaseStateBackend.{fn}")
        ctor = [c for c in calls_in(f.node) if call_name(c) == "InvocationHistory"]
        thr = [c for c in calls_in(f.node) if call_name(c) == "Thread"]
        if len(ctor) != 1 or len(thr) != 1:
            ctx.fail("R3", f"{f.qualname}::shape", f.loc(), f"{len(ctor)} InvocationHistory constructions, {len(thr)} Thread constructions")
            continue
        kw = {k.arg: k.value for k in ctor[0].keywords}
        idexpr = kw.get("invocation_id") or (ctor[0].args[0] if ctor[0].args else None)
        idtxt = ast.unparse(idexpr) if idexpr is not None else None
        if fn == "add_history":
            ok = idtxt == f.params[1]
        else:
            loops = [n for n in walk_no_nested(f.node) if isinstance(n, ast.For) and isinstance(n.iter, ast.Name) and n.iter.id == f.params[1]]
            ok = bool(loops) and isinstance(loops[0].target, ast.Name) and idtxt == f"{loops[0].target.id}.invocation_id" and any(x is ctor[0] for x in ast.walk(loops[0]))
        ctx.add("R3", f"{f.qualname}::entry-id", ok, f.loc(ctor[0]), "" if ok else f"InvocationHistory.invocation_id = {idtxt}")
        sr = kw.get("status_record")
        ok = isinstance(sr, ast.Name) and len(f.params) > 2 and sr.id == f.params[2]  # the record parameter (self, subject, record, context)
        ctx.add("R3", f"{f.qualname}::entry-record", ok, f.loc(ctor[0]), "" if ok else f"status_record = {ast.unparse(sr) if sr is not None else None}")
        rc = kw.get("runner_context_id")
        ok = rc is not None and len(f.params) > 3 and ast.unparse(rc) == f"{f.params[3]}.runner_id"
        ctx.add("R3", f"{f.qualname}::entry-runner", ok, f.loc(ctor[0]), "" if ok else f"runner_context_id = {ast.unparse(rc) if rc is not None else None}")
        # thread target / args
        tk = {k.arg: k.value for k in thr[0].keywords}
        tgt = tk.get("target")
        hist_names = assigned_from(f.node, lambda v: v is ctor[0])

        def good_args(elts) -> bool:
            return len(elts) == 2 and isinstance(elts[0], ast.List) and len(elts[0].elts) == 1 and ast.unparse(elts[0].elts[0]) == idtxt and isinstance(elts[1], ast.Name) and elts[1].id in hist_names

        closure = None
        if isinstance(tgt, ast.Name):
            closure = next((n for n in ast.walk(f.node) if isinstance(n, (ast.FunctionDef, ast.AsyncFunctionDef)) and n is not f.node and n.name == tgt.id), None)
        elif isinstance(tgt, ast.Lambda):
            closure = tgt
        if closure is None:
            ok = tgt is not None and ast.unparse(tgt) == "self._add_histories"
            ctx.add("R3", f"{f.qualname}::writer-target", ok, f.loc(thr[0]), "" if ok else f"target = {ast.unparse(tgt) if tgt is not None else None}")
            args = tk.get("args")
            ok = isinstance(args, ast.Tuple) and good_args(args.elts)
            ctx.add("R3", f"{f.qualname}::writer-args", ok, f.loc(thr[0]), "" if ok else f"args = {ast.unparse(args) if args is not None else None}: not ([the entry's invocation id], the entry)")
        else:
            # the writer is a local closure: it must call self._add_histories([id], entry) and must not
            # capture a name that is rebound before the thread may run (closure defined inside a loop
            # that rebinds what it captures: late binding)
            inner = [c for c in ast.walk(closure) if isinstance(c, ast.Call) and call_name(c) == "_add_histories"]
            ok = len(inner) == 1 and isinstance(inner[0].func, ast.Attribute) and isinstance(inner[0].func.value, ast.Name) and inner[0].func.value.id == "self"
            ctx.add("R3", f"{f.qualname}::writer-target", ok, f.loc(thr[0]), "" if ok else "the writer closure does not call self._add_histories exactly once")
            ok = bool(inner) and good_args(inner[0].args) and not tk.get("args")
            ctx.add("R3", f"{f.qualname}::writer-args", ok, f.loc(thr[0]), "" if ok else "the writer closure does not pass ([the entry's invocation id], the entry)")
            own = {a.arg for a in ast.walk(closure.args) if isinstance(a, ast.arg)} | {n.id for n in ast.walk(closure) if isinstance(n, ast.Name) and isinstance(n.ctx, ast.Store)}
            captured = {n.id for n in ast.walk(closure) if isinstance(n, ast.Name) and isinstance(n.ctx, ast.Load)} - own - {"self"}
            pm_ = {id(ch): p for p in ast.walk(f.node) for ch in ast.iter_child_nodes(p)}
            loops_around = []
            cur = pm_.get(id(closure))
            while cur is not None and cur is not f.node:
                if isinstance(cur, (ast.For, ast.While, ast.AsyncFor)):
                    loops_around.append(cur)
                cur = pm_.get(id(cur))
            rebound = set()
            for lp in loops_around:
                for n in ast.walk(lp):
                    if isinstance(n, ast.Name) and isinstance(n.ctx, ast.Store) and not any(x is n for x in ast.walk(closure)):
                        rebound.add(n.id)
            hazard = sorted(captured & rebound)
            ctx.add("R3", f"{f.qualname}::writer-closure-captures-by-value", not hazard, f.loc(closure), "" if not hazard else f"the writer closure is defined inside a loop and captures {hazard}, which the next iteration rebinds: a writer thread scheduled late records the LAST invocation's entry for every invocation of the batch (entries missing for the others)")
        # registry + order
        tnames = assigned_from(f.node, lambda v: v is thr[0])
        regs = [c for c in calls_in(f.node) if call_name(c) == "append" and self_attr(c.func) == "invocation_threads"]
        starts = [c for c in calls_in(f.node) if call_name(c) == "start" and isinstance(c.func.value, ast.Name) and c.func.value.id in tnames]
        ok = len(regs) == 1 and isinstance(regs[0].func.value, ast.Subscript) and ast.unparse(regs[0].func.value.slice) == idtxt and len(regs[0].args) == 1 and isinstance(regs[0].args[0], ast.Name) and regs[0].args[0].id in tnames
        if not regs:
            # the registration may live in a helper handed (the entry's id, the thread): it must append its thread parameter
            # under its id parameter, in place
            for hc in calls_in(f.node):
                if not (isinstance(hc.func, ast.Attribute) and isinstance(hc.func.value, ast.Name) and hc.func.value.id == "self" and f.cls is not None):
                    continue
                h = f.cls.find_method(hc.func.attr)
                if h is None or len(hc.args) != 2 or len(h.params) != 3:
                    continue
                if ast.unparse(hc.args[0]) != idtxt or not (isinstance(hc.args[1], ast.Name) and hc.args[1].id in tnames):
                    continue
                happ = [c for c in calls_in(h.node) if call_name(c) == "append" and self_attr(c.func) == "invocation_threads"]
                ok = len(happ) == 1 and isinstance(happ[0].func.value, ast.Subscript) and ast.unparse(happ[0].func.value.slice) == h.params[1] and len(happ[0].args) == 1 and isinstance(happ[0].args[0], ast.Name) and happ[0].args[0].id == h.params[2]
                regs = [hc]
                break
        ctx.add("R4", f"{f.qualname}::thread-registered-under-id", ok, f.loc(), "" if ok else "the writer thread is not appended to invocation_threads[<the entry's invocation id>]")
        ok2 = len(starts) == 1
        ctx.add("R4", f"{f.qualname}::thread-started-once", ok2, f.loc(), "" if ok2 else f"{len(starts)} start() calls")
        if ok and ok2:
            g = func_cfg(repo, f)
            pm = parent_map(f.node)
            dom = g.dominators()
            rn = cfg_node_of(g, f.node, regs[0], pm)
            sn = cfg_node_of(g, f.node, starts[0], pm)
            okd = all(any(r.id in dom.get(s.id, set()) for r in rn) for s in sn)
            ctx.add("R4", f"{f.qualname}::registered-before-start", okd, f.loc(starts[0]), "" if okd else "start() is not dominated by the registration: a flush between start and registration misses the thread")
    # the registry is shared by every thread that records history: an entry list is only ever extended in place
    from ..flow import read_copy_write_sites

    n_rcw = 0
    for m in sb.methods.values():
        n_rcw += 1
        for node, attr, src in read_copy_write_sites(m.node):
            if attr == "invocation_threads":
                ctx.fail("R4", f"{m.qualname}::registry-extended-in-place", m.loc(node), f"`{ast.unparse(node)[:70]}` replaces the list of writer threads by one computed from a copy: a thread registered concurrently for the same invocation (another runner's status change) is dropped and the flush returns before its entry is stored")
    ctx.ok("R4", "BaseStateBackend::registry-extended-in-place::methods-scanned", sb.module.relpath, f"{n_rcw} methods")
    # flush
    w_all = sb.methods.get("wait_for_all_async_operations")
    w_one = sb.methods.get("wait_for_invocation_async_operations")
    if w_all is None or w_one is None:
        raise AnalysisError("anchor-vanished: wait_for_*_async_operations")
    loops = [n for n in walk_no_nested(w_all.node) if isinstance(n, ast.For) and self_attr(n.iter) == "invocation_threads"]
    ok = bool(loops) and any(call_name(c) == "wait_for_invocation_async_operations" for c in calls_in(loops[0])) if loops else False
    ctx.add("R4", f"{w_all.qualname}::iterates-all-invocations", ok, w_all.loc(), "" if ok else "the flush does not visit every key of invocation_threads")
    loops = [n for n in walk_no_nested(w_one.node) if isinstance(n, ast.For) and self_attr(n.iter) == "invocation_threads"]
    joins = [c for l in loops for c in calls_in(l) if call_name(c) == "join" and not c.args and not c.keywords]
    conds = [n for l in loops for n in ast.walk(l) if isinstance(n, (ast.If, ast.Break, ast.Continue))]
    ok = bool(joins) and not conds
    ctx.add("R4", f"{w_one.qualname}::joins-every-thread", ok, w_one.loc(), "" if ok else "not every registered writer thread is joined (conditional / timed join)")
    # stores
    for c in sb.all_subclasses():
        m = c.methods.get("_add_histories")
        if m is None:
            continue
        p_ids, p_hist = (m.params + ["?", "?", "?"])[1:3]
        loops = [n for n in walk_no_nested(m.node) if isinstance(n, ast.For) and isinstance(n.iter, ast.Name) and n.iter.id == p_ids]
        if not loops:
            ctx.fail("R3", f"{m.qualname}::writes-each-id", m.loc(), f"no loop over '{p_ids}'")
            continue
        lv = loops[0].target.id if isinstance(loops[0].target, ast.Name) else "?"
        ms = [w for w in mem_store_writes(m.node, {"_history"})]
        ss = [s for s in sites if s.func is m and s.verb.startswith("INSERT")]
        if ms:
            w = ms[0].node
            ok = isinstance(w, ast.Call) and call_name(w) == "append" and isinstance(w.func.value, ast.Subscript) and ast.unparse(w.func.value.slice) == lv and len(w.args) == 1 and ast.unparse(w.args[0]) == p_hist
            ctx.add("R3", f"{m.qualname}::stores-entry-under-id", ok, m.loc(w), "" if ok else f"{ast.unparse(w)[:70]}")
        elif ss:
            s = ss[0]
            cols = sqlmini.insert_columns(s.template)
            ps = sqlmini.param_exprs(s) or []
            cm = dict(zip(cols, ps))
            ok = "invocation_id" in cm and ast.unparse(cm["invocation_id"]) == lv
            ctx.add("R3", f"{m.qualname}::stores-entry-under-id", ok, s.where, "" if ok else f"invocation_id column bound to {ast.unparse(cm.get('invocation_id')) if cm.get('invocation_id') is not None else None}")
            js = [k for k in cols if "json" in k]
            ok = bool(js) and p_hist in names_in(cm[js[0]]) and "to_json" in ast.unparse(cm[js[0]])
            ctx.add("R3", f"{m.qualname}::stores-the-given-entry", ok, s.where, "" if ok else "the stored JSON is not the given history entry")
        else:
            ctx.fail("R3", f"{m.qualname}::no-store-write", m.loc(), "")


def r5(ctx: Context, sites) -> None:
    ctx.rule("R5", "distinct entries stay distinct (mem: list append; sqlite: primary key contains invocation id, entry timestamp and status) and are returned ordered by the entry timestamp ascending in both backends")
    repo = ctx.repo
    sb = repo.cls("BaseStateBackend")
    for c in sb.all_subclasses():
        add = c.methods.get("_add_histories")
        get = c.methods.get("_get_history")
        if add is None or get is None:
            continue
        ss = [s for s in sites if s.func is add and s.verb.startswith("INSERT")]
        if ss:
            tbl = sqlmini.target_table(ss[0].template) or ""
            attr = tbl.split(".")[-1]
            ddl = [s for s in sites if s.func.cls is c or (s.func.cls is None and s.func.module is c.module)]
            ddl = [s for s in ddl if s.verb.startswith("CREATE TABLE") and re.search(r"\{[^}]*\b" + re.escape(attr) + r"\}", s.template)]
            if not ddl:
                ctx.fail("R5", f"{c.qualname}::history-ddl", add.loc(), "CREATE TABLE of the history table not found")
            else:
                m = re.search(r"PRIMARY\s+KEY\s*\(([^)]*)\)", ddl[0].template, re.I)
                pk = {x.strip() for x in m.group(1).split(",")} if m else set()
                ok = {"invocation_id", "history_timestamp", "history_status"} <= pk
                ctx.add("R5", f"{c.qualname}::history-primary-key", ok, ddl[0].where, "" if ok else f"primary key {sorted(pk)}: two different changes of one invocation could overwrite each other")
                cols = sqlmini.insert_columns(ss[0].template)
                ps = sqlmini.param_exprs(ss[0]) or []
                cm = dict(zip(cols, ps))
                tsn = cm.get("history_timestamp")
                src = ""
                if isinstance(tsn, ast.Name):
                    src = " ".join(ast.unparse(v) for v in c01._reaching_values(add, tsn.id))
                elif tsn is not None:
                    src = ast.unparse(tsn)
                ok = "_timestamp" in src or ".timestamp" in src
                ctx.add("R5", f"{c.qualname}::history-timestamp-column", ok, ss[0].where, "" if ok else f"history_timestamp bound to {src}")
            sel = [s for s in sites if s.func is get and s.verb == "SELECT"]
            ob = sqlmini.order_by(sel[0].template) if sel else []
            ok = bool(ob) and ob[0] == ("history_timestamp", "ASC")
            ctx.add("R5", f"{get.qualname}::ordered-by-entry-time", ok, get.loc(), "" if ok else f"ORDER BY {ob}")
            conds = sqlmini.conditions(sqlmini.where_clause(sel[0].template)) if sel else []
            ok = any(cn.split(".")[-1] == "invocation_id" and op == "=" for cn, op, _ in conds)
            ctx.add("R5", f"{get.qualname}::filtered-by-id", ok, get.loc(), "" if ok else f"WHERE {conds}")
        else:
            srt = [cc for cc in calls_in(get.node) if call_name(cc) == "sorted"]
            ok = False
            if srt:
                kw = {k.arg: k.value for k in srt[0].keywords}
                key = kw.get("key")
                rev = kw.get("reverse")
                ok = isinstance(key, ast.Lambda) and ast.unparse(key.body).endswith(".timestamp") and (rev is None or (isinstance(rev, ast.Constant) and rev.value is False))
                ok = ok and self_attr(srt[0].args[0]) == "_history" and get.params[1] in names_in(srt[0].args[0])
            ctx.add("R5", f"{get.qualname}::ordered-by-entry-time", ok, get.loc(), "" if ok else "the in-memory history is not returned sorted by entry timestamp ascending for the requested id")
            init = c.methods.get("__init__")
            isl = False
            if init:
                for n in walk_no_nested(init.node):
                    if isinstance(n, (ast.Assign, ast.AnnAssign)):
                        tg = n.targets[0] if isinstance(n, ast.Assign) else n.target
                        if isinstance(tg, ast.Attribute) and tg.attr == "_history" and n.value is not None and ast.unparse(n.value).replace(" ", "") == "defaultdict(list)":
                            isl = True
            ctx.add("R5", f"{c.qualname}::history-is-a-list-per-id", isl, c.module.relpath, "" if isl else "self._history is not a defaultdict(list)")


def run(ctx: Context) -> None:
    sites = sqlmini.sites(ctx.repo)
    r1(ctx)
    r2(ctx, sites)
    r3_r4(ctx, sites)
    r5(ctx, sites)
    # what R1 hands to the history is what the atomic transition RETURNS: both backends must return the record they validated and
    # wrote inside the critical section, not a later read of the store (shared with C01/R3)
    ctx.rule("R6", "the record returned by each backend's atomic transition is the record it validated and wrote (not a re-read after the commit, which may already be another runner's change) - shared with C01/R3")
    sub = Context("C01", ctx.repo, ctx.tier, ctx.seed)
    sub._resolver = ctx._resolver
    c01.r3_validate_dominates_write(sub)
    n6 = 0
    for i in sub.instances:
        k = i.key.split("/", 2)[2]
        if k.endswith("::returns-validated-record"):
            n6 += 1
            ctx.add("R6", k, i.ok, i.where, i.detail)
    ctx.floor("R6", "transition implementations", n6, 2)
    ctx.exhaustive = True
    ctx.not_decided += [
        "ordering of entries under interleavings: entries are ordered by the creation time of the history object (taken right after the transition by the same thread), not by the status record's own timestamp - two transitions of one invocation by different runners could be recorded in swapped order; needs a schedule explorer",
        "lateness of writer threads beyond 'registered before start and joined by the flush'",
    ]
    ctx.assumptions += ["transitions are atomic (C02), so one successful transition = one returned record"]
