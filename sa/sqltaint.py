"""Abstract classification of the TEXT of SQL statements (not the bound parameters).

Lattice: CONST | TABLE_IDENT | PLACEHOLDERS | MASTER_NAME | INT  (all safe)  <  TAINTED.
Closed under f-strings, ``+``, ``str.join`` of safe pieces, conditional expressions, lists
assembled with ``append`` / ``extend`` and reaching definitions of locals.
"""

from __future__ import annotations

import ast
from dataclasses import dataclass

from .flow import call_name
from .loader import ClassInfo, FuncInfo, Repo, walk_no_nested
from .resolve import Resolver

SAFE = ("CONST", "TABLE_IDENT", "PLACEHOLDERS", "MASTER_NAME", "INT")


@dataclass
class Cls:
    kind: str  # one of SAFE or TAINTED
    why: str = ""
    parts: tuple = ()

    @property
    def safe(self) -> bool:
        return self.kind != "TAINTED"


def join(*cs: Cls) -> Cls:
    kinds = []
    for c in cs:
        if not c.safe:
            return c
        kinds.append(c.kind)
    if not kinds:
        return Cls("CONST")
    for k in ("MASTER_NAME", "TABLE_IDENT", "PLACEHOLDERS", "INT", "CONST"):
        if k in kinds:
            return Cls(k, parts=tuple(sorted(set(kinds))))
    return Cls("CONST")


class SqlText:
    def __init__(self, repo: Repo, rs: Resolver) -> None:
        self.repo = repo
        self.rs = rs
        self.table_base = repo.cls("TableNames")
        self._stack: set = set()

    def table_attr(self, f: FuncInfo, node: ast.Attribute) -> bool:
        """node is <expr>.<ATTR> where <expr> is typed as a TableNames subclass."""
        t = self.rs.expr(f, node.value)
        return any(c.is_subclass_of(self.table_base) for c in t.classes)

    def classify(self, f: FuncInfo, node: ast.AST, depth: int = 0) -> Cls:
        if depth > 10:
            return Cls("TAINTED", "analysis depth exceeded")
        if isinstance(node, ast.Constant):
            if isinstance(node.value, str):
                return Cls("PLACEHOLDERS" if node.value.strip() == "?" else "CONST")
            if isinstance(node.value, int):
                return Cls("INT")
            return Cls("TAINTED", f"constant of type {type(node.value).__name__}")
        if isinstance(node, ast.JoinedStr):
            parts = []
            for v in node.values:
                if isinstance(v, ast.Constant):
                    parts.append(Cls("CONST"))
                elif isinstance(v, ast.FormattedValue):
                    parts.append(self.classify(f, v.value, depth + 1))
            return join(*parts)
        if isinstance(node, ast.Attribute):
            if self.table_attr(f, node):
                return Cls("TABLE_IDENT")
            return Cls("TAINTED", f"attribute {ast.unparse(node)} is not a table-name attribute of a TableNames object")
        if isinstance(node, ast.BinOp) and isinstance(node.op, ast.Add):
            return join(self.classify(f, node.left, depth + 1), self.classify(f, node.right, depth + 1))
        if isinstance(node, ast.BinOp) and isinstance(node.op, ast.Mult):
            # '?' * n / ['?'] * n
            l = self.classify(f, node.left, depth + 1)
            return l if l.safe else Cls("TAINTED", "repetition of unsafe text")
        if isinstance(node, ast.IfExp):
            return join(self.classify(f, node.body, depth + 1), self.classify(f, node.orelse, depth + 1))
        if isinstance(node, (ast.List, ast.Tuple)):
            return join(*[self.classify(f, e, depth + 1) for e in node.elts])
        if isinstance(node, (ast.ListComp, ast.GeneratorExp)):
            return self.classify(f, node.elt, depth + 1)
        if isinstance(node, ast.Call):
            nm = call_name(node)
            if nm == "join" and isinstance(node.func, ast.Attribute) and node.args:
                return join(self.classify(f, node.func.value, depth + 1), self.classify(f, node.args[0], depth + 1))
            if nm in ("strip", "lstrip", "rstrip", "upper", "lower") and isinstance(node.func, ast.Attribute):
                return self.classify(f, node.func.value, depth + 1)
            return Cls("TAINTED", f"result of call {ast.unparse(node)[:50]}")
        if isinstance(node, ast.Name):
            return self.name(f, node.id, depth)
        if isinstance(node, ast.Subscript):
            # row[0] of a sqlite_master query
            if self._from_master(f, node, depth):
                return Cls("MASTER_NAME")
            return Cls("TAINTED", f"subscript {ast.unparse(node)[:40]}")
        return Cls("TAINTED", f"unsupported expression {type(node).__name__}")

    def name(self, f: FuncInfo, ident: str, depth: int) -> Cls:
        key = (f.qualname, ident)
        if key in self._stack:
            return Cls("CONST")  # recursive accumulation (x = x + ...): other defs decide
        self._stack.add(key)
        try:
            return self._name(f, ident, depth)
        finally:
            self._stack.discard(key)

    def _name(self, f: FuncInfo, ident: str, depth: int) -> Cls:
        a = f.node.args
        params = [x.arg for x in a.posonlyargs + a.args + a.kwonlyargs]
        defs: list[Cls] = []
        found = False
        for n in walk_no_nested(f.node):
            if isinstance(n, ast.Assign):
                for t in n.targets:
                    if isinstance(t, ast.Name) and t.id == ident:
                        found = True
                        defs.append(self.classify(f, n.value, depth + 1))
                    elif isinstance(t, (ast.Tuple, ast.List)) and any(isinstance(e, ast.Name) and e.id == ident for e in t.elts):
                        found = True
                        defs.append(Cls("TAINTED", f"{ident} bound by tuple unpacking"))
            elif isinstance(n, ast.AnnAssign) and isinstance(n.target, ast.Name) and n.target.id == ident:
                found = True
                if n.value is not None:
                    defs.append(self.classify(f, n.value, depth + 1))
            elif isinstance(n, ast.AugAssign) and isinstance(n.target, ast.Name) and n.target.id == ident:
                found = True
                defs.append(self.classify(f, n.value, depth + 1))
            elif isinstance(n, ast.Call) and isinstance(n.func, ast.Attribute) and isinstance(n.func.value, ast.Name) and n.func.value.id == ident and n.func.attr in ("append", "extend", "insert"):
                found = True
                for arg in n.args[-1:]:
                    defs.append(self.classify(f, arg, depth + 1))
            elif isinstance(n, (ast.For, ast.comprehension)):
                if isinstance(n.target, ast.Name) and n.target.id == ident:
                    found = True
                    it = n.iter
                    if self._iter_from_master(f, it, depth):
                        defs.append(Cls("MASTER_NAME"))
                    elif isinstance(it, ast.Call) and call_name(it) == "range":
                        defs.append(Cls("INT"))
                    else:
                        c = self.classify(f, it, depth + 1)
                        defs.append(c if c.safe else Cls("TAINTED", f"loop variable {ident} over {ast.unparse(it)[:40]}"))
                elif isinstance(n.target, (ast.Tuple, ast.List)) and any(isinstance(e, ast.Name) and e.id == ident for e in n.target.elts):
                    found = True
                    defs.append(Cls("TAINTED", f"loop variable {ident} (unpacked) over {ast.unparse(n.iter)[:40]}"))
        if found:
            return join(*defs)
        if ident in params:
            return Cls("TAINTED", f"parameter {ident}")
        if f.parent_func is not None:
            return self.name(f.parent_func, ident, depth + 1)
        mv = f.module.assigns.get(ident)
        if mv is not None and isinstance(mv, ast.Constant) and isinstance(mv.value, str):
            return Cls("CONST")
        return Cls("TAINTED", f"name {ident} of unknown origin")

    # -- names read back from sqlite_master
    def _iter_from_master(self, f: FuncInfo, it: ast.AST, depth: int) -> bool:
        if isinstance(it, ast.Name):
            for n in walk_no_nested(f.node):
                if isinstance(n, ast.Assign) and any(isinstance(t, ast.Name) and t.id == it.id for t in n.targets):
                    v = n.value
                    if isinstance(v, ast.ListComp) and isinstance(v.elt, ast.Subscript) and self._cursor_from_master(f, v.generators[0].iter):
                        return True
        return False

    def _from_master(self, f: FuncInfo, node: ast.Subscript, depth: int) -> bool:
        return False

    def _cursor_from_master(self, f: FuncInfo, it: ast.AST) -> bool:
        # cursor.fetchall() where cursor = <conn>.execute("... sqlite_master ...")
        if isinstance(it, ast.Call) and call_name(it) in ("fetchall", "fetchmany") and isinstance(it.func, ast.Attribute) and isinstance(it.func.value, ast.Name):
            cur = it.func.value.id
            latest = None
            for n in walk_no_nested(f.node):
                if isinstance(n, ast.Assign) and any(isinstance(t, ast.Name) and t.id == cur for t in n.targets) and n.lineno <= it.lineno:
                    if latest is None or n.lineno > latest.lineno:
                        latest = n
            if latest is None:
                return False
            v = latest.value
            text = v.args[0] if isinstance(v, ast.Call) and call_name(v) == "execute" and v.args else None
            if isinstance(text, ast.Name):
                # the statement text held in a local that has exactly one definition, a constant string
                vals = [n.value for n in walk_no_nested(f.node) if isinstance(n, ast.Assign) and any(isinstance(t, ast.Name) and t.id == text.id for t in n.targets)]
                text = vals[0] if len(vals) == 1 else None
            ok = isinstance(text, ast.Constant) and "sqlite_master" in str(text.value) and str(text.value).upper().lstrip().startswith("SELECT NAME")
            return ok
        return False
