"""Behaviour-preserving rewrites used as false-alarm probes: re-print with ast.unparse and rename locals."""

from __future__ import annotations

import ast
import builtins
from pathlib import Path


class Renamer(ast.NodeTransformer):
    """Renames function-local variables (not parameters, globals, nonlocals, attributes)."""

    def __init__(self) -> None:
        self.stack: list[set[str]] = []

    def _locals_of(self, fn: ast.AST) -> set[str]:
        params = {a.arg for a in ast.walk(fn.args) if isinstance(a, ast.arg)}  # type: ignore[attr-defined]
        assigned: set[str] = set()
        declared: set[str] = set()
        for n in ast.walk(fn):
            if isinstance(n, (ast.Global, ast.Nonlocal)):
                declared |= set(n.names)
        def visit(node, top=True):
            for ch in ast.iter_child_nodes(node):
                if isinstance(ch, (ast.FunctionDef, ast.AsyncFunctionDef, ast.ClassDef, ast.Lambda)):
                    if isinstance(ch, (ast.FunctionDef, ast.AsyncFunctionDef, ast.ClassDef)):
                        pass  # nested def names are left alone
                    continue
                if isinstance(ch, ast.Name) and isinstance(ch.ctx, (ast.Store, ast.Del)):
                    assigned.add(ch.id)
                if isinstance(ch, ast.ExceptHandler) and ch.name:
                    pass  # handler names are kept (simple)
                visit(ch, False)
        visit(fn)
        # names also used inside nested functions/lambdas/comprehension scopes stay (closure safety)
        nested_used: set[str] = set()
        for n in ast.walk(fn):
            if n is not fn and isinstance(n, (ast.FunctionDef, ast.AsyncFunctionDef, ast.Lambda, ast.ClassDef)):
                for m in ast.walk(n):
                    if isinstance(m, ast.Name):
                        nested_used.add(m.id)
        handler_names = {h.name for h in ast.walk(fn) if isinstance(h, ast.ExceptHandler) and h.name}
        return {x for x in assigned - params - declared - nested_used - handler_names if not hasattr(builtins, x) and not x.startswith("__")}

    def visit_FunctionDef(self, node):
        loc = self._locals_of(node)
        self.stack.append(loc)
        node.body = [self.visit(s) for s in node.body]
        self.stack.pop()
        return node

    visit_AsyncFunctionDef = visit_FunctionDef

    def visit_Lambda(self, node):
        return node

    def visit_ClassDef(self, node):
        saved, self.stack = self.stack, []
        node.body = [self.visit(s) for s in node.body]
        self.stack = saved
        return node

    def visit_Name(self, node):
        if self.stack and node.id in self.stack[-1]:
            node.id = node.id + "_rn"
        return node


class LogInserter(ast.NodeTransformer):
    """Adds a debug log line at the start of every function body and after every `with` header:
    `logging.getLogger(__name__).debug("<function name>")` (the module gets `import logging`)."""

    def _probe(self, text: str) -> ast.stmt:
        return ast.parse(f"logging.getLogger(__name__).debug({text!r})").body[0]

    def visit_FunctionDef(self, node):
        self.generic_visit(node)
        body = node.body
        i = 1 if body and isinstance(body[0], ast.Expr) and isinstance(body[0].value, ast.Constant) and isinstance(body[0].value.value, str) else 0
        if any(isinstance(d, ast.Name) and d.id == "overload" for d in node.decorator_list):
            return node
        node.body = body[:i] + [self._probe(node.name)] + body[i:]
        return node

    visit_AsyncFunctionDef = visit_FunctionDef

    def visit_With(self, node):
        self.generic_visit(node)
        node.body = node.body + [self._probe("leaving with")]
        return node


class BranchFlipper(ast.NodeTransformer):
    """`if c: A else: B` -> `if not c: B else: A` (only two-armed ifs whose else is not an elif chain)."""

    def visit_If(self, node):
        self.generic_visit(node)
        if node.orelse and not (len(node.orelse) == 1 and isinstance(node.orelse[0], ast.If)):
            has_walrus = any(isinstance(x, ast.NamedExpr) for x in ast.walk(node.test))
            if not has_walrus:
                if isinstance(node.test, ast.UnaryOp) and isinstance(node.test.op, ast.Not):
                    node.test = node.test.operand
                else:
                    node.test = ast.UnaryOp(op=ast.Not(), operand=node.test)
                node.body, node.orelse = node.orelse, node.body
        return node


class TryWrapper(ast.NodeTransformer):
    """Wraps the body of every for-loop and every function (after the docstring) in
    `try: ... except Exception: raise` - lexical nesting and handler structure change, behaviour does not."""

    def _wrap(self, body: list[ast.stmt]) -> list[ast.stmt]:
        if not body or all(isinstance(s, (ast.Pass, ast.Expr)) and (isinstance(s, ast.Pass) or isinstance(getattr(s, "value", None), ast.Constant)) for s in body):
            return body
        t = ast.Try(body=body, handlers=[ast.ExceptHandler(type=ast.Name(id="Exception", ctx=ast.Load()), name=None, body=[ast.Raise(exc=None, cause=None)])], orelse=[], finalbody=[])
        return [t]

    def visit_FunctionDef(self, node):
        self.generic_visit(node)
        if any(isinstance(d, ast.Name) and d.id in ("overload", "abstractmethod") for d in node.decorator_list):
            return node
        i = 1 if node.body and isinstance(node.body[0], ast.Expr) and isinstance(node.body[0].value, ast.Constant) and isinstance(node.body[0].value.value, str) else 0
        # global / nonlocal declarations must stay first
        while i < len(node.body) and isinstance(node.body[i], (ast.Global, ast.Nonlocal)):
            i += 1
        node.body = node.body[:i] + self._wrap(node.body[i:]) if node.body[i:] else node.body
        return node

    visit_AsyncFunctionDef = visit_FunctionDef

    def visit_For(self, node):
        self.generic_visit(node)
        node.body = self._wrap(node.body)
        return node


class ReturnVar(ast.NodeTransformer):
    """`return <expr>` -> `_ret = <expr>; return _ret` for every non-trivial return expression."""

    def _fix(self, body: list[ast.stmt]) -> list[ast.stmt]:
        out: list[ast.stmt] = []
        for s in body:
            if isinstance(s, ast.Return) and s.value is not None and not isinstance(s.value, (ast.Name, ast.Constant)) and not any(isinstance(x, (ast.Yield, ast.YieldFrom, ast.Await)) for x in ast.walk(s.value)):
                out.append(ast.Assign(targets=[ast.Name(id="_ret", ctx=ast.Store())], value=s.value, lineno=s.lineno))
                out.append(ast.Return(value=ast.Name(id="_ret", ctx=ast.Load())))
            else:
                out.append(s)
        return out

    def generic_visit(self, node):
        super().generic_visit(node)
        for fld in ("body", "orelse", "finalbody"):
            v = getattr(node, fld, None)
            if isinstance(v, list) and v and isinstance(v[0], ast.stmt):
                setattr(node, fld, self._fix(v))
        return node


class ElseAfterJump(ast.NodeTransformer):
    """`if c: ...; return/raise/continue/break` followed by REST  ->  `if c: ... else: REST`."""

    def _fix(self, body: list[ast.stmt]) -> list[ast.stmt]:
        for i, s in enumerate(body):
            if isinstance(s, ast.If) and not s.orelse and s.body and isinstance(s.body[-1], (ast.Return, ast.Raise, ast.Continue, ast.Break)) and i + 1 < len(body):
                rest = self._fix(body[i + 1:])
                # declarations must stay at function level
                if any(isinstance(r, (ast.Global, ast.Nonlocal)) for r in rest):
                    continue
                s.orelse = rest
                return body[: i + 1]
        return body

    def generic_visit(self, node):
        super().generic_visit(node)
        for fld in ("body", "orelse", "finalbody"):
            v = getattr(node, fld, None)
            if isinstance(v, list) and v and isinstance(v[0], ast.stmt) and not isinstance(node, (ast.Module, ast.ClassDef)):
                setattr(node, fld, self._fix(v))
        return node


class ReceiverAlias(ast.NodeTransformer):
    """`self.app.<component>.<m>(...)` -> `_<component> = self.app.<component>` at the start of the function, calls go through the local."""

    COMPONENTS = ("orchestrator", "broker", "state_backend", "trigger", "client_data_store")

    def visit_FunctionDef(self, node):
        self.generic_visit(node)
        used: dict[str, str] = {}

        class R(ast.NodeTransformer):
            def visit_FunctionDef(s, n):  # nested scopes keep the attribute form
                return n

            visit_AsyncFunctionDef = visit_FunctionDef
            visit_Lambda = visit_FunctionDef

            def visit_Attribute(s, n):
                s.generic_visit(n)
                if n.attr in ReceiverAlias.COMPONENTS and isinstance(n.ctx, ast.Load) and isinstance(n.value, ast.Attribute) and n.value.attr == "app" and isinstance(n.value.value, ast.Name) and n.value.value.id == "self":
                    used[n.attr] = f"_{n.attr}"
                    return ast.copy_location(ast.Name(id=f"_{n.attr}", ctx=ast.Load()), n)
                return n

        if any(isinstance(x, (ast.Yield, ast.YieldFrom)) for x in ast.walk(node)):
            pass
        new_body = [R().visit(s) for s in node.body]
        if used:
            i = 1 if new_body and isinstance(new_body[0], ast.Expr) and isinstance(new_body[0].value, ast.Constant) and isinstance(new_body[0].value.value, str) else 0
            binds = [ast.parse(f"{loc} = self.app.{comp}").body[0] for comp, loc in sorted(used.items())]
            node.body = new_body[:i] + binds + new_body[i:]
        return node

    visit_AsyncFunctionDef = visit_FunctionDef


class Annotator(ast.NodeTransformer):
    """`x = v` -> `x: object = v` for plain local names inside functions (not global / nonlocal names)."""

    def __init__(self) -> None:
        self.fn: list[set[str]] = []

    def visit_FunctionDef(self, node):
        declared = {n for g in ast.walk(node) if isinstance(g, (ast.Global, ast.Nonlocal)) for n in g.names}
        self.fn.append(declared)
        self.generic_visit(node)
        self.fn.pop()
        return node

    visit_AsyncFunctionDef = visit_FunctionDef

    def visit_ClassDef(self, node):
        saved, self.fn = self.fn, []
        self.generic_visit(node)
        self.fn = saved
        return node

    def visit_Assign(self, node):
        if self.fn and len(node.targets) == 1 and isinstance(node.targets[0], ast.Name) and node.targets[0].id not in self.fn[-1]:
            return ast.copy_location(ast.AnnAssign(target=node.targets[0], annotation=ast.Name(id="object", ctx=ast.Load()), value=node.value, simple=1), node)
        return node


def collect_signatures(root: Path) -> dict[str, list[str] | None]:
    """function / method name -> positional parameter names (without self / cls) when EVERY definition of that
    name in the tree agrees, else None"""
    sigs: dict[str, list[str] | None] = {}
    for f in root.rglob("*.py"):
        tree = ast.parse(f.read_text())
        for n in ast.walk(tree):
            if isinstance(n, (ast.FunctionDef, ast.AsyncFunctionDef)):
                a = n.args
                names = [x.arg for x in a.posonlyargs + a.args]
                if names and names[0] in ("self", "cls"):
                    names = names[1:]
                val: list[str] | None = names if not a.vararg and not a.posonlyargs else None
                if n.name in sigs and sigs[n.name] != val:
                    sigs[n.name] = None
                elif n.name not in sigs:
                    sigs[n.name] = val
    return sigs


class KeywordToPositional(ast.NodeTransformer):
    """keyword arguments of calls to uniquely-signed repo functions become positional where that keeps the order"""

    def __init__(self, sigs) -> None:
        self.sigs = sigs

    def visit_Call(self, node):
        self.generic_visit(node)
        nm = node.func.attr if isinstance(node.func, ast.Attribute) else node.func.id if isinstance(node.func, ast.Name) else None
        if nm is None or nm[:1].isupper() or self.sigs.get(nm) is None or any(isinstance(a, ast.Starred) for a in node.args) or any(k.arg is None for k in node.keywords):
            return node
        params = self.sigs[nm]
        kws = {k.arg: k for k in node.keywords}
        i = len(node.args)
        moved = False
        while i < len(params) and params[i] in kws:
            node.args.append(kws[params[i]].value)
            node.keywords.remove(kws[params[i]])
            i += 1
            moved = True
        return node


class PositionalToKeyword(ast.NodeTransformer):
    """positional arguments (all but the first) of calls to uniquely-signed repo functions become keywords"""

    def __init__(self, sigs) -> None:
        self.sigs = sigs

    def visit_Call(self, node):
        self.generic_visit(node)
        nm = node.func.attr if isinstance(node.func, ast.Attribute) else node.func.id if isinstance(node.func, ast.Name) else None
        if nm is None or nm[:1].isupper() or nm.startswith("__") or self.sigs.get(nm) is None or any(isinstance(a, ast.Starred) for a in node.args):
            return node
        params = self.sigs[nm]
        if len(node.args) > len(params) or len(node.args) < 2:
            return node
        extra = node.args[1:]
        node.keywords = [ast.keyword(arg=params[1 + j], value=v) for j, v in enumerate(extra)] + node.keywords
        node.args = node.args[:1]
        return node


def collect_param_names(root: Path) -> dict[str, set[str]]:
    """function / method name -> parameter names over all its definitions (dunder methods excluded; functions started
    through `target=<name>` with a kwargs dictionary keep their parameter names: the dictionary keys are strings)"""
    out: dict[str, set[str]] = {}
    by_target: set[str] = set()
    for f in root.rglob("*.py"):
        for n in ast.walk(ast.parse(f.read_text())):
            if isinstance(n, ast.keyword) and n.arg == "target" and isinstance(n.value, ast.Name):
                by_target.add(n.value.id)
    ParamRenamer.KEEP = by_target
    for f in root.rglob("*.py"):
        for n in ast.walk(ast.parse(f.read_text())):
            if isinstance(n, (ast.FunctionDef, ast.AsyncFunctionDef)) and n.name in by_target:
                continue
            if isinstance(n, (ast.FunctionDef, ast.AsyncFunctionDef)) and not (n.name.startswith("__") and n.name.endswith("__")):
                a = n.args
                out.setdefault(n.name, set()).update(x.arg for x in a.posonlyargs + a.args + a.kwonlyargs if x.arg not in ("self", "cls"))
    return out


class ParamRenamer(ast.NodeTransformer):
    """renames every parameter p (not self / cls, not of dunder methods) to p_p in the signature, the body and in
    keyword arguments of calls to repository functions of that name"""

    def __init__(self, table: dict[str, set[str]]) -> None:
        self.table = table
        self.scopes: list[set[str]] = []

    KEEP: set[str] = set()

    def visit_FunctionDef(self, node):
        dunder = (node.name.startswith("__") and node.name.endswith("__")) or node.name in self.KEEP
        # decorators and defaults belong to the enclosing scope
        node.decorator_list = [self.visit(d) for d in node.decorator_list]
        a = node.args
        a.defaults = [self.visit(d) for d in a.defaults]
        a.kw_defaults = [self.visit(d) if d is not None else None for d in a.kw_defaults]
        mine: set[str] = set()
        if not dunder:
            for x in a.posonlyargs + a.args + a.kwonlyargs:
                if x.arg not in ("self", "cls"):
                    mine.add(x.arg)
                    x.arg = x.arg + "_p"
        # names assigned as global / nonlocal keep their meaning
        self.scopes.append(mine)
        node.body = [self.visit(s) for s in node.body]
        self.scopes.pop()
        return node

    visit_AsyncFunctionDef = visit_FunctionDef

    def visit_Lambda(self, node):
        shadow = {x.arg for x in node.args.args + node.args.kwonlyargs}
        self.scopes.append(set())  # lambda parameters are left alone and shadow outer ones
        saved = [s - shadow for s in self.scopes[:-1]]
        old, self.scopes = self.scopes, saved + [set()]
        node.body = self.visit(node.body)
        self.scopes = old
        self.scopes.pop()
        return node

    def visit_ClassDef(self, node):
        old, self.scopes = self.scopes, []
        self.generic_visit(node)
        self.scopes = old
        return node

    def visit_Name(self, node):
        for sc in reversed(self.scopes):
            if node.id in sc:
                node.id = node.id + "_p"
                break
        return node

    def visit_Call(self, node):
        self.generic_visit(node)
        nm = node.func.attr if isinstance(node.func, ast.Attribute) else node.func.id if isinstance(node.func, ast.Name) else None
        if nm in self.table:
            for k in node.keywords:
                if k.arg and k.arg in self.table[nm]:
                    k.arg = k.arg + "_p"
        return node


class Delegator(ast.NodeTransformer):
    """every plain method `m(self, ...)` keeps a stub `return self._m__impl(...)`; the body moves to `_m__impl`"""

    def visit_ClassDef(self, node):
        self.generic_visit(node)
        new_body: list[ast.stmt] = []
        for st in node.body:
            new_body.append(st)
            if not isinstance(st, ast.FunctionDef) or (st.name.startswith("__") and st.name.endswith("__")):
                continue
            a = st.args
            if a.vararg or a.kwarg or a.posonlyargs or a.kwonlyargs or not a.args or a.args[0].arg != "self":
                continue
            if any(isinstance(d, ast.Name) and d.id in ("abstractmethod", "overload", "staticmethod", "classmethod") or (isinstance(d, ast.Attribute) and d.attr in ("setter", "abstractmethod")) for d in st.decorator_list):
                continue
            if any(isinstance(x, (ast.Yield, ast.YieldFrom, ast.Await, ast.Global, ast.Nonlocal)) for x in ast.walk(st)):
                continue
            if any(isinstance(x, (ast.FunctionDef, ast.AsyncFunctionDef, ast.Lambda, ast.ClassDef, ast.ListComp, ast.SetComp, ast.DictComp, ast.GeneratorExp)) for x in ast.walk(st) if x is not st):
                continue
            if any(isinstance(x, ast.Call) and isinstance(x.func, ast.Name) and x.func.id == "super" for x in ast.walk(st)):
                continue
            body = st.body
            doc = body[:1] if body and isinstance(body[0], ast.Expr) and isinstance(body[0].value, ast.Constant) and isinstance(body[0].value.value, str) else []
            rest = body[len(doc):]
            if not rest or all(isinstance(x, ast.Pass) or (isinstance(x, ast.Expr) and isinstance(x.value, ast.Constant)) for x in rest):
                continue
            impl_name = f"_impl_{node.name}_{st.name}"  # per class: an override of m must not capture the base stub's delegation
            impl = ast.FunctionDef(name=impl_name, args=ast.arguments(posonlyargs=[], args=[ast.arg(arg=x.arg) for x in a.args], vararg=None, kwonlyargs=[], kw_defaults=[], kwarg=None, defaults=[]), body=rest, decorator_list=[], returns=None, type_comment=None, type_params=[])
            call = ast.Call(func=ast.Attribute(value=ast.Name(id="self", ctx=ast.Load()), attr=impl_name, ctx=ast.Load()), args=[ast.Name(id=x.arg, ctx=ast.Load()) for x in a.args[1:]], keywords=[])
            st.body = doc + [ast.Return(value=call)]
            new_body.append(impl)
        node.body = new_body
        return node


class SqlHoister(ast.NodeTransformer):
    """`conn.execute(f"...", params)` -> `_sql_1 = f"..."; conn.execute(_sql_1, params)` (statement-level calls only)"""

    def __init__(self) -> None:
        self.k = 0

    def _fix(self, body: list[ast.stmt]) -> list[ast.stmt]:
        out: list[ast.stmt] = []
        for st in body:
            call = None
            if isinstance(st, ast.Expr) and isinstance(st.value, ast.Call):
                call = st.value
            elif isinstance(st, ast.Assign) and isinstance(st.value, ast.Call):
                call = st.value
            elif isinstance(st, ast.Assign) and isinstance(st.value, ast.Attribute) and isinstance(st.value.value, ast.Call):
                call = st.value.value
            if call is not None and isinstance(call.func, ast.Attribute) and call.func.attr in ("execute", "executemany") and call.args and isinstance(call.args[0], (ast.JoinedStr, ast.Constant)) and (not isinstance(call.args[0], ast.Constant) or isinstance(call.args[0].value, str)):
                self.k += 1
                nm = f"_sql_{self.k}"
                out.append(ast.copy_location(ast.Assign(targets=[ast.Name(id=nm, ctx=ast.Store())], value=call.args[0], type_comment=None), st))
                call.args[0] = ast.Name(id=nm, ctx=ast.Load())
            out.append(st)
        return out

    def generic_visit(self, node):
        super().generic_visit(node)
        for fld in ("body", "orelse", "finalbody"):
            v = getattr(node, fld, None)
            if isinstance(v, list) and v and isinstance(v[0], ast.stmt):
                setattr(node, fld, self._fix(v))
        return node


class GuardClauses(ast.NodeTransformer):
    """reduce nesting: a loop body ending in `if c: BODY` becomes `if not c: continue; BODY`; a function body ending in
    `if c: BODY` (no else) becomes `if not c: return None; BODY`"""

    @staticmethod
    def _neg(t: ast.AST) -> ast.AST:
        return t.operand if isinstance(t, ast.UnaryOp) and isinstance(t.op, ast.Not) else ast.UnaryOp(op=ast.Not(), operand=t)

    def _split(self, body: list[ast.stmt], jump: ast.stmt) -> list[ast.stmt]:
        if body and isinstance(body[-1], ast.If) and not body[-1].orelse and not any(isinstance(x, ast.NamedExpr) for x in ast.walk(body[-1].test)):
            last = body[-1]
            guard = ast.copy_location(ast.If(test=self._neg(last.test), body=[jump], orelse=[]), last)
            return body[:-1] + [guard] + self._split(last.body, jump)
        return body

    def visit_For(self, node):
        self.generic_visit(node)
        if not node.orelse:
            node.body = self._split(node.body, ast.Continue())
        return node

    visit_While = visit_For

    def visit_FunctionDef(self, node):
        self.generic_visit(node)
        if not any(isinstance(x, (ast.Yield, ast.YieldFrom)) for x in ast.walk(node)):
            node.body = self._split(node.body, ast.Return(value=ast.Constant(value=None)))
        return node

    visit_AsyncFunctionDef = visit_FunctionDef


def rewrite_tree(root: Path, rename: bool, mode: str = "") -> int:
    n = 0
    sigs = collect_signatures(root) if mode in ("kw", "pos") else {}
    ptable = collect_param_names(root) if mode == "params" else {}
    for f in list(root.rglob("*.py")):
        tree = ast.parse(f.read_text())
        if mode == "guard":
            tree = GuardClauses().visit(tree)
            ast.fix_missing_locations(tree)
        if mode == "sqlvar":
            tree = SqlHoister().visit(tree)
            ast.fix_missing_locations(tree)
        if mode == "delegate":
            tree = Delegator().visit(tree)
            ast.fix_missing_locations(tree)
        if mode == "params":
            tree = ParamRenamer(ptable).visit(tree)
            ast.fix_missing_locations(tree)
        if mode == "kw":
            tree = PositionalToKeyword(sigs).visit(tree)
            ast.fix_missing_locations(tree)
        if mode == "pos":
            tree = KeywordToPositional(sigs).visit(tree)
            ast.fix_missing_locations(tree)
        if rename:
            tree = Renamer().visit(tree)
            ast.fix_missing_locations(tree)
        if mode == "log":
            tree = LogInserter().visit(tree)
            # after the module docstring and __future__ imports
            k = 0
            for k, st in enumerate(tree.body):
                if not ((isinstance(st, ast.Expr) and isinstance(st.value, ast.Constant)) or (isinstance(st, ast.ImportFrom) and st.module == "__future__")):
                    break
            tree.body.insert(k, ast.parse("import logging").body[0])
            ast.fix_missing_locations(tree)
        if mode == "try":
            tree = TryWrapper().visit(tree)
            ast.fix_missing_locations(tree)
        if mode == "retvar":
            tree = ReturnVar().visit(tree)
            ast.fix_missing_locations(tree)
        if mode == "elseret":
            tree = ElseAfterJump().visit(tree)
            ast.fix_missing_locations(tree)
        if mode == "recv":
            tree = ReceiverAlias().visit(tree)
            ast.fix_missing_locations(tree)
        if mode == "annot":
            tree = Annotator().visit(tree)
            ast.fix_missing_locations(tree)
        if mode == "flip":
            tree = BranchFlipper().visit(tree)
            ast.fix_missing_locations(tree)
        f.write_text(ast.unparse(tree) + "\n")
        n += 1
    return n
