#!/usr/bin/env python3
"""make_prompt.py <property id> <worktree dir>  -> prints the seeding prompt for one property (template: seed_prompt_template.txt).
The prompt contains ONLY the property text and the worktree path - nothing from /verif's checks."""
import json, sys
from pathlib import Path
pid, wt = sys.argv[1], sys.argv[2]
p = next(json.loads(l) for l in open("/verif/properties.jsonl") if json.loads(l)["id"] == pid)
t = (Path(__file__).parent / "seed_prompt_template.txt").read_text()
for k, v in {"{WT}": wt, "{ID}": pid, "{TITLE}": p["title"], "{STATEMENT}": p["statement"], "{QUANT}": p["quantifier"]["text"], "{WHY}": p["why_tests_cant"],
             "{MECH}": json.dumps(p["anchors"]["mechanism"], indent=1), "{FILES}": ", ".join(p["anchors"]["files"])}.items():
    t = t.replace(k, v)
print(t)
