"""C03 - no accepted invocation is lost when a process dies at any step.

Crash-window analysis done statically: the typestate engine enumerates the paths (normal and
exceptional) of every lifecycle operation, projected on the effects that concern one invocation;
after every effect - a possible crash point - the abstract state of each invocation this actor is
responsible for must satisfy the property's invariant:

    final  or  (queued and in an available status)  or  held in PENDING / RUNNING
    (the two statuses the recovery scans cover)

R2 windows: the invariant is broken between two consecutive effects on an invocation
R3 exits:   an operation ends (returns or raises) with a responsible invocation in a broken state
R4 reach:   every non-final, non-available status an operation can leave behind is scanned by
            some recovery (today only PENDING and RUNNING)
"""

from __future__ import annotations

import ast
import os

from ..flow import call_name, calls_in
from ..loader import AnalysisError, FuncInfo, walk_no_nested
from ..report import Context
from ..statusmodel import extract
from ..typestate import Budget, Engine, Event, Inv, IState, State

PROPERTY = "C03"
TECHNIQUE = "static analysis: path-sensitive typestate / effect analysis (abstract interpretation of the lifecycle operations with exception edges, coroutine inlining of generators, exact unrolling of id collections); crash points = effect boundaries"

HELD = frozenset({"PENDING", "RUNNING"})


def entries(ctx: Context, eng: Engine) -> list[tuple[str, FuncInfo, str]]:
    """(label, function, precondition kind)"""
    repo = ctx.repo
    out: list[tuple[str, FuncInfo, str]] = []
    base = repo.cls("BaseRunner")
    for c in base.all_subclasses():
        f = c.methods.get("runner_loop_iteration")
        if f is not None and not f.is_abstract and eng.effectful(f):
            out.append((f"loop:{c.name}", f, "none"))
        s = c.methods.get("_on_stop")
        if s is not None and not s.is_abstract and eng.effectful(s):
            out.append((f"stop:{c.name}", s, "none"))
    for f in repo.all_functions():
        if f.cls is None and f.parent_func is None and f.module.name.startswith("pynenc.runner") and eng.effectful(f) and any(call_name(c) == "get_invocations_to_run" for c in calls_in(f.node)):
            out.append((f"worker:{f.name}", f, "none"))
        if f.cls is None and any("core_tasks_registry.task" in d for d in f.decorators) and eng.effectful(f):
            out.append((f"core-task:{f.name}", f, "none"))
    run = repo.cls("DistributedInvocation").methods.get("run")
    if run is None:
        raise AnalysisError("anchor-vanished: DistributedInvocation.run")
    out.append(("run", run, "self-pending"))
    bo = repo.cls("BaseOrchestrator")
    for nm in ("route_call", "route_calls"):
        f = bo.methods.get(nm)
        if f is None:
            raise AnalysisError(f"anchor-vanished: BaseOrchestrator.{nm}")
        out.append((f"submit:{nm}", f, "none"))
    return out


def safe(s: IState, sm_final, sm_avail) -> bool:
    if not s.responsible or not s.accepted:
        return True
    if not s.status:
        return True  # not created yet
    if s.status <= sm_final:
        return True
    if s.status <= HELD:
        return True
    if s.queued and s.status <= (sm_avail | sm_final | HELD):
        return True
    return False


def describe(s: IState) -> str:
    st = ",".join(sorted(s.status)) if len(s.status) <= 4 else f"{len(s.status)} statuses incl. available"
    return f"status in {{{st}}} queued={'yes' if s.queued else 'no'}"


def analyse_entry(ctx: Context, eng: Engine, label: str, f: FuncInfo, pre: str, sm) -> tuple[dict, dict, int, set]:
    """returns (windows, exits, n_paths, left_behind statuses)"""
    st = State()
    env: dict = {}
    if pre == "self-pending":
        tok = st.fresh(IState(frozenset({"PENDING"}), own=True, responsible=True), "s")
        env["self"] = Inv(tok)
    final, avail = frozenset(sm.final), frozenset(sm.available)
    windows: dict[str, tuple[str, str, list[str]]] = {}
    exits: dict[str, tuple[str, str, list[str]]] = {}
    early: dict[str, tuple[str, str, list[str]]] = {}
    left: set[str] = set()
    try:
        results = eng.run(f, env, st)
    except Budget:
        raise AnalysisError(f"path budget exceeded analysing {f.qualname}")
    EFFECTS = ("S", "S!", "Q+", "Q-", "NEW", "BODY")
    for s, o in results:
        toks = sorted({e.tok for e, _ in s.trace if e.tok})
        for tok in toks:
            resp = False
            last_eff: Event | None = None  # last effect on this token
            cur_state: IState | None = None  # latest snapshot (refined by guards) of this token
            for e, snap in s.trace:
                if e.tok != tok or snap.get(tok) is None:
                    continue
                if e.kind == "Q+" and cur_state is not None and cur_state.status and not (cur_state.status & avail):
                    # the message becomes visible while the invocation cannot be taken: a concurrent poller pops it,
                    # sees a status that is not available for run, and discards it
                    key = f"push-before-available::{_fn(e)}::{','.join(sorted(cur_state.status))[:40]}"
                    early.setdefault(key, (e.loc(), f"[{label}] the invocation's message is queued ({e.loc()}) while its status is {describe(cur_state)}: another runner polling at that moment pops the message, finds the invocation not available for run and drops it; when this actor then writes the available status nothing is queued any more", _path(s)))
                if e.kind in EFFECTS:
                    # the crash point just before this effect
                    if last_eff is not None and cur_state is not None and resp and not safe(IState(cur_state.status, cur_state.own, cur_state.queued, True, cur_state.accepted), final, avail):
                        key = f"window::{_fn(last_eff)}::{_sig(last_eff)}->{_sig(e)}"
                        windows.setdefault(key, (last_eff.loc(), f"[{label}] a crash between {_sig(last_eff)} ({last_eff.loc()}) and {_sig(e)} ({e.loc()}) leaves the invocation with {describe(cur_state)}: not queued in an available status, not held in PENDING/RUNNING - no recovery scan selects it", _path(s)))
                    if e.kind in ("Q-", "S", "NEW"):
                        resp = True
                    elif e.kind == "S!" and ":race:" in e.detail:
                        resp = False
                    last_eff = e
                elif e.kind == "GUARD" and e.detail in ("is_available_for_run=False", "can_transition_to=False", "already-claimed-here"):
                    resp = False
                cur_state = snap[tok]
            fin = s.istates.get(tok)
            if last_eff is not None and fin is not None and resp and fin.accepted and not safe(IState(fin.status, fin.own, fin.queued, True, True), final, avail):
                how = o.kind + (f":{o.exc.cls}" if o.exc else "")
                # why a NORMAL end leaves it behind: the producer was abandoned by its consumer, or an error was swallowed
                idx = max(i_ for i_, (e_, _) in enumerate(s.trace) if e_ is last_eff)
                later = [e_ for e_, _ in s.trace[idx + 1:]]
                if not o.exc:
                    if any(e_.kind == "GEN-ABANDONED" for e_ in later):
                        how += ":generator-abandoned"
                    else:
                        caught = [e_ for e_ in later if e_.kind == "CAUGHT"]
                        if caught:
                            how += ":after-caught:" + caught[0].detail.split(" ")[0]
                key = f"exit::{_fn(last_eff)}::{_sig(last_eff)}::{how}"
                exits.setdefault(key, (last_eff.loc(), f"[{label}] the operation ends ({how}) after {_sig(last_eff)} ({last_eff.loc()}) with the invocation in {describe(fin)}: nothing will queue or recover it", _path(s)))
        for e, _ in s.trace:
            if e.kind == "S" and e.detail not in final and e.detail not in avail and e.detail not in HELD:
                left.add(e.detail)
    windows.update({k: v for k, v in early.items()})  # reported under R2 (state between two effects)
    return windows, exits, len(results), left


def _fn(e: Event) -> str:
    return e.func.split(".")[-1]


def _sig(e: Event) -> str:
    d = e.detail
    if e.kind == "S!":
        parts = d.split(":")
        d = parts[0] + ":" + parts[1] + ((":" + parts[2]) if parts[1] == "typestate" else "")
    return f"{e.kind}({d})" if d else e.kind


def _path(s: State) -> list[str]:
    return [f"{e.loc()} {e.kind}[{e.tok}]({e.detail}) in {e.func.split('.')[-1]}" for e, _ in s.trace if e.kind != "CALL"][:60]


def r6_purge(ctx: Context) -> None:
    base = ctx.repo.cls("BaseOrchestrator")
    # R6: the auto-purge registration (it makes the orchestrator DELETE the invocation later) belongs to a successful final
    # transition: reachable only through the transition's normal exit and only under `status.is_final()`
    from ..flow import cfg_node_of, conditions_at, func_cfg, parent_map
    from . import c01

    ctx.rule("R6", "an invocation is scheduled for automatic purge only after it really reached a final status: in set_invocation_status the purge registration is reachable only through the normal exit of the atomic transition, under `status.is_final()`")
    so = base.methods.get("set_invocation_status")
    if so is None:
        raise AnalysisError("anchor-vanished: BaseOrchestrator.set_invocation_status")
    g6, pm6 = func_cfg(ctx.repo, so), parent_map(so.node)
    from ..flow import call_name as _cn, calls_in as _ci

    trans = [c for c in _ci(so.node) if _cn(c) == "_atomic_status_transition"]
    purges = [c for c in _ci(so.node) if _cn(c) == "set_up_invocation_auto_purge"]
    if len(trans) != 1:
        raise AnalysisError("anchor-vanished: one _atomic_status_transition call in set_invocation_status")
    tn6 = {n.id for n in cfg_node_of(g6, so.node, trans[0], pm6)}
    unreached = c01._reachable_without_normal_exit(g6, tn6)
    for c in purges:
        after = all(n.id not in unreached for n in cfg_node_of(g6, so.node, c, pm6))
        final_only = any(isinstance(t, ast.Call) and _cn(t) == "is_final" for t in conditions_at(g6, so.node, c, pm6))
        okp = after and final_only
        ctx.add("R6", f"{so.qualname}::purge-scheduled-only-after-successful-final-transition", okp, so.loc(c), "" if okp else ("the purge registration can run although the transition was refused (it precedes the transition or sits on its failure path): a non-final invocation - e.g. RUNNING, after a wrong-owner SUCCESS request - is deleted by auto_purge 24 h later" if not after else "the purge registration is not restricted to final statuses"))
    ctx.floor("R6", "purge registrations", len(purges), 1)
    # the same ordering argument at the other end of the lifecycle: a new invocation becomes visible in the queue only after it
    # is stored and has its REGISTERED record (a runner that pops an id without record drops the message: registered later,
    # queued never)
    rn = base.methods.get("register_new_invocations")
    if rn is None:
        raise AnalysisError("anchor-vanished: BaseOrchestrator.register_new_invocations")
    gr, pmr = func_cfg(ctx.repo, rn), parent_map(rn.node)
    domr = gr.dominators(exc_edges=False)
    routes = [c for c in _ci(rn.node) if _cn(c) in ("route_invocations", "route_invocation")]
    if not routes:
        raise AnalysisError("anchor-vanished: register_new_invocations routes nothing")
    for c in routes:
        rnodes = cfg_node_of(gr, rn.node, c, pmr)
        for pre in ("upsert_invocations", "_register_new_invocations"):
            pcs = [x for x in _ci(rn.node) if _cn(x) == pre]
            pn = {n.id for x in pcs for n in cfg_node_of(gr, rn.node, x, pmr)}
            okr = bool(pn) and all(domr.get(n.id, set()) & pn for n in rnodes)
            ctx.add("R6", f"{rn.qualname}::routed-only-after::{pre}", okr, rn.loc(c), "" if okr else f"the ids are put in the queue before {pre} has run on every path: a runner polling in between pops an id that has no {'stored invocation' if pre == 'upsert_invocations' else 'status record'}, cannot claim it and drops the message - the invocation is registered a moment later and is never queued again")


def run(ctx: Context) -> None:
    ctx.rule("R1", "effect paths: every lifecycle operation (role-discovered entry points) is enumerated path by path with resolved callees inlined, generators run as coroutines, loops over unknown iterables unrolled 0..K times, status requests raising exactly when the abstract status set is not within the predecessors of the request or the knowledge is stale")
    ctx.rule("R2", "after every effect (= crash point before the next one) each invocation the actor is responsible for is final, or queued in an available status, or held in PENDING/RUNNING")
    ctx.rule("R3", "the same invariant holds when the operation exits, normally or through an exception edge")
    ctx.rule("R4", "every non-final, non-available status an operation can leave an invocation in is the source status of a recovery scan")
    sm = extract(ctx.repo)
    k = 1 if ctx.tier == "quick" else 2
    eng = Engine(ctx.repo, ctx.resolver, sm, loop_k=k)
    ents = entries(ctx, eng)
    ctx.floor("R1", "lifecycle operations", len(ents), 9)
    total_paths = 0
    all_left: set[str] = set()
    nwin = nexit = 0
    for label, f, pre in ents:
        # recovery loops need two iterations to show 'the 2nd fails after the 1st succeeded'
        # two unrollings everywhere: "the 2nd element fails / is yielded after the 1st was deferred" needs two iterations
        # (recovery loops, the runner polls, and the worker's poll whose consumer may abandon the generator)
        eng.loop_k = 2
        # ... except the worker's own outer loop: it repeats one poll-and-run cycle, a second unrolling of THAT loop
        # multiplies the paths without adding effect pairs (stated bound); the polls it calls are unrolled twice
        eng.loop_k_in = {f.qualname: 1} if label.startswith("worker") else {}
        w, x, n, left = analyse_entry(ctx, eng, label, f, pre, sm)
        total_paths += n
        all_left |= left
        ctx.ok("R1", f"entry::{label}", f.loc(), f"{n} paths")
        if n == 0:
            raise AnalysisError(f"no path enumerated for {f.qualname}")
        for key, (where, detail, path) in sorted(w.items()):
            nwin += 1
            ctx.fail("R2", key, where, detail, path)
        for key, (where, detail, path) in sorted(x.items()):
            nexit += 1
            ctx.fail("R3", key, where, detail, path)
        if not w:
            ctx.ok("R2", f"{label}::no-window", f.loc())
        if not x:
            ctx.ok("R3", f"{label}::no-stranding-exit", f.loc())
    ctx.analysed["paths_enumerated"] = total_paths
    ctx.analysed["functions_inlined"] = sorted(eng.inlined)
    ctx.analysed["loop_unrolling"] = k
    # R4: recovery reach
    scanned = set()
    base = ctx.repo.cls("BaseOrchestrator")
    for nm, st in (("get_pending_invocations_for_recovery", "PENDING"), ("_get_running_invocations_for_recovery", "RUNNING")):
        ovs = [o for o in ctx.repo.overrides(base, nm) if not o.is_abstract]
        if ovs and all(f"InvocationStatus.{st}" in ast.unparse(o.node) for o in ovs):
            scanned.add(st)
    ctx.add("R4", "recovery-scans::PENDING+RUNNING", scanned == {"PENDING", "RUNNING"}, base.module.relpath, "" if scanned == {"PENDING", "RUNNING"} else f"scanned source statuses: {sorted(scanned)}")
    for st in sorted(all_left - scanned):
        ctx.fail("R4", f"left-behind-status-not-scanned::{st}", base.module.relpath, f"an operation can end with an invocation in {st} (not final, not available) and no recovery scan selects {st}")
    # R5: the orphan test of the RUNNING scan ("owner has no recent heartbeat") only works if a dead
    # worker's id is never heart-beaten again (shared with C04/R5)
    from . import c04

    ctx.rule("R5", "the recovery scan can see a crashed worker: a spawned worker never inherits the runner id of an earlier worker (C04/R5)")
    sub = Context("C04", ctx.repo, ctx.tier, ctx.seed)
    sub._resolver = ctx._resolver
    c04.r5(sub)
    for i in sub.instances:
        if i.rule == "R5":
            ctx.add("R5", i.key.split("/", 2)[2], i.ok, i.where, i.detail)
    ctx.floor("R5", "child runner id registrations", ctx.count("R5"), 3)
    r6_purge(ctx)
    # R7: what the path engine takes as given about the backends it calls: a routed batch reaches the queue entire (C08/R2),
    # and a backend write repeated by a re-executed invocation does not fail where its first execution succeeded (C16/R13)
    from . import c08, c16
    from .. import sqlmini

    ctx.rule("R7", "shared: routing adds every id of a batch to the queue exactly once (C08/R2); no SQLite INSERT fails on a key stored by an earlier execution of the same invocation (C16/R13)")
    sites = sqlmini.sites(ctx.repo)
    for mod, fn in ((c08, c08.r2), (c16, c16.r13)):
        subx = Context(mod.__name__.split(".")[-1].upper(), ctx.repo, ctx.tier, ctx.seed)
        subx._resolver = ctx._resolver
        fn(subx, sites)
        for i in subx.instances:
            ctx.add("R7", i.key.split("/", 2)[2], i.ok, i.where, i.detail)
    # every call of an accepted batch is routed: chunk loops cover every element (C19/R6)
    from . import c19

    sub19 = Context("C19", ctx.repo, ctx.tier, ctx.seed)
    sub19._resolver = ctx._resolver
    c19.r6(sub19)
    for i in sub19.instances:
        ctx.add("R7", i.key.split("/", 2)[2], i.ok, i.where, i.detail)
    # formatting / logging between two effects is taken as total by the path engine: rendering methods cannot raise (C04/R6)
    sub4 = Context("C04", ctx.repo, ctx.tier, ctx.seed)
    sub4._resolver = ctx._resolver
    c04.r6(sub4)
    for i in sub4.instances:
        ctx.add("R7", i.key.split("/", 2)[2], i.ok, i.where, i.detail)
    ctx.floor("R7", "shared obligations", ctx.count("R7"), 30)
    ctx.exhaustive = False
    ctx.not_decided += [
        "liveness ('reaches a final status as long as some runner stays alive'): needs fairness",
        "interleavings of the surviving runners after the crash",
        "crashes inside a backend call (between its own statements)",
    ]
    ctx.assumptions += [
        "calls that carry no lifecycle effect neither raise nor change the tracked state",
        "users do not declare pynenc's status errors as retriable; task bodies do not raise them",
        "after a failed status request caused by another actor's change, that actor is responsible for the invocation",
    ]
