"""SQL statements passed to ``execute``: template extraction and a small clause parser.

A statement text is an ``ast.JoinedStr`` / ``ast.Constant`` / a local variable assembled from
those.  Interpolations are kept symbolic as ``{<expr>}``.
"""

from __future__ import annotations

import ast
import re
from dataclasses import dataclass, field

from .loader import FuncInfo, Repo, walk_no_nested

EXEC_NAMES = {"execute", "executemany", "executescript"}


@dataclass
class SqlSite:
    func: FuncInfo
    call: ast.Call
    text_node: ast.AST | None
    template: str  # best-effort full text with {expr} placeholders
    pieces: list[ast.AST] = field(default_factory=list)  # every expression contributing to the text
    params: ast.AST | None = None
    conn: str = ""  # receiver expression text

    @property
    def where(self) -> str:
        return f"{self.func.module.relpath}:{self.call.lineno}"

    @property
    def verb(self) -> str:
        return verb_of(self.template)

    @property
    def tables(self) -> list[str]:
        return tables_of(self.template)


def template_of(node: ast.AST) -> str:
    if isinstance(node, ast.Constant) and isinstance(node.value, str):
        return node.value
    if isinstance(node, ast.JoinedStr):
        out = []
        for v in node.values:
            if isinstance(v, ast.Constant):
                out.append(str(v.value))
            elif isinstance(v, ast.FormattedValue):
                out.append("{" + ast.unparse(v.value) + "}")
        return "".join(out)
    if isinstance(node, ast.BinOp) and isinstance(node.op, ast.Add):
        return template_of(node.left) + template_of(node.right)
    if isinstance(node, ast.Call) and isinstance(node.func, ast.Attribute) and node.func.attr == "join":
        return "{" + ast.unparse(node) + "}"
    return "{" + ast.unparse(node) + "}"


def local_text_defs(f: FuncInfo, name: str) -> list[ast.AST]:
    """All value expressions assigned / appended to a local name, in source order."""
    out: list[tuple[int, ast.AST]] = []
    for n in walk_no_nested(f.node):
        if isinstance(n, ast.Assign):
            for t in n.targets:
                if isinstance(t, ast.Name) and t.id == name:
                    out.append((n.lineno, n.value))
        elif isinstance(n, ast.AnnAssign) and isinstance(n.target, ast.Name) and n.target.id == name and n.value is not None:
            out.append((n.lineno, n.value))
        elif isinstance(n, ast.AugAssign) and isinstance(n.target, ast.Name) and n.target.id == name:
            out.append((n.lineno, n.value))
    return [v for _, v in sorted(out, key=lambda x: x[0])]


def sites(repo: Repo) -> list[SqlSite]:
    out: list[SqlSite] = []
    for f in repo.all_functions():
        for n in walk_no_nested(f.node):
            if isinstance(n, ast.Call) and isinstance(n.func, ast.Attribute) and n.func.attr in EXEC_NAMES and n.args:
                recv = ast.unparse(n.func.value)
                # the wrapper's own delegation (self._conn.execute(sql, parameters)) is a pass-through
                text = n.args[0]
                pieces = [text]
                tmpl = template_of(text)
                if isinstance(text, ast.Name):
                    defs = local_text_defs(f, text.id)
                    if defs:
                        pieces = defs
                        tmpl = " ".join(template_of(d) for d in defs)
                        # names inside the pieces that are themselves locals built from text
                params = n.args[1] if len(n.args) > 1 else None
                out.append(SqlSite(f, n, text, tmpl, pieces, params, recv))
    return out


def verb_of(template: str) -> str:
    m = re.match(r"\s*([A-Za-z]+)(\s+OR\s+[A-Za-z]+)?", template)
    if not m:
        return "?"
    v = m.group(1).upper()
    if v == "INSERT" and m.group(2):
        return "INSERT " + " ".join(m.group(2).upper().split())
    if v == "CREATE":
        m2 = re.match(r"\s*CREATE\s+(UNIQUE\s+)?(TABLE|INDEX)\s+(IF\s+NOT\s+EXISTS)?", template, re.I)
        if m2:
            return "CREATE " + m2.group(2).upper() + (" IF NOT EXISTS" if m2.group(3) else "")
    return v


_TABLE_RE = re.compile(r"\b(FROM|INTO|UPDATE|JOIN|TABLE(?:\s+IF\s+NOT\s+EXISTS)?|ON)\s+(\{[^}]+\}|[A-Za-z_][A-Za-z_0-9]*)", re.I)


def tables_of(template: str) -> list[str]:
    out = []
    for kw, t in _TABLE_RE.findall(template):
        if kw.upper() == "ON" and not t.startswith("{"):
            continue
        if t.startswith("{"):
            out.append(t[1:-1])
        elif kw.upper() != "ON":
            out.append(t)
    return out


def target_table(template: str) -> str | None:
    """Table written by INSERT / UPDATE / DELETE."""
    v = verb_of(template)
    m = None
    if v.startswith("INSERT") or v == "REPLACE":
        m = re.search(r"\bINTO\s+(\{[^}]+\}|\w+)", template, re.I)
    elif v == "UPDATE":
        m = re.search(r"\bUPDATE\s+(\{[^}]+\}|\w+)", template, re.I)
    elif v == "DELETE":
        m = re.search(r"\bFROM\s+(\{[^}]+\}|\w+)", template, re.I)
    if not m:
        return None
    t = m.group(1)
    return t[1:-1] if t.startswith("{") else t


def set_columns(template: str) -> list[str]:
    m = re.search(r"\bSET\b(.*?)(\bWHERE\b|$)", template, re.I | re.S)
    if not m:
        return []
    cols = []
    for part in _split_top(m.group(1), ","):
        mm = re.match(r"\s*([A-Za-z_][A-Za-z_0-9]*)\s*=", part)
        if mm:
            cols.append(mm.group(1))
    return cols


def insert_columns(template: str) -> list[str]:
    m = re.search(r"\bINTO\s+(?:\{[^}]+\}|\w+)\s*\(([^)]*)\)", template, re.I | re.S)
    if not m:
        return []
    return [c.strip() for c in m.group(1).split(",") if c.strip()]


def select_columns(template: str) -> list[str]:
    m = re.search(r"\bSELECT\s+(DISTINCT\s+)?(.*?)\bFROM\b", template, re.I | re.S)
    if not m:
        return []
    return [c.strip() for c in _split_top(m.group(2), ",") if c.strip()]


def _split_top(s: str, sep: str) -> list[str]:
    out, depth, cur = [], 0, []
    for ch in s:
        if ch in "({":
            depth += 1
        elif ch in ")}":
            depth -= 1
        if ch == sep and depth == 0:
            out.append("".join(cur))
            cur = []
        else:
            cur.append(ch)
    out.append("".join(cur))
    return out


def where_clause(template: str) -> str:
    m = re.search(r"\bWHERE\b(.*?)(\bORDER\s+BY\b|\bGROUP\s+BY\b|\bLIMIT\b|$)", template, re.I | re.S)
    return " ".join(m.group(1).split()) if m else ""


_COND_RE = re.compile(
    r"^\(?\s*([A-Za-z_][A-Za-z_0-9.]*)\s*(<=|>=|<>|!=|=|<|>|\bIS\s+NOT\b|\bIS\b|\bNOT\s+IN\b|\bIN\b|\bLIKE\b)\s*(.+?)\s*\)?$",
    re.I | re.S,
)


def conditions(clause: str) -> list[tuple[str, str, str]]:
    """Top-level AND/OR-split comparisons as (column, OP, rhs); nested groups are flattened
    with their connective recorded in the column as a prefix 'OR:' when under an OR group."""
    out: list[tuple[str, str, str]] = []

    def split_kw(s: str, kw: str) -> list[str]:
        parts, depth, cur, i = [], 0, [], 0
        up = s.upper()
        k = f" {kw} "
        while i < len(s):
            ch = s[i]
            if ch == "(":
                depth += 1
            elif ch == ")":
                depth -= 1
            if depth == 0 and up.startswith(k, i):
                parts.append("".join(cur))
                cur = []
                i += len(k)
                continue
            cur.append(ch)
            i += 1
        parts.append("".join(cur))
        return [p.strip() for p in parts if p.strip()]

    def visit(s: str, under_or: bool) -> None:
        s = s.strip()
        while s.startswith("(") and s.endswith(")") and _balanced(s[1:-1]):
            s = s[1:-1].strip()
        ors = split_kw(" " + s + " ", "OR")
        if len(ors) > 1:
            for o in ors:
                visit(o, True)
            return
        ands = split_kw(" " + s + " ", "AND")
        if len(ands) > 1:
            for a in ands:
                visit(a, under_or)
            return
        m = _COND_RE.match(s)
        if m:
            col = m.group(1)
            op = " ".join(m.group(2).upper().split())
            out.append((("OR:" if under_or else "") + col, op, m.group(3).strip()))
        else:
            out.append((("OR:" if under_or else "") + "?", "?", s))

    if clause:
        visit(clause, False)
    return out


def _balanced(s: str) -> bool:
    d = 0
    for ch in s:
        if ch == "(":
            d += 1
        elif ch == ")":
            d -= 1
            if d < 0:
                return False
    return d == 0


def order_by(template: str) -> list[tuple[str, str]]:
    m = re.search(r"\bORDER\s+BY\b(.*?)(\bLIMIT\b|$)", template, re.I | re.S)
    if not m:
        return []
    out = []
    for part in _split_top(m.group(1), ","):
        toks = part.split()
        if toks:
            out.append((toks[0], (toks[1].upper() if len(toks) > 1 and toks[1].upper() in ("ASC", "DESC") else "ASC")))
    return out


def limit_of(template: str) -> str | None:
    m = re.search(r"\bLIMIT\s+(\S+)", template, re.I)
    return m.group(1) if m else None


def conflict_clause(template: str) -> str | None:
    m = re.search(r"\bON\s+CONFLICT\s*(\([^)]*\))?\s*DO\s+(NOTHING|UPDATE)", template, re.I)
    if m:
        return "DO " + m.group(2).upper()
    m = re.match(r"\s*INSERT\s+OR\s+(\w+)", template, re.I)
    if m:
        return "OR " + m.group(1).upper()
    return None


def param_exprs(site: SqlSite) -> list[ast.AST] | None:
    """Elements of the bound-parameter tuple when it is a literal tuple/list."""
    p = site.params
    if isinstance(p, (ast.Tuple, ast.List)):
        return list(p.elts)
    return None


def schema_keys(sites_: list[SqlSite]) -> dict[str, list[tuple[str, ...]]]:
    """table-expression -> key column groups (PRIMARY KEY / UNIQUE, column- or table-level, and CREATE UNIQUE INDEX)
    that an INSERT can collide on.  An ``INTEGER PRIMARY KEY AUTOINCREMENT`` column is not a collision key for an
    INSERT that does not list it."""
    out: dict[str, list[tuple[str, ...]]] = {}
    for s in sites_:
        t = s.template
        m = re.match(r"\s*CREATE\s+TABLE\s+(?:IF\s+NOT\s+EXISTS\s+)?(\{[^}]+\}|\w+)\s*\((.*)\)\s*;?\s*$", t, re.I | re.S)
        if m:
            name = m.group(1)[1:-1] if m.group(1).startswith("{") else m.group(1)
            groups = out.setdefault(name, [])
            for part in _split_top(m.group(2), ","):
                p = " ".join(part.split())
                mm = re.match(r"(PRIMARY\s+KEY|UNIQUE)\s*\(([^)]*)\)", p, re.I)
                if mm:
                    groups.append(tuple(c.strip() for c in mm.group(2).split(",")))
                    continue
                mm = re.match(r"([A-Za-z_]\w*)\s+.*?\b(PRIMARY\s+KEY|UNIQUE)\b", p, re.I)
                if mm and not re.match(r"(FOREIGN|CHECK|CONSTRAINT)\b", p, re.I):
                    if re.search(r"\bAUTOINCREMENT\b", p, re.I):
                        groups.append(("<auto>" + mm.group(1),))
                    else:
                        groups.append((mm.group(1),))
            continue
        m = re.match(r"\s*CREATE\s+UNIQUE\s+INDEX\s+(?:IF\s+NOT\s+EXISTS\s+)?\S+\s+ON\s+(\{[^}]+\}|\w+)\s*\(([^)]*)\)", t, re.I | re.S)
        if m:
            name = m.group(1)[1:-1] if m.group(1).startswith("{") else m.group(1)
            out.setdefault(name, []).append(tuple(c.strip() for c in m.group(2).split(",")))
    return out
