"""C08 - the broker delivers each routed message exactly once, first in first out.

R1 SQLite retrieve: one BEGIN IMMEDIATE critical section; DELETE keyed by the primary key of the
   row the SELECT returned; the returned id is that row's invocation id; empty queue -> None, no write
R2 one message per routing: exactly one append / INSERT per route_invocation on every path;
   route_invocations routes each element of its argument once (no de-duplication)
R3 FIFO pairing: push and pop at opposite ends of one deque; SQLite ORDER BY an
   insertion-monotone column ASC LIMIT 1
R4 count is the unfiltered length; purge is scoped to this broker's tables / queue
"""

from __future__ import annotations

import ast
import re

from .. import sqlmini
from ..critsec import sqlite_critical_section
from ..flow import call_name, calls_in, cfg_node_of, func_cfg, names_in, parent_map, self_attr
from ..loader import AnalysisError, FuncInfo, walk_no_nested
from ..report import Context
from . import c01

PROPERTY = "C08"
TECHNIQUE = "static analysis: critical-section automaton on the CFG, def-use from fetched row to DELETE key, push/pop pairing, SQL clause parsing"


def _brokers(ctx: Context):
    base = ctx.repo.cls("BaseBroker")
    subs = [c for c in base.all_subclasses()]
    if len(subs) < 2:
        raise AnalysisError("anchor-vanished: fewer than two BaseBroker implementations")
    return base, subs


def _is_sql_broker(c, sites) -> bool:
    return any(s.func.cls is c for s in sites)


def _follow_self_helpers(f: FuncInfo, depth: int = 3) -> list[FuncInfo]:
    out = [f]
    if depth == 0 or f.cls is None:
        return out
    for c in calls_in(f.node):
        if isinstance(c.func, ast.Attribute) and isinstance(c.func.value, ast.Name) and c.func.value.id == "self":
            h = f.cls.find_method(c.func.attr)
            if h is not None and h is not f and not h.is_abstract:
                for x in _follow_self_helpers(h, depth - 1):
                    if x not in out:
                        out.append(x)
    return out


def r1(ctx: Context, sites) -> None:
    ctx.rule("R1", "SQLite retrieve_invocation: BEGIN IMMEDIATE precedes the SELECT and the DELETE on one connection with no commit in between; SELECT ... LIMIT 1; the DELETE is keyed by the primary key of the fetched row; the returned id is the fetched row's invocation id; an empty result returns None before any write")
    base, subs = _brokers(ctx)
    n = 0
    for c in subs:
        f = c.methods.get("retrieve_invocation")
        if f is None or not _is_sql_broker(c, sites):
            continue
        n += 1
        opt, why_not = _optimistic_claim(ctx, c, f, sites)
        for r in sqlite_critical_section(ctx.repo, f, sites):
            if opt and not r.ok and ("::lock-before-read::" in r.key or "::no-commit-between::" in r.key):
                # optimistic pop: the unlocked SELECT only PROPOSES a row; ownership is decided by the keyed DELETE's rowcount
                ctx.ok("R1", r.key, r.where, "optimistic claim on never-reused AUTOINCREMENT ids: read outside the lock is harmless")
                continue
            detail = r.detail
            if not r.ok and why_not and ("::lock-before-read::" in r.key or "::no-commit-between::" in r.key):
                detail += f" (and it is not a sound optimistic claim either: {why_not})"
            ctx.add("R1", r.key, r.ok, r.where, detail)
        fs = [s for s in sites if s.func is f]
        sel = [s for s in fs if s.verb == "SELECT"]
        dele = [s for s in fs if s.verb == "DELETE"]
        if len(sel) != 1 or len(dele) != 1:
            ctx.fail("R1", f"{f.qualname}::one-select-one-delete", f.loc(), f"{len(sel)} SELECT and {len(dele)} DELETE statements")
            continue
        s, d = sel[0], dele[0]
        cols = [x.split(".")[-1] for x in sqlmini.select_columns(s.template)]
        ok = sqlmini.limit_of(s.template) == "1"
        ctx.add("R1", f"{f.qualname}::select-limit-1", ok, s.where, "" if ok else "the SELECT may return more than the single oldest message")
        # primary key of the queue table from its DDL
        pk = _primary_key(c, sites, sqlmini.tables_of(s.template)[0] if sqlmini.tables_of(s.template) else "")
        conds = sqlmini.conditions(sqlmini.where_clause(d.template))
        ok = len(conds) == 1 and conds[0][1] == "=" and conds[0][0].split(".")[-1] == pk
        ctx.add("R1", f"{f.qualname}::delete-by-primary-key", ok, d.where, "" if ok else f"DELETE condition {conds} is not an equality on the primary key '{pk}' (a delete by invocation id would remove every queued copy of a repeated id)")
        ps = sqlmini.param_exprs(d) or []
        okp = False
        if ps:
            col = c01._column_of_expr(f, ps[0], cols)
            okp = col == pk
        ctx.add("R1", f"{f.qualname}::delete-key-from-fetched-row", okp, d.where, "" if okp else f"the DELETE parameter {ast.unparse(ps[0]) if ps else None} is not the '{pk}' column of the row returned by the SELECT")
        # returned value
        rets = [r for r in walk_no_nested(f.node) if isinstance(r, ast.Return) and r.value is not None and not (isinstance(r.value, ast.Constant) and r.value.value is None)]
        for r in rets:
            col = c01._column_of_expr(f, r.value, cols)
            ok = col == "invocation_id"
            ctx.add("R1", f"{f.qualname}::returns-fetched-invocation-id", ok, f.loc(r), "" if ok else f"returns a value derived from column {col!r}")
        # empty result: the None-return is on the branch that tests the row, and no write is reachable from there
        g = func_cfg(ctx.repo, f)
        pm = parent_map(f.node)
        dnodes = cfg_node_of(g, f.node, d.call, pm)
        none_rets = [r for r in walk_no_nested(f.node) if isinstance(r, ast.Return) and (r.value is None or (isinstance(r.value, ast.Constant) and r.value.value is None))]
        guarded = False
        for r in none_rets:
            for anc in _ancestors(pm, r):
                if isinstance(anc, ast.If) and _mentions_row(f, anc.test, s):
                    guarded = True
        ctx.add("R1", f"{f.qualname}::empty-returns-none", guarded, f.loc(), "" if guarded else "no `if not row: return None` guard on the fetched row")
        # the DELETE is dominated by the false-arm of that guard: unreachable from the guard's true arm
        for r in none_rets:
            rn = cfg_node_of(g, f.node, r, pm)
            for a in rn:
                for b in dnodes:
                    ok = not g.reaches(a.id, b.id)
                    ctx.add("R1", f"{f.qualname}::no-write-on-empty", ok, f.loc(r), "" if ok else "a write is reachable after the empty-queue return")
    ctx.floor("R1", "SQL brokers", n, 1)


def _optimistic_claim(ctx: Context, cls, f: FuncInfo, sites) -> tuple[bool, str]:
    """peek (SELECT, unlocked) + claim (DELETE by the fetched primary key) is exactly-once iff the id is returned only when
    the DELETE removed a row (rowcount), and a primary key value can never denote a different message later: the key is
    AUTOINCREMENT and nothing resets sqlite_sequence.  Returns (sound, reason when not)."""
    fs = [s for s in sites if s.func is f]
    dele = [s for s in fs if s.verb == "DELETE"]
    if len(dele) != 1:
        return False, ""
    d = dele[0]
    rc_names = set()
    for n in walk_no_nested(f.node):
        if isinstance(n, ast.Assign) and isinstance(n.value, ast.Attribute) and n.value.attr == "rowcount" and any(x is d.call for x in ast.walk(n.value)):
            rc_names |= {t.id for t in n.targets if isinstance(t, ast.Name)}
    if not rc_names:
        return False, ""  # not an optimistic claim at all: the ordinary critical-section rule applies
    pm = parent_map(f.node)
    rets = [r for r in walk_no_nested(f.node) if isinstance(r, ast.Return) and r.value is not None and not (isinstance(r.value, ast.Constant) and r.value.value is None)]
    for r in rets:
        guarded = any(isinstance(a, ast.If) and (names_in(a.test) & rc_names) and any(r is x for b in a.body for x in ast.walk(b)) and not (isinstance(a.test, ast.UnaryOp) and isinstance(a.test.op, ast.Not)) for a in _ancestors(pm, r))
        if not guarded:
            return False, "an id is returned without testing that this consumer's DELETE removed the row"
    ddl = [s for s in sites if s.func.cls is cls and s.verb.startswith("CREATE TABLE") and any(t in s.template for t in sqlmini.tables_of(d.template))]
    if not ddl or not re.search(r"INTEGER\s+PRIMARY\s+KEY\s+AUTOINCREMENT", ddl[0].template, re.I):
        return False, "the queue's primary key is not AUTOINCREMENT: a deleted id can be handed to a later message"
    for s in sites:
        if "SQLITE_SEQUENCE" in s.template.upper() and not s.verb.startswith("SELECT"):
            return False, f"{s.func.qualname} writes sqlite_sequence ({s.where}): after that reset a new message can get the id of a row another consumer has already peeked, whose DELETE then removes the NEW message and returns the OLD id"
    return True, ""


def _ancestors(pm, node):
    cur = pm.get(id(node))
    while cur is not None:
        yield cur
        cur = pm.get(id(cur))


def _mentions_row(f: FuncInfo, test: ast.AST, sel: sqlmini.SqlSite) -> bool:
    # names in the test derive from the cursor of the select
    for nm in names_in(test):
        for v in c01._reaching_values(f, nm):
            if "fetchone" in ast.unparse(v) or "fetchall" in ast.unparse(v):
                return True
    return False


def _primary_key(cls, sites, table_attr: str) -> str:
    for s in sites:
        if s.func.cls is cls and s.verb.startswith("CREATE TABLE") and table_attr and table_attr in s.template:
            m = re.search(r"(\w+)\s+INTEGER\s+PRIMARY\s+KEY", s.template, re.I)
            if m:
                return m.group(1)
            m = re.search(r"PRIMARY\s+KEY\s*\(\s*(\w+)\s*\)", s.template, re.I)
            if m:
                return m.group(1)
    return "?"


def r2(ctx: Context, sites) -> None:
    ctx.rule("R2", "route_invocation adds exactly one message on every path (one deque append / one plain INSERT, never INSERT OR IGNORE/REPLACE); route_invocations iterates its parameter directly and routes each element once")
    base, subs = _brokers(ctx)
    for c in subs:
        f = c.methods.get("route_invocation")
        if f is None:
            ctx.fail("R2", f"{c.qualname}::route_invocation-missing", c.module.relpath, "")
            continue
        fs = _follow_self_helpers(f)
        pushes = []
        for h in fs:
            for s in sites:
                if s.func is h and s.verb.startswith(("INSERT", "REPLACE")):
                    pushes.append(("sql", h, s.call, s))
            for cc in calls_in(h.node):
                if call_name(cc) in ("append", "appendleft", "extend", "insert", "add") and self_attr(cc.func) is not None:
                    pushes.append(("mem", h, cc, None))
        ok = len(pushes) == 1
        ctx.add("R2", f"{f.qualname}::exactly-one-push", ok, f.loc(), "" if ok else f"{len(pushes)} push sites reachable from route_invocation")
        for kind, h, cc, s in pushes:
            # on every path of h (normal exits) exactly once
            g = func_cfg(ctx.repo, h)
            pm = parent_map(h.node)
            ns = cfg_node_of(g, h.node, cc, pm)
            dom = g.dominators(exc_edges=False)
            ok = bool(ns) and all(n.id in dom.get(g.exit, set()) for n in ns) and all(not any(k == "loop" for k, _ in n.ctx) for n in ns)
            ctx.add("R2", f"{h.qualname}::push-on-every-path-once", ok, h.loc(cc), "" if ok else "the push is conditional or inside a loop: a routing may add zero or several messages")
            if kind == "sql":
                ok = s.verb == "INSERT" and sqlmini.conflict_clause(s.template) is None
                ctx.add("R2", f"{h.qualname}::plain-insert", ok, s.where, "" if ok else f"{s.verb} {sqlmini.conflict_clause(s.template) or ''}: a repeated id would not add a message")
                # the value inserted is the parameter
                ps = sqlmini.param_exprs(s) or []
                ok = any(isinstance(p, ast.Name) and p.id in h.params for p in ps)
                ctx.add("R2", f"{h.qualname}::inserts-the-routed-id", ok, s.where, "" if ok else "the INSERT does not bind the routed invocation id")
            else:
                ok = call_name(cc) in ("append", "appendleft") and len(cc.args) == 1 and isinstance(cc.args[0], ast.Name) and cc.args[0].id in h.params
                ctx.add("R2", f"{h.qualname}::appends-the-routed-id", ok, h.loc(cc), "" if ok else f"{ast.unparse(cc)[:60]}")
        # the route_invocation -> helper call chain passes the id
        # batch
        fb = c.methods.get("route_invocations")
        if fb is None:
            ctx.fail("R2", f"{c.qualname}::route_invocations-missing", c.module.relpath, "")
            continue
        loops = [n for n in walk_no_nested(fb.node) if isinstance(n, ast.For)]
        p = fb.params[1] if len(fb.params) > 1 else "?"
        good = [l for l in loops if isinstance(l.iter, ast.Name) and l.iter.id == p]
        ok = False
        detail = f"no `for x in {p}` loop over the raw parameter"
        for l in good:
            body_calls = [cc for cc in calls_in(l) if call_name(cc) in ("route_invocation", "send_message", "append")]
            uncond = [cc for cc in body_calls if any(st is _stmt_of(l, cc) for st in l.body)]
            if len(body_calls) == 1 and uncond and isinstance(l.target, ast.Name) and any(isinstance(a, ast.Name) and a.id == l.target.id for a in body_calls[0].args):
                ok = True
            else:
                detail = "the loop body does not route each element exactly once"
        # bulk SQL insert alternative: executemany over the parameter
        for s in sites:
            if s.func is fb and call_name(s.call) == "executemany":
                ok = True
        # the parameter must not be rebound / de-duplicated
        for n in walk_no_nested(fb.node):
            if isinstance(n, ast.Assign) and any(isinstance(t, ast.Name) and t.id == p for t in n.targets):
                ok = False
                detail = f"the parameter {p} is rebound ({ast.unparse(n.value)[:40]})"
        ctx.add("R2", f"{fb.qualname}::each-element-once", ok, fb.loc(), "" if ok else detail)


def _stmt_of(loop: ast.For, call: ast.Call):
    for st in loop.body:
        if any(x is call for x in ast.walk(st)):
            return st if isinstance(st, ast.Expr) else None
    return None


def r3(ctx: Context, sites) -> None:
    ctx.rule("R3", "FIFO: in-memory push and pop use opposite ends of the same deque; SQLite selects ORDER BY <autoincrement key or insertion-time column> ASC LIMIT 1")
    base, subs = _brokers(ctx)
    for c in subs:
        ret = c.methods.get("retrieve_invocation")
        route = c.methods.get("route_invocation")
        if ret is None or route is None:
            continue
        if _is_sql_broker(c, sites):
            sel = [s for s in sites if s.func is ret and s.verb == "SELECT"]
            for s in sel:
                ob = sqlmini.order_by(s.template)
                tbl = sqlmini.tables_of(s.template)
                ddl = [x for x in sites if x.func.cls is c and x.verb.startswith("CREATE TABLE") and tbl and tbl[0] in x.template]
                ok = False
                detail = f"ORDER BY {ob}"
                if ob and ddl:
                    col, direction = ob[0]
                    col = col.split(".")[-1]
                    d = ddl[0].template
                    auto = re.search(rf"\b{col}\s+INTEGER\s+PRIMARY\s+KEY\s+AUTOINCREMENT", d, re.I) is not None
                    stamped = re.search(rf"\b{col}\s+REAL\s+NOT\s+NULL\s+DEFAULT\s*\(\s*julianday\('now'\)\s*\)", d, re.I) is not None
                    ins = [x for x in sites if x.func.cls is c and x.verb == "INSERT" and tbl[0] in x.template]
                    stamped_at_insert = any(re.search(rf"julianday\('now'\)", x.template) and col in sqlmini.insert_columns(x.template) for x in ins) or (stamped and all(col not in sqlmini.insert_columns(x.template) for x in ins))
                    ok = direction == "ASC" and (auto or (stamped and stamped_at_insert)) and len(ob) >= 1
                    if ok and not auto:
                        ctx.note("C08/R3 caveat: the queue is ordered by created_at = julianday('now') (millisecond resolution, wall clock); ties are broken by rowid through the index, a clock step backwards would reorder - accepted, recorded")
                    if not ok:
                        detail = f"ORDER BY {col} {direction}: not an insertion-monotone column in ascending order"
                elif not ob:
                    detail = "no ORDER BY: delivery order unspecified"
                ctx.add("R3", f"{ret.qualname}::oldest-first", ok, s.where, "" if ok else detail)
                # every writer of the queue table stamps the ordering column from the same source
                if ob and tbl:
                    col = ob[0][0].split(".")[-1]
                    stamps = {}
                    for x in sites:
                        if x.func.cls is c and x.verb.startswith(("INSERT", "REPLACE")) and tbl[0] in x.template:
                            cols = sqlmini.insert_columns(x.template)
                            if col not in cols:
                                kind = "table-default"
                            else:
                                m_ = re.search(r"VALUES\s*\((.*)\)", x.template, re.I | re.S)
                                vals = [v.strip() for v in sqlmini._split_top(m_.group(1), ",")] if m_ else []
                                v = vals[cols.index(col)] if cols.index(col) < len(vals) else "?"
                                kind = "sql:" + v if v != "?" else "bound-parameter"
                            stamps[f"{x.func.name}:{x.call.lineno}"] = kind
                    kinds = set(stamps.values())
                    okk = len(kinds) == 1 and not any(k == "bound-parameter" for k in kinds)
                    ctx.add("R3", f"{c.qualname}::all-writers-stamp-ordering-column-alike", okk, s.where,
                            "" if okk else f"the delivery order is `ORDER BY {col}` but the writers of the queue table fill {col} from different sources {stamps}: messages routed through one path sort before/after messages routed through the other regardless of arrival order")
        else:
            pops = [cc for h in _follow_self_helpers(ret) for cc in calls_in(h.node) if call_name(cc) in ("popleft", "pop") and self_attr(cc.func) is not None]
            pushes = [cc for h in _follow_self_helpers(route) for cc in calls_in(h.node) if call_name(cc) in ("append", "appendleft") and self_attr(cc.func) is not None]
            if len(pops) != 1 or len(pushes) != 1:
                ctx.fail("R3", f"{c.qualname}::one-push-one-pop", ret.loc(), f"{len(pushes)} pushes / {len(pops)} pops")
                continue
            po, pu = pops[0], pushes[0]
            pair = (call_name(pu), call_name(po), len(po.args))
            ok = pair in (("append", "popleft", 0), ("appendleft", "pop", 0)) and self_attr(po.func) == self_attr(pu.func)
            ctx.add("R3", f"{c.qualname}::opposite-ends", ok, ret.loc(po), "" if ok else f"push={ast.unparse(pu)[:40]} pop={ast.unparse(po)[:40]}: not first-in-first-out on one deque")
            attr = self_attr(po.func)
            isdq = False
            for m in c.methods.values():
                for n in walk_no_nested(m.node):
                    if isinstance(n, (ast.Assign, ast.AnnAssign)):
                        tg = n.targets[0] if isinstance(n, ast.Assign) else n.target
                        if isinstance(tg, ast.Attribute) and tg.attr == attr and n.value is not None and isinstance(n.value, ast.Call) and call_name(n.value) == "deque" and not n.value.keywords:
                            isdq = True
            ctx.add("R3", f"{c.qualname}::unbounded-deque", isdq, ret.loc(), "" if isdq else f"self.{attr} is not an unbounded deque() (a maxlen would drop messages)")
            # empty queue yields None: the pop is guarded by a truth test of the queue
            pm = parent_map(ret.node)
            guarded = any(isinstance(a, ast.If) and self_attr(a.test) == attr for a in _ancestors(pm, po)) or any(isinstance(a, ast.Try) for a in _ancestors(pm, po))
            if not guarded:
                # early-return form: `if not self.<queue>: return None` before the pop
                for st_ in walk_no_nested(ret.node):
                    if isinstance(st_, ast.If) and isinstance(st_.test, ast.UnaryOp) and isinstance(st_.test.op, ast.Not) and self_attr(st_.test.operand) == attr and st_.body and isinstance(st_.body[-1], ast.Return) and st_.lineno < po.lineno:
                        guarded = True
            ctx.add("R3", f"{c.qualname}::empty-guard", guarded, ret.loc(po), "" if guarded else "pop on an empty deque is not guarded")
            # delivery is ONE deque operation: what is handed to the caller is the value popleft()/pop() returned, not an
            # element read beforehand (deque operations are atomic, a peek followed by a pop is not)
            par = pm.get(id(po))
            popped_names = {t.id for n in walk_no_nested(ret.node) if isinstance(n, ast.Assign) and n.value is po for t in n.targets if isinstance(t, ast.Name)}
            rets_ = [r for r in walk_no_nested(ret.node) if isinstance(r, ast.Return) and r.value is not None and not (isinstance(r.value, ast.Constant) and r.value.value is None)]
            atomic = bool(rets_) and all(r.value is po or (isinstance(r.value, ast.Name) and r.value.id in popped_names) for r in rets_)
            ctx.add("R3", f"{c.qualname}::delivered-value-is-the-popped-value", atomic, ret.loc(po), "" if atomic else "the id handed to the caller is read from the queue separately from the pop (peek, then pop): two consumers can both read the same head, one removes it, the other removes the NEXT message and still returns the first - one invocation delivered twice, the other lost")
    ctx.floor("R3", "FIFO obligations", ctx.count("R3"), 3)


def r4(ctx: Context, sites) -> None:
    ctx.rule("R4", "count_invocations is the unfiltered number of queued messages; purge clears only this broker's queue (own table prefix)")
    base, subs = _brokers(ctx)
    for c in subs:
        f = c.methods.get("count_invocations")
        if f is None:
            continue
        if _is_sql_broker(c, sites):
            sel = [s for s in sites if s.func is f and s.verb == "SELECT"]
            ok = len(sel) == 1 and re.search(r"COUNT\(\s*\*\s*\)", sel[0].template, re.I) is not None and not sqlmini.where_clause(sel[0].template)
            ctx.add("R4", f"{f.qualname}::count-all", ok, f.loc(), "" if ok else "the count is filtered or not a COUNT(*)")
            q = [s for s in sites if s.func.cls is c and s.func.name == "retrieve_invocation" and s.verb == "SELECT"]
            if sel and q:
                ok = sqlmini.tables_of(sel[0].template)[:1] == sqlmini.tables_of(q[0].template)[:1]
                ctx.add("R4", f"{f.qualname}::counts-the-queue-table", ok, f.loc(), "" if ok else "count and retrieve read different tables")
            p = c.methods.get("purge")
            if p is not None:
                cs = [cc for cc in calls_in(p.node) if call_name(cc) == "delete_tables_with_prefix"]
                ok = bool(cs) and all(len(cc.args) >= 2 and ast.unparse(cc.args[1]) == "self.tables.table_prefix" for cc in cs)
                ctx.add("R4", f"{p.qualname}::scoped-purge", ok, p.loc(), "" if ok else "purge is not scoped to self.tables.table_prefix")
        else:
            rets = [r for r in walk_no_nested(f.node) if isinstance(r, ast.Return) and r.value is not None]
            ok = len(rets) == 1 and isinstance(rets[0].value, ast.Call) and call_name(rets[0].value) == "len" and self_attr(rets[0].value.args[0]) is not None
            ctx.add("R4", f"{f.qualname}::count-all", ok, f.loc(), "" if ok else "the count is not len(queue)")


def run(ctx: Context) -> None:
    sites = sqlmini.sites(ctx.repo)
    r1(ctx, sites)
    r2(ctx, sites)
    r3(ctx, sites)
    r4(ctx, sites)
    # R5: a broker operation that could not run its statement says so (shared with C16/R11, over the brokers and the
    # connection wrapper every SQLite statement goes through)
    from . import c16

    ctx.rule("R5", "shared: no broker method and no method of the SQLite connection wrapper swallows a storage error; the wrapper's bounded retry ends in the statement's own result or in an error (C16/R11) - a routing whose INSERT never ran must not return normally, a retrieval whose lock / DELETE never ran must not hand out the message")
    sub = Context("C16", ctx.repo, ctx.tier, ctx.seed)
    sub._resolver = ctx._resolver
    c16.r11(sub, lambda c: "Broker" in c.name or c.name == "SQLiteConnection")
    for i in sub.instances:
        ctx.add("R5", i.key.split("/", 2)[2], i.ok, i.where, i.detail)
    ctx.floor("R5", "broker / connection methods", ctx.count("R5"), 12)
    ctx.exhaustive = True
    ctx.not_decided += [
        "the arithmetic 'length = routed - retrieved' over operation histories (follows from R1/R2, not itself computed)",
        "statement-level interleavings of concurrent retrievers (R1 is their necessary condition; BEGIN IMMEDIATE semantics trusted)",
    ]
    ctx.assumptions += ["SQLite BEGIN IMMEDIATE serialises writers", "collections.deque append/popleft are atomic under the GIL"]
