"""Whole-program call graph (over-approximating) built with the annotation-driven resolver.

Edges: calls (class-hierarchy expanded), property / cached_property reads, function references
passed as arguments (thread targets, callbacks).  Nested functions and lambdas are attributed to
their enclosing function.  Unknown receivers fall back to name-based CHA restricted to the
`name_filter` classes (to keep `list.append` from matching a repo method called append).
"""

from __future__ import annotations

import ast
from dataclasses import dataclass, field

from .loader import ClassInfo, FuncInfo, Repo
from .resolve import Resolver


@dataclass
class Edge:
    src: str
    dst: str
    how: str
    lineno: int
    text: str


@dataclass
class CallGraph:
    repo: Repo
    edges: dict[str, list[Edge]] = field(default_factory=dict)
    unresolved: dict[str, list[tuple[int, str]]] = field(default_factory=dict)
    stats: dict[str, int] = field(default_factory=dict)

    def succ(self, q: str) -> list[Edge]:
        return self.edges.get(q, [])

    def reach(self, start: str, prune=None) -> dict[str, Edge | None]:
        """BFS; returns {reached qualname: edge by which it was first reached}."""
        seen: dict[str, Edge | None] = {start: None}
        queue = [start]
        while queue:
            cur = queue.pop(0)
            for e in self.succ(cur):
                if prune is not None and prune(e):
                    continue
                if e.dst not in seen:
                    seen[e.dst] = e
                    queue.append(e.dst)
        return seen

    def chain(self, reached: dict[str, Edge | None], target: str) -> list[Edge]:
        out: list[Edge] = []
        cur = target
        while reached.get(cur) is not None:
            e = reached[cur]
            out.append(e)
            cur = e.src
        return list(reversed(out))


def top_level_owner(f: FuncInfo) -> FuncInfo:
    while f.parent_func is not None:
        f = f.parent_func
    return f


def build(repo: Repo, rs: Resolver, name_classes: list[ClassInfo] | None = None) -> CallGraph:
    cg = CallGraph(repo)
    allowed_name_cls = None
    if name_classes is not None:
        allowed_name_cls = set()
        for c in name_classes:
            allowed_name_cls.add(c.qualname)
            for s in c.all_subclasses():
                allowed_name_cls.add(s.qualname)
    counts = {"exact": 0, "cha": 0, "name": 0, "external": 0, "unknown": 0, "property": 0, "ref": 0}
    for f in repo.all_functions():
        owner = top_level_owner(f)
        out = cg.edges.setdefault(owner.qualname, [])
        # walk own body but not nested defs (they are separate FuncInfo entries attributed to owner)
        stack = list(ast.iter_child_nodes(f.node))
        nodes = []
        while stack:
            n = stack.pop()
            if isinstance(n, (ast.FunctionDef, ast.AsyncFunctionDef, ast.ClassDef)):
                continue
            nodes.append(n)
            stack.extend(ast.iter_child_nodes(n))
        for n in nodes:
            if isinstance(n, ast.Call):
                tg, how = rs.call_targets(f, n)
                if how == "name" and allowed_name_cls is not None:
                    tg = [t for t in tg if t.cls is not None and t.cls.qualname in allowed_name_cls]
                    if not tg:
                        how = "unknown"
                counts[how] = counts.get(how, 0) + 1
                for t in tg:
                    out.append(Edge(owner.qualname, top_level_owner(t).qualname, how, n.lineno, ast.unparse(n.func)[:80]))
                if how == "unknown":
                    cg.unresolved.setdefault(owner.qualname, []).append((n.lineno, ast.unparse(n.func)[:80]))
                # function references among the arguments (thread targets, callbacks)
                for a in list(n.args) + [k.value for k in n.keywords]:
                    if isinstance(a, (ast.Attribute, ast.Name)):
                        t = rs.expr(f, a)
                        for g in t.funcs:
                            for x in rs._expand(g):
                                counts["ref"] += 1
                                out.append(Edge(owner.qualname, top_level_owner(x).qualname, "ref", n.lineno, ast.unparse(a)[:80]))
            elif isinstance(n, ast.Attribute) and isinstance(n.ctx, ast.Load):
                for p in rs.property_targets(f, n):
                    counts["property"] += 1
                    out.append(Edge(owner.qualname, top_level_owner(p).qualname, "property", n.lineno, ast.unparse(n)[:80]))
                if not isinstance(n.value, ast.Name) or True:
                    # unknown receiver reading a side-effect property name: handled by the caller's tables
                    pass
    cg.stats = counts
    return cg
