"""C15 - arguments and results round-trip unchanged and call identity is canonical.

R1 canonical identity encoding: sorted keys, both key and value hashed through an injective quoting
   (json.dumps(.., ensure_ascii=False).encode('utf-8')), distinct constant separators
R2 every argument set that reaches a Call / PreSerializedCall from a public entry was bound through
   Arguments.from_call (signature bind + apply_defaults)
R3 content addressing: key = hash of the serialized content; the stored value is the string that was
   hashed; inline/external routing compares len(serialized) with the thresholds in the documented direction
R4 nothing caller-owned is placed in the deserialised-object cache
R5 reserved prefix: a string accepted as a reference was produced by the key generator
R6 encoder/decoder agreement (shared with C05/R4)
"""

from __future__ import annotations

import ast

from .. import sqlmini
from ..flow import assigned_from, call_name, calls_in, derived_names, names_in, self_attr
from ..loader import AnalysisError, FuncInfo, walk_no_nested
from ..report import Context
from . import c01, c05

PROPERTY = "C15"
TECHNIQUE = "static analysis: shape/taint check of the identity hash inputs, who-constructs-Call provenance over the call sites, def-use in the content-addressed store, cache-insert provenance, sibling encoder/decoder tables"


def r1(ctx: Context) -> None:
    ctx.rule("R1", "compute_args_id iterates sorted(keys); every data-dependent hasher.update argument is json.dumps(<key | value of that key>, ensure_ascii=False).encode('utf-8'); key and value are separated by constant byte strings that differ from each other; CallId combines the task id with that args id")
    repo = ctx.repo
    m = repo.modules.get("pynenc.call")
    f = m.functions.get("compute_args_id") if m else None
    if f is None:
        raise AnalysisError("anchor-vanished: compute_args_id")
    p = f.params[0]
    loops = [n for n in walk_no_nested(f.node) if isinstance(n, ast.For)]
    ok = len(loops) == 1 and isinstance(loops[0].iter, ast.Call) and call_name(loops[0].iter) == "sorted" and names_in(loops[0].iter) - {"sorted"} == {p} and not loops[0].iter.keywords
    ctx.add("R1", f"{f.qualname}::iterates-sorted-keys", ok, f.loc(), "" if ok else "the identity depends on the insertion order of the argument dictionary (no sorted(keys) iteration)")
    if not loops:
        return
    loop = loops[0]
    kv = loop.target.id if isinstance(loop.target, ast.Name) else "?"
    ups = [c for c in calls_in(loop) if call_name(c) == "update"]
    enc: dict[str, ast.AST] = {}
    for n in ast.walk(loop):
        if isinstance(n, ast.Assign) and isinstance(n.targets[0], ast.Name):
            enc[n.targets[0].id] = n.value
    seps = []
    hashed_key = hashed_val = False
    for c in ups:
        a = c.args[0] if c.args else None
        if isinstance(a, ast.Constant) and isinstance(a.value, bytes):
            seps.append(a.value)
            continue
        # X.encode('utf-8') with X = json.dumps(E, ensure_ascii=False)
        ok = False
        what = "?"
        if isinstance(a, ast.Call) and call_name(a) == "encode" and isinstance(a.func, ast.Attribute):
            src = a.func.value
            if isinstance(src, ast.Name) and src.id in enc:
                src = enc[src.id]
            if isinstance(src, ast.Call) and call_name(src) == "dumps" and src.args:
                ea = any(k.arg == "ensure_ascii" and isinstance(k.value, ast.Constant) and k.value.value is False for k in src.keywords)
                other_kw = [k.arg for k in src.keywords if k.arg not in ("ensure_ascii",)]
                e = src.args[0]
                if isinstance(e, ast.Name) and e.id == kv:
                    what = "key"
                    hashed_key = hashed_key or (ea and not other_kw)
                elif isinstance(e, ast.Subscript) and ast.unparse(e.value) == p and ast.unparse(e.slice) == kv:
                    what = "value"
                    hashed_val = hashed_val or (ea and not other_kw)
                encarg = a.args[0].value if a.args and isinstance(a.args[0], ast.Constant) else ("utf-8" if not a.args else None)
                ok = ea and not other_kw and what in ("key", "value") and encarg in ("utf-8", "utf8")
        ctx.add("R1", f"{f.qualname}::hash-input::{what}", ok, f.loc(c), "" if ok else f"hashed input {ast.unparse(a)[:70] if a is not None else None} is not an injectively quoted key/value (json.dumps(x, ensure_ascii=False).encode('utf-8'))")
    ctx.add("R1", f"{f.qualname}::hashes-key-and-value", hashed_key and hashed_val, f.loc(), "" if hashed_key and hashed_val else f"key hashed: {hashed_key}, value hashed: {hashed_val}")
    ok = len(seps) >= 2 and len(set(seps)) == len(seps) and all(seps)
    ctx.add("R1", f"{f.qualname}::distinct-separators", ok, f.loc(), "" if ok else f"separators {seps}: key/value and pair boundaries are not delimited by distinct non-empty constants")
    # order of updates inside an iteration: key, sep, value, sep
    order = []
    for c in ups:
        a = c.args[0]
        order.append("sep" if isinstance(a, ast.Constant) else "data")
    ok = order == ["data", "sep", "data", "sep"]
    ctx.add("R1", f"{f.qualname}::key-sep-value-sep", ok, f.loc(), "" if ok else f"update order {order}")
    # the call id
    call = repo.cls("Call")
    cid = call.methods.get("call_id")
    aid = call.methods.get("args_id")
    ok = cid is not None and aid is not None and "CallId(task_id=self.task.task_id, args_id=self.args_id)" in ast.unparse(cid.node) and "compute_args_id(self.serialized_arguments)" in ast.unparse(aid.node)
    ctx.add("R1", "Call.call_id::task-id+args-id-of-serialized-arguments", bool(ok), cid.loc() if cid else "", "" if ok else "call identity is not (task id, compute_args_id(serialized arguments))")
    for sub in call.all_subclasses():
        for nm in ("call_id", "args_id"):
            if nm in sub.methods:
                ctx.fail("R1", f"{sub.qualname}::overrides-{nm}", sub.methods[nm].loc(), "a Call subclass computes its own identity")


def r2(ctx: Context) -> None:
    ctx.rule("R2", "every Arguments / kwargs value that reaches a Call or PreSerializedCall constructor from a public entry (Task.__call__, Task.args, parallelize, workflow and trigger execute_task) was produced by Arguments.from_call, which calls signature.bind then apply_defaults")
    repo = ctx.repo
    ar = repo.cls("Arguments")
    fc = ar.methods.get("from_call")
    if fc is None:
        raise AnalysisError("anchor-vanished: Arguments.from_call")
    g_txt = ast.unparse(fc.node)
    binds = [c for c in calls_in(fc.node) if call_name(c) == "bind"]
    defs = [c for c in calls_in(fc.node) if call_name(c) == "apply_defaults"]
    ok = len(binds) == 1 and len(defs) == 1 and binds[0].lineno < defs[0].lineno and "inspect.signature(func)" in g_txt.replace("(" + fc.params[1] + ")", "(func)") and any(isinstance(n, ast.Return) and "arguments" in ast.unparse(n.value) for n in walk_no_nested(fc.node))
    ctx.add("R2", f"{fc.qualname}::bind-then-apply-defaults", ok, fc.loc(), "" if ok else "from_call does not bind the arguments to the signature and apply the defaults before building Arguments")
    # ... on EVERY path: each return is dominated by apply_defaults and returns the bound mapping (no shortcut that
    # hands the caller's keywords through - an omitted defaulted parameter would be missing from the identity)
    from ..flow import cfg_node_of as _cno, func_cfg as _fcfg, parent_map as _pmap

    if defs:
        g2 = _fcfg(repo, fc)
        pm2 = _pmap(fc.node)
        dom2 = g2.dominators(exc_edges=False)
        dn = {n_.id for n_ in _cno(g2, fc.node, defs[0], pm2)}
        bound_names = {t.id for st in walk_no_nested(fc.node) if isinstance(st, ast.Assign) and isinstance(st.value, ast.Call) and call_name(st.value) == "bind" for t in st.targets if isinstance(t, ast.Name)}
        bad_ret = None
        for r_ in [n for n in walk_no_nested(fc.node) if isinstance(n, ast.Return) and n.value is not None]:
            rn = _cno(g2, fc.node, r_, pm2)
            dominated = all(dom2.get(x.id, set()) & dn for x in rn) and bool(rn)
            from_bound = any(isinstance(x, ast.Attribute) and x.attr == "arguments" and isinstance(x.value, ast.Name) and x.value.id in bound_names for x in ast.walk(r_.value))
            if not (dominated and from_bound):
                bad_ret = r_
        ctx.add("R2", f"{fc.qualname}::every-return-carries-the-defaults", bad_ret is None, fc.loc(bad_ret) if bad_ret is not None else fc.loc(), "" if bad_ret is None else f"`{ast.unparse(bad_ret)[:60]}` leaves from_call without the defaults applied / without the bound mapping: `f(key='k')` and `f('k')` (or a spelling that names the defaulted parameter) get different arguments, a different call id and a different concurrency key")
    ok = all(any(isinstance(a, ast.Starred) for a in b.args) and any(k.arg is None for k in b.keywords) for b in binds)
    ctx.add("R2", f"{fc.qualname}::binds-positional-and-keyword", ok, fc.loc(), "" if ok else "bind does not receive *args and **kwargs")
    # provenance of what reaches Call(...)
    sites = []
    for f in repo.all_functions():
        if f.module.name == "pynenc.call":
            continue
        for c in calls_in(f.node):
            nm = call_name(c)
            if nm in ("Call", "PreSerializedCall") and isinstance(c.func, ast.Name):
                sites.append((f, c, nm))
            if nm == "_call" and isinstance(c.func, ast.Attribute):
                sites.append((f, c, "_call"))
    ctx.floor("R2", "Call construction / _call sites", len(sites), 5)
    for f, c, nm in sites:
        if nm == "Call":
            arg = c.args[1] if len(c.args) > 1 else next((k.value for k in c.keywords if k.arg == "arguments"), None)
            if isinstance(arg, ast.Name) and arg.id in f.params and f.name == "_call":
                # the private entry forwards its parameter: its callers are checked at their own sites
                ctx.ok("R2", f"{f.qualname}::Call-forwards-parameter", f.loc(c))
                continue
            ok, why = _from_call_provenance(ctx, f, arg)
            ctx.add("R2", f"{f.qualname}::Call-arguments-bound", ok, f.loc(c), "" if ok else why)
        elif nm == "_call":
            arg = c.args[0] if c.args else None
            ok, why = _from_call_provenance(ctx, f, arg)
            ctx.add("R2", f"{f.qualname}::_call-arguments-bound", ok, f.loc(c), "" if ok else why)
        else:
            # PreSerializedCall(task, other_args=..., common_serialized_args=..., common_args=...)
            kw = {k.arg: k.value for k in c.keywords}
            oa = kw.get("other_args")
            ok, why = _kwargs_provenance(ctx, f, oa, c)
            ctx.add("R2", f"{f.qualname}::PreSerializedCall-arguments-bound", ok, f.loc(c), "" if ok else why)


def _from_call_provenance(ctx: Context, f: FuncInfo, arg: ast.AST | None, depth: int = 0) -> tuple[bool, str]:
    if arg is None:
        return False, "no arguments expression"
    if isinstance(arg, ast.Call):
        nm = call_name(arg)
        if nm == "from_call" or nm == "args":
            return True, ""
        if nm == "Arguments":
            return False, f"{ast.unparse(arg)[:70]}: the argument dictionary is wrapped without binding it to the task signature (positional/keyword spellings and omitted defaults give different call identities)"
    if isinstance(arg, ast.Name):
        if arg.id in f.params:
            # a parameter: every caller must pass a bound value
            callers = []
            for g in ctx.repo.all_functions():
                for c in calls_in(g.node):
                    if call_name(c) == f.name and g is not f:
                        callers.append((g, c))
            bad = []
            i = f.params.index(arg.id) - (1 if f.cls is not None else 0)
            for g, c in callers:
                a = c.args[i] if i < len(c.args) else next((k.value for k in c.keywords if k.arg == arg.id), None)
                if depth > 3:
                    continue
                ok, why = _from_call_provenance(ctx, g, a, depth + 1)
                if not ok:
                    bad.append(f"{g.qualname}: {why}")
            return (not bad), "; ".join(bad)
        vals = c01._reaching_values(f, arg.id)
        loops = [n for n in walk_no_nested(f.node) if isinstance(n, ast.For) and isinstance(n.target, ast.Name) and n.target.id == arg.id]
        if loops:
            return _from_call_provenance(ctx, f, loops[0].iter, depth + 1)
        if not vals:
            return False, f"{arg.id}: unknown origin"
        res = [_from_call_provenance(ctx, f, v, depth + 1) for v in vals]
        return all(r[0] for r in res), "; ".join(r[1] for r in res if not r[0])
    if isinstance(arg, ast.Call) and call_name(arg) == "prepare_arguments":
        pf = next((x for x in ctx.repo.all_functions() if x.name == "prepare_arguments"), None)
        if pf is None:
            return False, "prepare_arguments not found"
        # every appended element is task.args(...) or a user-supplied Arguments
        appended = [c.args[0] for c in calls_in(pf.node) if call_name(c) == "append" and c.args]
        ok = True
        why = []
        for a in appended:
            if isinstance(a, ast.Name):
                for v in c01._reaching_values(pf, a.id):
                    if isinstance(v, ast.Call) and call_name(v) in ("args", "from_call"):
                        continue
                    if isinstance(v, ast.Name) and v.id in [n.target.id for n in walk_no_nested(pf.node) if isinstance(n, ast.For) and isinstance(n.target, ast.Name)]:
                        continue  # an Arguments object supplied by the caller (built with task.args)
                    ok = False
                    why.append(ast.unparse(v)[:50])
        return ok, "; ".join(why)
    return False, f"{ast.unparse(arg)[:70]}: not derived from Arguments.from_call"


def _kwargs_provenance(ctx: Context, f: FuncInfo, arg: ast.AST | None, call: ast.Call) -> tuple[bool, str]:
    """other_args of a PreSerializedCall: must be <Arguments from from_call>.kwargs on every path"""
    if arg is None:
        return False, "other_args missing"
    # the comprehension variable iterates a list; find the list's definitions
    srcs: list[ast.AST] = []
    if isinstance(arg, ast.Name):
        for n in ast.walk(f.node):
            if isinstance(n, ast.comprehension) and isinstance(n.target, ast.Name) and n.target.id == arg.id:
                it = n.iter
                names = names_in(it)
                for nm in names:
                    for v in c01._reaching_values(f, nm):
                        if isinstance(v, ast.Subscript):
                            for nm2 in names_in(v.value):
                                srcs.extend(c01._reaching_values(f, nm2))
                        else:
                            srcs.append(v)
    bad = []
    for v in srcs:
        t = ast.unparse(v)
        if "prepare_arguments" in t and ".kwargs" in t:
            continue
        if isinstance(v, (ast.List,)) and not v.elts:
            continue
        bad.append(t[:60])
    if not srcs:
        return False, "cannot trace other_args"
    return (not bad), ("with common_args the raw parameter dictionaries are forwarded (" + "; ".join(bad) + "): they were never bound to the task signature, so defaults are missing and the call identity differs from the same call made directly")


def r3(ctx: Context, sites) -> None:
    ctx.rule("R3", "_generate_key derives the reference key only from the serialized content (hash of value.encode()); _maybe_store stores under that key exactly the string it hashed; values shorter than min_size_to_cache stay inline, values longer than max_size_to_cache (when set) stay inline; both stores write with replace semantics and read back by the same key")
    repo = ctx.repo
    m = repo.modules.get("pynenc.client_data_store.base_client_data_store")
    gk = m.functions.get("_generate_key") if m else None
    base = repo.cls("BaseClientDataStore")
    ms = base.methods.get("_maybe_store")
    if gk is None or ms is None:
        raise AnalysisError("anchor-vanished: _generate_key / _maybe_store")
    txt = ast.unparse(gk.node)
    p = gk.params[0]
    ok = f"hashlib.sha256({p}.encode()).hexdigest()" in txt and "ReservedKeys.CLIENT_DATA.value" in txt and not any(x in txt for x in ("time", "uuid", "random"))
    ctx.add("R3", f"{gk.qualname}::key-from-content-only", ok, gk.loc(), "" if ok else "the reference key is not a pure function of the serialized content")
    keys = assigned_from(ms.node, lambda v: isinstance(v, ast.Call) and call_name(v) == "_generate_key")
    gcalls = [c for c in calls_in(ms.node) if call_name(c) == "_generate_key"]
    scalls = [c for c in calls_in(ms.node) if call_name(c) == "_store"]
    ok = len(gcalls) == 1 and len(scalls) == 1 and ast.unparse(gcalls[0].args[0]) == ms.params[1] and isinstance(scalls[0].args[0], ast.Name) and scalls[0].args[0].id in keys and ast.unparse(scalls[0].args[1]) == ms.params[1]
    ctx.add("R3", f"{ms.qualname}::stores-hashed-string-under-its-key", ok, ms.loc(), "" if ok else "the stored string is not the string whose hash is the key")
    rets = [n for n in walk_no_nested(ms.node) if isinstance(n, ast.Return)]
    ok = bool(rets) and isinstance(rets[-1].value, ast.Name) and rets[-1].value.id in keys
    ctx.add("R3", f"{ms.qualname}::returns-the-key", ok, ms.loc(), "" if ok else "")
    # a reference handed out is a reference stored: the backend write dominates every return of the key
    from ..flow import cfg_node_of, func_cfg, parent_map

    g = func_cfg(repo, ms)
    pm = parent_map(ms.node)
    dom = g.dominators()
    store_nodes = {n.id for c in scalls for n in cfg_node_of(g, ms.node, c, pm)}
    key_returns = [r for r in rets if isinstance(r.value, ast.Name) and r.value.id in keys]
    undominated = [r for r in key_returns for n in cfg_node_of(g, ms.node, r, pm) if not (dom.get(n.id, set()) & store_nodes)]
    ok = bool(key_returns) and bool(store_nodes) and not undominated
    ctx.add("R3", f"{ms.qualname}::every-returned-key-was-written", ok, ms.loc(undominated[0]) if undominated else ms.loc(), "" if ok else "a reference key can be returned without the backend write on that path (e.g. skipped because a process-local cache knows the key): after a purge / clean-up by another process the reference dangles and cannot be resolved")
    # thresholds
    sizes = assigned_from(ms.node, lambda v: isinstance(v, ast.Call) and call_name(v) == "len" and ast.unparse(v.args[0]) == ms.params[1])
    conds = [n for n in walk_no_nested(ms.node) if isinstance(n, ast.If)]
    mn = [n for n in conds if "min_size_to_cache" in ast.unparse(n.test)]
    mx = [n for n in conds if "max_size_to_cache" in ast.unparse(n.test)]
    def inline(n): return any(isinstance(x, ast.Return) and ast.unparse(x.value) == ms.params[1] for x in n.body)
    ok = bool(mn) and isinstance(mn[0].test, ast.Compare) and isinstance(mn[0].test.ops[0], ast.Lt) and isinstance(mn[0].test.left, ast.Name) and mn[0].test.left.id in sizes and inline(mn[0])
    ctx.add("R3", f"{ms.qualname}::below-minimum-inline", ok, ms.loc(), "" if ok else "values below min_size_to_cache are not returned inline (size < min)")
    ok = bool(mx) and inline(mx[0]) and any(isinstance(x, ast.Compare) and isinstance(x.ops[0], ast.Gt) and isinstance(x.left, ast.Name) and x.left.id in sizes for x in ast.walk(mx[0].test)) and "max_size_to_cache > 0" in ast.unparse(mx[0].test)
    ctx.add("R3", f"{ms.qualname}::above-maximum-inline", ok, ms.loc(), "" if ok else "values above max_size_to_cache (when set) are not returned inline")
    for o in [x for x in repo.overrides(base, "_store") if not x.is_abstract]:
        ss = [s for s in sites if s.func is o]
        if ss:
            ps = sqlmini.param_exprs(ss[0]) or []
            ok = sqlmini.conflict_clause(ss[0].template) in ("OR REPLACE", "DO UPDATE", "DO NOTHING", "OR IGNORE") and len(ps) == 2 and ast.unparse(ps[0]) == o.params[1] and names_in(ps[1]) == {o.params[2]}
        else:
            ok = any(isinstance(n, ast.Assign) and isinstance(n.targets[0], ast.Subscript) and ast.unparse(n.targets[0].slice) == o.params[1] and ast.unparse(n.value) == o.params[2] for n in walk_no_nested(o.node))
        ctx.add("R3", f"{o.qualname}::writes-value-under-key", ok, o.loc(), "" if ok else "the backend does not store (key -> value) idempotently")
    for o in [x for x in repo.overrides(base, "_retrieve") if not x.is_abstract]:
        ss = [s for s in sites if s.func is o and s.verb == "SELECT"]
        if ss:
            conds_ = sqlmini.conditions(sqlmini.where_clause(ss[0].template))
            ok = len(conds_) == 1 and conds_[0][1] == "=" and ast.unparse((sqlmini.param_exprs(ss[0]) or [None])[0]) == o.params[1]
        else:
            ok = any(isinstance(n, ast.Subscript) and self_attr(n) == "_storage" and ast.unparse(n.slice) == o.params[1] for n in walk_no_nested(o.node))
        ctx.add("R3", f"{o.qualname}::reads-by-key", ok, o.loc(), "" if ok else "")


def r4_r5(ctx: Context) -> None:
    ctx.rule("R4", "objects inserted into the deserialised-object cache are results of serializer.deserialize (fresh), never the caller's own object")
    ctx.rule("R5", "a string that is_reference() accepts is only ever produced by _generate_key: serialize() must not pass a user string through unserialised because it starts with the reserved prefix")
    base = ctx.repo.cls("BaseClientDataStore")
    n = 0
    for m in base.methods.values():
        for c in calls_in(m.node):
            if call_name(c) == "_cache_deserialized" and len(c.args) >= 2:
                n += 1
                v = c.args[1]
                srcs = [ast.unparse(x) for nm in names_in(v) for x in c01._reaching_values(m, nm)]
                fresh = any("deserialize(" in s_ for s_ in srcs)
                is_param = isinstance(v, ast.Name) and v.id in m.params
                ok = fresh and not is_param
                ctx.add("R4", f"{m.qualname}::cache-insert-is-fresh-object", ok, m.loc(c),
                        "" if ok else f"the caller's own object `{ast.unparse(v)}` is cached under the reference key: if the caller mutates it after serialize(), resolve() in this process returns the mutated object instead of the content the reference was created from")
    ctx.floor("R4", "cache insert sites", n, 2)
    ser = base.methods.get("serialize")
    if ser is None:
        raise AnalysisError("anchor-vanished: BaseClientDataStore.serialize")
    passthrough = [x for x in walk_no_nested(ser.node) if isinstance(x, ast.If) and "is_reference" in ast.unparse(x.test) and any(isinstance(r, ast.Return) and isinstance(r.value, ast.Name) and r.value.id == ser.params[1] for r in x.body)]
    ok = not passthrough
    ctx.add("R5", f"{ser.qualname}::no-unserialised-pass-through-of-prefixed-strings", ok, ser.loc(passthrough[0]) if passthrough else ser.loc(),
            "" if ok else "a user string that merely starts with the reserved prefix is returned as if it were a reference key: resolve() then looks it up in the store (KeyError) instead of returning the string")
    isr = base.methods.get("is_reference")
    ok = isr is not None and "startswith(ReservedKeys.CLIENT_DATA.value)" in ast.unparse(isr.node)
    ctx.add("R5", "is_reference::prefix-test", bool(ok), isr.loc() if isr else "", "")


def r6(ctx: Context) -> None:
    ctx.rule("R6", "encoder / decoder tables of the JSON serializer agree key by key (shared with C05/R4)")
    sub = Context("C05", ctx.repo, ctx.tier, ctx.seed)
    c05.r4(sub)
    for i in sub.instances:
        k = i.key.split("/", 2)[2]
        if k.startswith("json-envelope"):
            ctx.add("R6", k, i.ok, i.where, i.detail)
    ctx.floor("R6", "json envelope obligations", ctx.count("R6"), 6)
    # each serializer pairs serialize with deserialize of the same library
    base = ctx.repo.cls("BaseSerializer")
    for c in base.all_subclasses():
        s, d = c.methods.get("serialize"), c.methods.get("deserialize")
        if s is None or d is None:
            ctx.fail("R6", f"{c.qualname}::both-directions", c.module.relpath, "missing serialize/deserialize")
            continue
        st, dt = ast.unparse(s.node), ast.unparse(d.node)
        pair = (("json.dumps" in st and "json.loads" in dt) or ("pickle.dumps" in st and "pickle.loads" in dt) or ("jsonpickle.encode" in st and "jsonpickle.decode" in dt))
        ctx.add("R6", f"{c.qualname}::inverse-library-calls", pair, s.loc(), "" if pair else "serialize and deserialize do not use inverse functions of one library")


def r6b(ctx: Context) -> None:
    """the JSON decoder visits the whole value: envelopes may sit at any depth of a list / dict"""
    m = ctx.repo.modules.get("pynenc.serializer.json_serializer")
    f = m.functions.get("_reconstruct_from_json") if m else None
    if f is None:
        raise AnalysisError("anchor-vanished: json_serializer._reconstruct_from_json")
    p = f.params[0]
    n = 0
    for br in [x for x in walk_no_nested(f.node) if isinstance(x, ast.If) and isinstance(x.test, ast.Call) and call_name(x.test) == "isinstance" and x.test.args and isinstance(x.test.args[0], ast.Name) and x.test.args[0].id == p]:
        kinds = ast.unparse(br.test.args[1]) if len(br.test.args) > 1 else ""
        if not any(k in kinds for k in ("list", "dict", "tuple")):
            continue
        n += 1
        raw = [r for st in br.body for r in ast.walk(st) if isinstance(r, ast.Return) and isinstance(r.value, ast.Name) and r.value.id == p]
        recursive = [r for st in br.body for r in ast.walk(st) if isinstance(r, ast.Return) and r.value is not None and any(isinstance(c, ast.Call) and call_name(c) == f.name for c in ast.walk(r.value))]
        ok = bool(recursive) and not raw
        ctx.add("R6", f"{f.qualname}::visits-every-element::{kinds}", ok, f.loc(raw[0]) if raw else f.loc(br), "" if ok else f"inside the {kinds} branch the container is returned as it is on some path: typed values (enums, exceptions, JsonSerializable objects) stored deeper in such a container come back as raw envelope dictionaries")
    ctx.floor("R6", "container branches of the JSON decoder", n, 2)


def r7(ctx: Context) -> None:
    ctx.rule("R7", "one serialisation policy for task arguments: in the call / task modules every task-argument dictionary goes through client_data_store.serialize_arguments(<dict>, <task>.conf.disable_cache_args) - the inline-vs-reference decision is part of the serialised text that argument indexes and concurrency keys compare, so a site that decides differently (per-value serialize(), another disable list) gives the same call two identities")
    repo = ctx.repo
    n = 0
    for modname in ("pynenc.call", "pynenc.task"):
        m = repo.modules.get(modname)
        if m is None:
            raise AnalysisError(f"anchor-vanished: module {modname}")
        for f in [x for x in repo.all_functions() if x.module is m]:
            for c in calls_in(f.node):
                if not isinstance(c.func, ast.Attribute):
                    continue
                recv = c.func.value
                if isinstance(recv, ast.Name):  # a local bound to the component: `cds = self.app.client_data_store`
                    from .c01 import _reaching_values

                    vals = _reaching_values(f, recv.id)
                    recv = vals[0] if len(vals) == 1 else recv
                if not (isinstance(recv, ast.Attribute) and recv.attr == "client_data_store"):
                    continue
                if c.func.attr == "serialize_arguments":
                    n += 1
                    second = c.args[1] if len(c.args) > 1 else next((k.value for k in c.keywords if k.arg == "disable_cache_args"), None)
                    ok = second is not None and isinstance(second, ast.Attribute) and second.attr == "disable_cache_args" and "conf" in ast.unparse(second)
                    ctx.add("R7", f"{f.qualname}::arguments-serialised-with-the-task-policy", ok, f.loc(c), "" if ok else f"serialize_arguments is given `{ast.unparse(second) if second is not None else None}` instead of the task's disable_cache_args")
                elif c.func.attr == "serialize":
                    n += 1
                    ctx.fail("R7", f"{f.qualname}::arguments-serialised-with-the-task-policy", f.loc(c), f"`{ast.unparse(c)[:70]}` serialises an argument value on its own, without the task's disable_cache_args: a value listed there (or '*') is externalised here and kept inline where the call is built directly - equal calls get different serialised arguments, argument indexes and concurrency keys")
    ctx.floor("R7", "argument serialisation sites", n, 3)


_LOSSY = {"normalize", "lower", "upper", "casefold", "strip", "lstrip", "rstrip", "title", "capitalize", "swapcase", "expandtabs", "round"}


def r8(ctx: Context) -> None:
    """Three shapes of 'the value that arrives is not the value that was passed'."""
    from ..flow import MUTATING_METHODS, build_cfg, cfg_node_of, parent_map, reaching_definitions
    from . import c16

    ctx.rule("R8", "values pass unchanged and unshared: (a) no lossy transform (unicode normalisation, case folding, stripping, rounding) of a value anywhere in the serializer / arguments / call / client-data-store modules; (b) in the functions that build one Arguments per element of a batch, a dictionary that is updated inside the element loop is created inside that loop (no state carried from one element to the next); (c) no client data store operation swallows a storage error (an externalised value must be stored or the call must fail: falling back to the inline form gives one call two identities) - shared with C16/R11")
    repo = ctx.repo
    n_a = 0
    for f in repo.all_functions():
        mod = f.module.name
        if not (mod.startswith("pynenc.serializer") or mod.startswith("pynenc.client_data_store") or mod in ("pynenc.arguments", "pynenc.call")):
            continue
        if f.name.lstrip("_").startswith(("deserial", "decode", "load", "reconstruct", "from_", "resolve", "retrieve", "get")):
            continue  # the read path parses stored text: trimming / case handling of markers there does not touch the user's value
        n_a += 1
        bad = [c for c in calls_in(f.node) if call_name(c) in _LOSSY and (isinstance(c.func, ast.Attribute) or call_name(c) == "round")]
        # `.strip()` & co on things that are not the user's value (module / class names, markers) are fine: only calls whose
        # receiver / argument is derived from the function's value parameters count
        vals = set(f.params[1:] if f.cls is not None else f.params)
        bad = [c for c in bad if any(isinstance(x, ast.Name) and x.id in vals for x in ast.walk(c))]
        ctx.add("R8", f"{f.qualname}::no-lossy-transform-of-the-value", not bad, f.loc(bad[0]) if bad else f.loc(), "" if not bad else f"`{ast.unparse(bad[0])[:60]}` changes the value on its way into the stored form: two different arguments get one serialised text (one call identity) and the worker receives a string / number the caller did not pass")
    ctx.floor("R8", "functions on the serialisation (write) path", n_a, 25)
    # (b) per-element dictionaries
    n_b = 0
    for f in repo.all_functions():
        if f.module.name != "pynenc.task":
            continue
        for lp in [n for n in walk_no_nested(f.node) if isinstance(n, ast.For)]:
            muts = [c for c in calls_in(lp) if isinstance(c.func, ast.Attribute) and c.func.attr in ("update", "setdefault", "pop", "clear") and isinstance(c.func.value, ast.Name)]
            muts += [t for st in ast.walk(lp) if isinstance(st, ast.Assign) for t in st.targets if isinstance(t, ast.Subscript) and isinstance(t.value, ast.Name)]
            for m_ in muts:
                nm = m_.func.value.id if isinstance(m_, ast.Call) else m_.value.id
                n_b += 1
                inside = any(isinstance(st, ast.Assign) and any(isinstance(t, ast.Name) and t.id == nm for t in st.targets) for st in ast.walk(lp))
                # defined before the loop and used per element (passed on / spread into a call) -> carried state
                used = any(isinstance(x, ast.keyword) and x.arg is None and isinstance(x.value, ast.Name) and x.value.id == nm for x in ast.walk(lp)) or any(isinstance(x, ast.Call) and any(isinstance(a, ast.Name) and a.id == nm for a in x.args) for x in ast.walk(lp))
                ok = inside or not used
                ctx.add("R8", f"{f.qualname}::per-element-dict-is-fresh::{nm}", ok, f.loc(m_), "" if ok else f"`{nm}` is created before the loop and updated for every element: a key spelled by one element (an optional parameter, an override of a common argument) is inherited by every later element that omits it - their stored arguments, identity and execution differ from the direct call")
    ctx.floor("R8", "dictionaries updated inside element loops of pynenc.task", n_b, 1)
    # (c)
    sub = Context("C16", repo, ctx.tier, ctx.seed)
    sub._resolver = ctx._resolver
    c16.r11(sub, lambda c: "ClientDataStore" in c.name)
    for i in sub.instances:
        ctx.add("R8", i.key.split("/", 2)[2], i.ok, i.where, i.detail)


def run(ctx: Context) -> None:
    sites = sqlmini.sites(ctx.repo)
    r1(ctx)
    r2(ctx)
    r3(ctx, sites)
    r4_r5(ctx)
    r6(ctx)
    r6b(ctx)
    r7(ctx)
    r8(ctx)
    ctx.exhaustive = True
    ctx.not_decided += [
        "value round-trip for each serializer (quantifies over values; pickle / jsonpickle are third-party)",
        "'same identity exactly when serialized arguments are equal' beyond the injective encoding R1 (hash collisions)",
    ]
