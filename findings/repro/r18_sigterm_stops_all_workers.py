"""C14/R4: a PersistentProcessRunner worker that receives SIGTERM sets the Manager event it SHARES with its siblings
(handle_terminate: stop_event.set()).  Every sibling leaves its loop, and every replacement is spawned with the same,
still-set event and exits at once: the pool never gets back to capacity and new work is not picked up.
Documentation only (real processes, SQLite).  Exit 1 = work submitted after the SIGTERM is not executed.
"""
import os, signal, sys, tempfile, threading, time, warnings

HERE = os.path.dirname(os.path.abspath(__file__))
tmp = tempfile.mkdtemp(prefix="_r18_")
os.environ["R18_DB"] = os.path.join(tmp, "pynenc.db")
sys.path.insert(0, HERE)
os.environ["PYTHONPATH"] = os.pathsep.join([HERE, os.environ.get("PYTHONPATH", "")])
warnings.simplefilter("ignore")


def main() -> int:
    from r18_app import app, echo
    from pynenc.invocation.status import InvocationStatus as S

    runner = app.runner
    threading.Thread(target=runner.run, daemon=True).start()

    def wait_for(cond, seconds, what):
        end = time.time() + seconds
        while not cond():
            if time.time() > end:
                return False
            time.sleep(0.05)
        return True

    if not wait_for(lambda: sum(p.is_alive() for p in list(runner.child_runner_ids.values())) == 2, 60, "start"):
        print("workers did not start"); return 2
    first = echo("before")
    wait_for(lambda: app.orchestrator.get_invocation_status(first.invocation_id) == S.SUCCESS, 60, "first")
    print("before the signal: status", app.orchestrator.get_invocation_status(first.invocation_id).name, "alive workers", sum(p.is_alive() for p in runner.child_runner_ids.values()))
    victim = next(iter(runner.child_runner_ids.values()))
    os.kill(victim.pid, signal.SIGTERM)      # one worker is terminated (deploy tooling, OOM handler, operator)
    time.sleep(3)                            # dozens of loop iterations
    later = echo("after")
    ok = wait_for(lambda: app.orchestrator.get_invocation_status(later.invocation_id) == S.SUCCESS, 20, "later")
    alive = sum(p.is_alive() for p in list(runner.child_runner_ids.values()))
    print("after the signal:  status", app.orchestrator.get_invocation_status(later.invocation_id).name, "alive workers", alive, "stop_event set:", runner.stop_event.is_set() if runner.stop_event else None)
    try:
        runner.stop_runner_loop()
    except Exception:
        pass
    return 0 if ok else 1


if __name__ == "__main__":
    rc = main()
    print("LOST CAPACITY: work submitted after one worker's SIGTERM is never executed" if rc == 1 else "ok" if rc == 0 else "setup problem")
    os._exit(rc)
