#!/usr/bin/env python3
"""False-alarm probe: behaviour-preserving rewrites of the whole tree must not change any verdict.

Creates scratch copies of /repo's packages (outside /repo and /verif, removed afterwards) where
every module is (1) re-printed with ast.unparse (all line numbers, quoting, parenthesisation and
comments change) and optionally (2) every local variable of every function is renamed; then runs
every check on the copy and compares the set of failing keys with the run on /repo itself.

usage: tools/refactor_twin.py [--rename] [--log | --flip] [props...]
  --log   adds a debug log call at the start of every function and at the end of every with-block
  --flip  swaps the arms of every two-armed if (negating the test)
  --try   wraps every function body and every for-loop body in try/except Exception: raise
  --retvar  `return <expr>` becomes `_ret = <expr>; return _ret`
  --elseret `if c: ...; return` + REST becomes `if c: ...; return  else: REST`
  --recv    `self.app.<component>.m()` goes through a local bound at the start of the function
  --annot   `x = v` becomes `x: object = v` for plain locals
"""

from __future__ import annotations

import ast
import builtins
import importlib
import shutil
import symtable
import sys
import tempfile
from pathlib import Path

sys.path.insert(0, str(Path(__file__).resolve().parent.parent))
from sa.loader import AnalysisError, Repo  # noqa: E402
from sa.report import Context  # noqa: E402
from sa.selftest import _copy_tree  # noqa: E402

PROPS = "C01 C02 C03 C04 C05 C06 C07 C08 C09 C10 C11 C12 C13 C14 C15 C16 C17 C18 C19 C20".split()


from sa.twin import Renamer, rewrite_tree  # noqa: E402


def failing(prop: str, root: Path) -> tuple[set[str], list[str]]:
    mod = importlib.import_module(f"sa.checks.{prop.lower()}")
    ctx = Context(prop, Repo(root), "quick", 0)
    mod.run(ctx)
    return {i.key for i in ctx.instances if not i.ok}, ctx.floor_failures


def main() -> int:
    args = [a for a in sys.argv[1:] if not a.startswith("--")]
    rename = "--rename" in sys.argv
    mode = next((m for m in ("log", "flip", "try", "retvar", "elseret", "recv", "annot", "kw", "pos", "params", "delegate", "sqlvar", "guard") if f"--{m}" in sys.argv), "")
    props = args or PROPS
    src = Path("/repo")
    tmp = Path(tempfile.mkdtemp(prefix="sa-twin-"))
    rc = 0
    try:
        _copy_tree(src, tmp)
        n = rewrite_tree(tmp, rename, mode)
        print(f"rewrote {n} modules (rename={rename}, mode={mode or 'unparse'}) in {tmp}")
        for p in props:
            try:
                base, bf = failing(p, src)
                twin, tf = failing(p, tmp)
            except AnalysisError as e:
                print(f"{p}: ANALYSIS-ERROR on the twin: {e}")
                rc = 1
                continue
            except Exception as e:
                print(f"{p}: internal error on the twin: {type(e).__name__}: {e}")
                rc = 1
                continue
            if base == twin and bf == tf:
                print(f"{p}: identical ({len(base)} failing keys)")
            else:
                rc = 1
                print(f"{p}: DIFFERENT  new={sorted(twin - base)[:6]}  gone={sorted(base - twin)[:6]} floors={tf}")
    finally:
        shutil.rmtree(tmp, ignore_errors=True)
    return rc


if __name__ == "__main__":
    sys.exit(main())
