#!/bin/bash
# usage: try_seed.sh <dir with patch.diff> [worktree for the demo]
# 1. (optional) confirms the demo in the worktree: passes without, fails with the change
# 2. applies the patch to /repo, runs every quick check, prints which properties raise VIOLATION, undoes the patch
D=$1; WT=$2
set -u
if [ -n "${WT:-}" ] && [ -d "$WT" ]; then
  DEMO=$(ls $D | grep -E "^(test_)?demo[^/]*\.py$" | head -1)
  ( cd $WT && git checkout -q -- . && PYTHONPATH=$WT timeout 600 /venv/bin/python $D/$DEMO >/dev/null 2>&1; echo "demo without change: exit=$?"; git apply $D/patch.diff && PYTHONPATH=$WT timeout 600 /venv/bin/python $D/$DEMO >/dev/null 2>&1; echo "demo with change:    exit=$?"; git checkout -q -- . )
fi
cd /verif
git -C /repo apply $D/patch.diff || { echo "PATCH DOES NOT APPLY to /repo"; exit 3; }
for p in C01 C02 C03 C04 C05 C06 C07 C08 C09 C10 C11 C12 C13 C14 C15 C16 C17 C18 C19 C20; do
  out=$(SA_NO_EVIDENCE=1 /venv/bin/python -m sa.run $p --tier quick 2>&1); rc=$?
  if [ $rc -ne 0 ]; then echo "== $p exit=$rc"; echo "$out" | grep -E "^  at |ANALYSIS-ERROR" | cut -c1-260 | head -6; fi
done
git -C /repo checkout -- .
echo "repo restored: $(git -C /repo status --short | wc -l) modified files"
