"""C07 - registration concurrency collapses duplicate submissions onto one invocation.

R1 lookup precedes creation: with registration concurrency enabled every path to the creation of a
   new invocation passes through the REGISTERED lookup for the registration key and its empty
   result (or the documented missing-record fall-back); the reuse path returns the found
   invocation; the raise path is guarded and preceded by no effect
R2 disabled => always a new invocation
R3 new invocations are indexed whenever registration concurrency is on (the lookup can find them)
R4 mode exhaustiveness and AND-match (shared with C06/R5)
"""

from __future__ import annotations

import ast

from .. import sqlmini
from ..flow import call_args  # noqa: I001
from ..flow import call_name, calls_in, cfg_node_of, func_cfg, names_in, parent_map
from ..loader import AnalysisError, walk_no_nested
from ..report import Context
from . import c01, c06

PROPERTY = "C07"
TECHNIQUE = "static analysis: CFG must-pass-through with guard polarity, def-use from lookup result to the reused invocation, effect-free-path check before the rejection, shared exhaustiveness rules"

EFFECT_CALLS = {"_route_new_call_invocation", "register_new_invocations", "set_invocation_status", "route_invocation", "route_invocations", "index_arguments_for_concurrency_control", "upsert_invocations"}


def implies_registration_disabled(test: ast.AST, edge: str) -> bool:
    if isinstance(test, ast.UnaryOp) and isinstance(test.op, ast.Not):
        return implies_registration_disabled(test.operand, "false" if edge == "true" else "true")
    if isinstance(test, ast.Compare) and len(test.ops) == 1 and "registration_concurrency" in ast.unparse(test.left) and ast.unparse(test.comparators[0]).endswith("DISABLED"):
        return (isinstance(test.ops[0], ast.Eq) and edge == "true") or (isinstance(test.ops[0], ast.NotEq) and edge == "false")
    if isinstance(test, ast.BoolOp):
        if isinstance(test.op, ast.Or) and edge == "false":
            return any(implies_registration_disabled(v, "false") for v in test.values)
        if isinstance(test.op, ast.And) and edge == "true":
            return any(implies_registration_disabled(v, "true") for v in test.values)
    return False


def run(ctx: Context) -> None:
    ctx.rule("R1", "route_call with registration concurrency enabled: creation of a new invocation is reachable only through the lookup get_existing_invocations(task, key args of the REGISTRATION mode, [REGISTERED]) and an emptiness test of its result (or of the state-backend record); the reuse path wraps the invocation loaded for the found id; the rejection is raised only under `call_id differs and on_diff_non_key_args_raise` and no effect precedes it")
    ctx.rule("R2", "with registration concurrency DISABLED route_call returns _route_new_call_invocation(call) unconditionally")
    ctx.rule("R3", "_route_new_call_invocation indexes the new invocation's arguments on every path on which registration concurrency is not DISABLED")
    ctx.rule("R4", "key selection per mode is exhaustive and lookups AND-combine all key pairs (shared with C06/R5)")
    repo = ctx.repo
    bo = repo.cls("BaseOrchestrator")
    f = bo.methods.get("route_call")
    if f is None:
        raise AnalysisError("anchor-vanished: BaseOrchestrator.route_call")
    p_call = f.params[1]
    g = func_cfg(repo, f)
    pm = parent_map(f.node)
    # --- the DISABLED guard
    dis_tests = [n for n in g.nodes if n.kind == "test" and n.ast is not None and (implies_registration_disabled(n.ast, "true") or implies_registration_disabled(n.ast, "false"))]
    ok = len(dis_tests) >= 1
    ctx.add("R2", f"{f.qualname}::disabled-guard-present", ok, f.loc(), "" if ok else "no test of registration_concurrency == DISABLED")
    creates = [c for c in calls_in(f.node) if call_name(c) == "_route_new_call_invocation"]
    lookups = [c for c in calls_in(f.node) if call_name(c) == "get_existing_invocations"]
    ctx.floor("R1", "creation sites in route_call", len(creates), 2)
    if dis_tests:
        t = dis_tests[0]
        lab = "true" if implies_registration_disabled(t.ast, "true") else "false"
        # R2: the disabled arm: first statement(s) return the creation unconditionally
        dom = g.dominators(exc_edges=False)
        arm = [s for s, l in g.succ[t.id] if l == lab]
        okr = False
        cur = arm[0] if arm else None
        steps = 0
        while cur is not None and steps < 6:
            nd = g.nodes[cur]
            if nd.kind == "test":
                break
            if isinstance(nd.ast, ast.Return) and isinstance(nd.ast.value, ast.Call) and call_name(nd.ast.value) == "_route_new_call_invocation" and nd.ast.value.args and ast.unparse(nd.ast.value.args[0]) == p_call:
                okr = True
                break
            nxt = [s for s, l in g.succ[cur] if l != "exc"]
            cur = nxt[0] if len(nxt) == 1 else None
            steps += 1
        ctx.add("R2", f"{f.qualname}::disabled-always-creates", okr, f.loc(t.ast), "" if okr else "the DISABLED arm does not unconditionally return a new invocation for the call")
        # R1: with the disabled edge removed, creation unreachable without passing the lookup
        ln = set()
        for c in lookups:
            for n in cfg_node_of(g, f.node, c, pm):
                ln.add(n.id)
        seen = set()
        stack = [g.entry]
        while stack:
            x = stack.pop()
            if x in seen or x in ln:
                continue
            seen.add(x)
            for s, l in g.succ[x]:
                if x == t.id and l == lab:
                    continue
                if l == "exc":
                    continue
                stack.append(s)
        for c in creates:
            cn = cfg_node_of(g, f.node, c, pm)
            # skip the one on the disabled arm
            if any(n.id == cur for n in cn) and okr:
                continue
            okc = bool(ln) and all(n.id not in seen for n in cn)
            ctx.add("R1", f"{f.qualname}::creation-only-after-lookup", okc, f.loc(c), "" if okc else "with registration concurrency enabled a new invocation can be created without looking for a REGISTERED one with the same key first")
            # guarded by an emptiness test of the lookup result / loaded record
            guard = None
            for anc in _anc(pm, c):
                if isinstance(anc, ast.If):
                    guard = anc
                    break
            okg = guard is not None and isinstance(guard.test, ast.UnaryOp) and isinstance(guard.test.op, ast.Not) and isinstance(guard.test.operand, ast.Name)
            src = ""
            if okg:
                vals = c01._reaching_values(f, guard.test.operand.id)
                src = " | ".join(ast.unparse(v)[:60] for v in vals)
                okg = any("get_existing_invocations" in ast.unparse(v) or "get_invocation" in ast.unparse(v) for v in vals)
            ctx.add("R1", f"{f.qualname}::creation-only-when-nothing-found::{guard.test.operand.id if guard is not None and okg else '?'}", okg, f.loc(c), "" if okg else f"the creation is not guarded by `not <lookup result>` ({src})")
    # the lookup arguments
    if len(lookups) != 1:
        ctx.fail("R1", f"{f.qualname}::one-lookup", f.loc(), f"{len(lookups)} lookups")
    else:
        kw = call_args(lookups[0], ["task", "key_serialized_arguments", "statuses"])
        ok = "statuses" in kw and ast.unparse(kw["statuses"]) == "[InvocationStatus.REGISTERED]"
        ctx.add("R1", f"{f.qualname}::lookup-status-filter-is-REGISTERED", ok, f.loc(lookups[0]), "" if ok else f"statuses={ast.unparse(kw.get('statuses')) if kw.get('statuses') is not None else None}")
        ka = kw.get("key_serialized_arguments")
        ok = ka is not None and "serialized_args_for_concurrency_control" in ast.unparse(ka) and "registration_concurrency" in ast.unparse(ka) and ast.unparse(ka).startswith(p_call + ".")
        ctx.add("R1", f"{f.qualname}::lookup-key-uses-registration-mode", ok, f.loc(lookups[0]), "" if ok else f"key arguments = {ast.unparse(ka)[:80] if ka is not None else None}")
        ok = "task" in kw and ast.unparse(kw["task"]) == f"{p_call}.task"
        ctx.add("R1", f"{f.qualname}::lookup-scoped-to-the-task", ok, f.loc(lookups[0]), "" if ok else "")
    # reuse path
    reuse = [c for c in calls_in(f.node) if call_name(c) == "ReusedInvocation"]
    ctx.floor("R1", "reuse sites", len(reuse), 1)
    found_names = set()
    for n in walk_no_nested(f.node):
        if isinstance(n, ast.Assign) and isinstance(n.value, ast.Call) and call_name(n.value) == "get_invocation":
            a0 = n.value.args[0] if n.value.args else None
            if isinstance(a0, ast.Name) and any("get_existing_invocations" in ast.unparse(v) for v in c01._reaching_values(f, a0.id)):
                found_names |= {t.id for t in n.targets if isinstance(t, ast.Name)}
    for c in reuse:
        ok = bool(c.args) and isinstance(c.args[0], ast.Name) and c.args[0].id in found_names
        ctx.add("R1", f"{f.qualname}::reuse-returns-the-found-invocation", ok, f.loc(c), "" if ok else f"ReusedInvocation({', '.join(ast.unparse(a) for a in c.args)}) does not wrap the invocation loaded for the id the lookup returned")
    # raise path
    raises = [n for n in walk_no_nested(f.node) if isinstance(n, ast.Raise)]
    ctx.floor("R1", "rejection sites", len(raises), 1)
    for r in raises:
        guard = None
        for anc in _anc(pm, r):
            if isinstance(anc, ast.If):
                guard = anc
                break
        ok = guard is not None and "on_diff_non_key_args_raise" in ast.unparse(guard.test)
        # and reached only when call ids differ: the equal-call-id branch returned before
        eq_ifs = [n for n in walk_no_nested(f.node) if isinstance(n, ast.If) and "call_id" in ast.unparse(n.test) and isinstance(n.test, ast.Compare) and isinstance(n.test.ops[0], ast.Eq) and any(isinstance(x, ast.Return) for x in n.body)]
        ok = ok and bool(eq_ifs) and eq_ifs[0].lineno < r.lineno
        ctx.add("R1", f"{f.qualname}::rejection-guarded", ok, f.loc(r), "" if ok else "the rejection is not restricted to 'different call id and on_diff_non_key_args_raise'")
        rn = cfg_node_of(g, f.node, r, pm)
        eff_nodes = set()
        for c in calls_in(f.node):
            if call_name(c) in EFFECT_CALLS:
                for n in cfg_node_of(g, f.node, c, pm):
                    eff_nodes.add(n.id)
        bad = any(g.reaches(e, n.id, exc_edges=False) for e in eff_nodes for n in rn)
        ctx.add("R1", f"{f.qualname}::rejection-changes-nothing", not bad, f.loc(r), "" if not bad else "an effect (registration, status, queue, index) can precede the rejection")
    # R3
    nf = bo.methods.get("_route_new_call_invocation")
    if nf is None:
        raise AnalysisError("anchor-vanished: _route_new_call_invocation")
    g2 = func_cfg(repo, nf)
    pm2 = parent_map(nf.node)
    regs = [c for c in calls_in(nf.node) if call_name(c) == "register_new_invocations"]
    idx = set()
    for c in calls_in(nf.node):
        if call_name(c) == "index_arguments_for_concurrency_control":
            for n in cfg_node_of(g2, nf.node, c, pm2):
                idx.add(n.id)
    blocked = set()
    for n in g2.nodes:
        if n.kind == "test" and n.ast is not None:
            for lab in ("true", "false"):
                if implies_registration_disabled(n.ast, lab):
                    blocked.add((n.id, lab))
    ok = bool(regs) and bool(idx)
    if ok:
        seen = set()
        stack = [n.id for c in regs for n in cfg_node_of(g2, nf.node, c, pm2)]
        while stack:
            x = stack.pop()
            if x in seen or x in idx:
                continue
            seen.add(x)
            for s, lab in g2.succ[x]:
                if lab == "exc" or (x, lab) in blocked:
                    continue
                stack.append(s)
        ok = g2.exit not in seen
    ctx.add("R3", f"{nf.qualname}::indexed-when-registration-concurrency-on", ok, nf.loc(), "" if ok else "a new invocation of a task with registration concurrency can be created without its arguments being indexed: the next submission's lookup by key cannot find it and a duplicate is created")
    # R4 shared
    sub = Context("C06", repo, ctx.tier, ctx.seed)
    sub._resolver = ctx._resolver
    c06.r5(sub, sqlmini.sites(repo))
    for i in sub.instances:
        ctx.add("R4", i.key.split("/", 2)[2], i.ok, i.where, i.detail)
    # R5 shared: the lookup can only find what is still indexed (C16/R7), and two spellings of one call must give one
    # identity (C15/R2: from_call applies the defaults on every path)
    from . import c15, c16

    ctx.rule("R5", "shared: the in-memory task / call / argument indexes lose a whole key only when it is empty (C16/R7) - a live invocation that vanished from its bucket is not found and a duplicate is registered; Arguments.from_call binds and applies the defaults on every return path (C15/R2) - the same call spelled differently gets the same identity")
    sub7 = Context("C16", repo, ctx.tier, ctx.seed)
    sub7._resolver = ctx._resolver
    c16.r7(sub7, ["BaseOrchestrator"])
    for i in sub7.instances:
        ctx.add("R5", i.key.split("/", 2)[2], i.ok, i.where, i.detail)
    sub15 = Context("C15", repo, ctx.tier, ctx.seed)
    sub15._resolver = ctx._resolver
    c15.r2(sub15)
    for i in sub15.instances:
        k = i.key.split("/", 2)[2]
        if "from_call::" in k:
            ctx.add("R5", k, i.ok, i.where, i.detail)
    ctx.floor("R5", "shared obligations", ctx.count("R5"), 4)
    ctx.exhaustive = True
    ctx.not_decided += [
        "histories of submissions interleaved with claims and completions (needs execution)",
        "concurrent submitters (check-then-create is not atomic; outside the property's quantifier, which speaks of sequential submissions)",
    ]


def _anc(pm, node):
    cur = pm.get(id(node))
    while cur is not None:
        yield cur
        cur = pm.get(id(cur))
