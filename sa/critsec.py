"""Critical-section rules shared by C02, C08 and C13.

SQLite: inside one ``with <connection> as conn`` block, ``BEGIN IMMEDIATE`` must be executed before
the first read, reads and writes must go through the same connection, and no ``commit()`` may
separate the read from the write.

In-memory: read, test and write lexically inside one ``with <lock>:`` block.
"""

from __future__ import annotations

import ast
from dataclasses import dataclass

from . import sqlmini
from .flow import call_name, calls_in, cfg_node_of, func_cfg, mem_store_writes, parent_map, self_attr
from .loader import FuncInfo, Repo, walk_no_nested

WRITE_VERBS = ("UPDATE", "DELETE", "REPLACE", "INSERT")
LOCK_STMTS = ("BEGIN IMMEDIATE", "BEGIN EXCLUSIVE")


@dataclass
class CSResult:
    ok: bool
    key: str
    where: str
    detail: str = ""


def _verb(s: sqlmini.SqlSite) -> str:
    return s.verb


def is_write(s: sqlmini.SqlSite) -> bool:
    return s.verb.startswith(WRITE_VERBS)


def is_lock(s: sqlmini.SqlSite) -> bool:
    t = " ".join(s.template.upper().split())
    return t in LOCK_STMTS


def sqlite_critical_section(repo: Repo, f: FuncInfo, all_sites: list[sqlmini.SqlSite], need_read: bool = True) -> list[CSResult]:
    """Evaluate the read-test-write discipline of one function. Returns one result per obligation."""
    out: list[CSResult] = []
    q = f.qualname
    sites = [s for s in all_sites if s.func is f]
    reads = [s for s in sites if s.verb == "SELECT"]
    writes = [s for s in sites if is_write(s)]
    locks = [s for s in sites if is_lock(s)]
    if not writes:
        out.append(CSResult(False, f"{q}::no-write", f.loc(), "no SQL write found in a function with an atomic read-test-write contract"))
        return out
    if need_read and not reads:
        # a single conditional statement (UPDATE ... WHERE expected) is atomic by itself
        if len(writes) == 1:
            out.append(CSResult(True, f"{q}::single-statement", writes[0].where))
            return out
    g = func_cfg(repo, f)
    pm = parent_map(f.node)

    def node_of(s):
        ns = cfg_node_of(g, f.node, s.call, pm)
        return ns[0] if ns else None

    dom = g.dominators()
    if not locks:
        out.append(CSResult(False, f"{q}::no-lock-statement", f.loc(), "read-test-write without BEGIN IMMEDIATE: two processes can both execute the SELECT before either writes, both pass the test and both write (check-then-act across connections)"))
        return out
    # (a) a lock statement dominates every read and write
    lock_nodes = [node_of(s) for s in locks]
    lock_nodes = [n for n in lock_nodes if n is not None]
    for s in reads + writes:
        n = node_of(s)
        if n is None:
            continue
        kind = "read" if s.verb == "SELECT" else "write"
        tbl = (sqlmini.target_table(s.template) or (s.tables[0] if s.tables else "?")).split(".")[-1]
        doms = [ln for ln in lock_nodes if ln.id in dom.get(n.id, set()) and ln.id != n.id]
        ok = bool(doms)
        # same connection as the lock, same with-block
        same = ok and any(_same_with(ln, n) and _conn_of(locks[lock_nodes.index(ln)]) == s.conn for ln in doms)
        out.append(CSResult(ok and same, f"{q}::lock-before-{kind}::{s.verb}:{tbl}", s.where,
                            "" if ok and same else ("the statement is not preceded on every path by BEGIN IMMEDIATE on the same connection inside the same with-block: two processes can both read before either writes" if not ok else "BEGIN IMMEDIATE is issued on another connection / outside this with-block")))
    # (b) no commit between a read and a later write
    commits = []
    for c in calls_in(f.node):
        if call_name(c) in ("commit", "rollback") and isinstance(c.func, ast.Attribute):
            ns = cfg_node_of(g, f.node, c, pm)
            commits.extend(ns)
    commit_ids = {n.id for n in commits}
    for r in reads:
        rn = node_of(r)
        for w in writes:
            wn = node_of(w)
            if rn is None or wn is None or rn.id == wn.id:
                continue
            if not g.reaches(rn.id, wn.id, exc_edges=False):
                continue
            # is there a path read -> commit -> write ?
            through = any(g.reaches(rn.id, c, exc_edges=False) and g.reaches(c, wn.id, exc_edges=False) for c in commit_ids)
            # only a problem if every... any such path breaks the section
            tbl = (sqlmini.target_table(w.template) or "?").split(".")[-1]
            out.append(CSResult(not through, f"{q}::no-commit-between::{w.verb}:{tbl}", w.where,
                                "" if not through else "a commit()/rollback() can execute between the read and the write: the transaction that holds the lock ends before the write"))
    # (c) writes are followed by commit or by the normal exit of the with block (sqlite3 commits on __exit__)
    return out


def _conn_of(s: sqlmini.SqlSite) -> str:
    return s.conn


def _same_with(a, b) -> bool:
    wa = [n for k, n in a.ctx if k == "with"]
    wb = [n for k, n in b.ctx if k == "with"]
    return bool(wa) and any(x is wa[-1] for x in wb)


# ------------------------------------------------------------------------------ in-memory
def lock_withs(f: FuncInfo) -> list[ast.With]:
    out = []
    for n in walk_no_nested(f.node):
        if isinstance(n, ast.With):
            out.append(n)
    return out


def inside(node: ast.AST, container: ast.AST) -> bool:
    return any(x is node for x in ast.walk(container))


def mem_section(f: FuncInfo, store_attrs: set[str], lock_pred) -> list[CSResult]:
    """Every read / write of the given store attributes in ``f`` lies inside a ``with L:``
    block whose lock expression satisfies lock_pred(expr)."""
    q = f.qualname
    out: list[CSResult] = []
    withs = [w for w in lock_withs(f) if any(lock_pred(i.context_expr) for i in w.items)]
    accesses: list[tuple[str, ast.AST]] = []
    for w in mem_store_writes(f.node, store_attrs):
        accesses.append((f"write:{w.attr}:{w.how}", w.node))
    for n in walk_no_nested(f.node):
        if isinstance(n, (ast.Subscript, ast.Call, ast.Attribute, ast.Compare)):
            if isinstance(n, ast.Compare):
                # ``k in self.store`` membership tests
                for cmp in n.comparators:
                    a = self_attr(cmp)
                    if a in store_attrs:
                        accesses.append((f"read:{a}:membership", n))
                continue
            a = self_attr(n)
            if a in store_attrs and isinstance(getattr(n, "ctx", ast.Load()), ast.Load):
                if isinstance(n, ast.Attribute) and not (isinstance(n.value, ast.Name) and n.value.id == "self"):
                    continue
                if isinstance(n, ast.Attribute):
                    continue  # the bare attribute appears inside the subscripts/calls counted above
                accesses.append((f"read:{a}", n))
    seen = set()
    for desc, n in accesses:
        ok = any(inside(n, w) and not any(inside(n, i.context_expr) for i in w.items) for w in withs)
        k = f"{q}::under-lock::{desc}"
        if k in seen and ok:
            continue
        seen.add(k)
        out.append(CSResult(ok, k, f.loc(n), "" if ok else "access to the shared store outside the lock-protected block"))
    return out
