"""C05 - a final status always comes with the matching result or exception.

R1 store before publish: the result / exception is stored synchronously, for the same invocation,
   before SUCCESS / FAILED is requested, and a failed store never continues to the publish
R2 only set_invocation_result / set_invocation_exception publish SUCCESS / FAILED; run() hands
   them the value the body returned / the exception it raised
R3 the reader refuses non-final statuses, raises the stored exception on FAILED, and trusts the
   status cache only for final statuses or within the configured TTL
R4 writer/reader agreement of the exception encodings (state backend envelope, JSON envelopes,
   PynencError subclasses)
"""

from __future__ import annotations

import ast

from .. import sqlmini
from ..flow import (ExcHierarchy, assigned_from, call_name, calls_in, cfg_node_of, func_cfg,
                    mem_store_writes, names_in, parent_map, self_attr, status_sites)
from ..loader import AnalysisError, ClassInfo, FuncInfo, walk_no_nested
from ..report import Context
from . import c01

PROPERTY = "C05"
TECHNIQUE = "static analysis: effect ordering by CFG dominance through normal exits, who-may-call, guard dominance in the reader, key-set agreement between encoder and decoder tables"

PUBLISH = {"SUCCESS": ("set_result", "_set_result", "_results", "RESULTS"), "FAILED": ("set_exception", "_set_exception", "_exceptions", "EXCEPTIONS")}


def _inside_try_swallow(f: FuncInfo, node: ast.AST, pm) -> ast.ExceptHandler | None:
    """An enclosing try whose handler does not re-raise (the failure of `node` would be swallowed)."""
    cur = pm.get(id(node))
    child = node
    while cur is not None:
        if isinstance(cur, ast.Try) and any(child is b or any(x is child for x in ast.walk(b)) for b in cur.body):
            for h in cur.handlers:
                if not any(isinstance(n, ast.Raise) for n in ast.walk(h)):
                    return h
        child = cur
        cur = pm.get(id(cur))
    return None


def r1_r2(ctx: Context, sites) -> None:
    ctx.rule("R1", "in the functions that request SUCCESS / FAILED the matching store call (set_result / set_exception) on the same invocation precedes the request on every path (the request is reachable only through the store's normal exit), is a direct synchronous call, and is not wrapped in a handler that swallows its failure; the store chain set_* -> _set_* writes the given value under the given id")
    ctx.rule("R2", "SUCCESS and FAILED are requested nowhere else; DistributedInvocation.run passes the body's return value / the caught exception object for `self`")
    repo = ctx.repo
    ss = status_sites(repo)
    n_pub = 0
    for st, (store, _store, _attr, _tbl) in PUBLISH.items():
        pubs = [s for s in ss if s.status == st]
        n_pub += len(pubs)
        for s in pubs:
            f = s.func
            expect = "set_invocation_result" if st == "SUCCESS" else "set_invocation_exception"
            ok = f.name == expect and f.cls is not None and f.cls.name == "BaseOrchestrator"
            ctx.add("R2", f"publisher::{st}::{f.qualname}", ok, s.where, "" if ok else f"{st} is requested in {f.qualname}; only {expect} stores the outcome first")
            stores = [c for c in calls_in(f.node) if call_name(c) == store]
            if not stores:
                ctx.fail("R1", f"{f.qualname}::store-before-{st}", s.where, f"{st} is published without a {store} call in the same function")
                continue
            g = func_cfg(repo, f)
            pm = parent_map(f.node)
            sn = set()
            for c in stores:
                for n in cfg_node_of(g, f.node, c, pm):
                    sn.add(n.id)
            reach = c01._reachable_without_normal_exit(g, sn)
            pn = cfg_node_of(g, f.node, s.call, pm)
            ok = all(n.id not in reach for n in pn)
            ctx.add("R1", f"{f.qualname}::store-before-{st}", ok, s.where, "" if ok else f"{st} can be published on a path that did not complete {store} first: a reader that sees the final status may find no stored outcome")
            for c in stores:
                # same invocation
                a0 = c.args[0] if c.args else None
                ok = a0 is not None and s.id_expr is not None and ast.unparse(a0) == ast.unparse(s.id_expr)
                ctx.add("R1", f"{f.qualname}::store-same-invocation::{st}", ok, f.loc(c), "" if ok else f"{store}({ast.unparse(a0) if a0 else None}) vs status for {ast.unparse(s.id_expr) if s.id_expr else None}")
                # value is the parameter
                a1 = c.args[1] if len(c.args) > 1 else None
                ok = isinstance(a1, ast.Name) and a1.id in f.params
                ctx.add("R1", f"{f.qualname}::store-the-given-value::{st}", ok, f.loc(c), "" if ok else f"stored value is {ast.unparse(a1) if a1 else None}")
                # synchronous: a direct call statement, not a thread target / executor submit
                parent = pm.get(id(c))
                ok = isinstance(parent, ast.Expr) or isinstance(parent, ast.Assign)
                ctx.add("R1", f"{f.qualname}::store-synchronous::{st}", ok, f.loc(c), "" if ok else "the store is not a plain synchronous call")
                h = _inside_try_swallow(f, c, pm)
                ctx.add("R1", f"{f.qualname}::store-failure-not-swallowed::{st}", h is None, f.loc(c), "" if h is None else "a handler swallows a failing store and execution continues to the publish")
    ctx.floor("R2", "SUCCESS/FAILED request sites", n_pub, 2)
    # thread targets referencing the store functions
    for f in repo.all_functions():
        for c in calls_in(f.node):
            if call_name(c) in ("Thread", "submit", "to_thread", "run_in_executor", "Process"):
                txt = ast.unparse(c)
                for st, (store, _store, _a, _t) in PUBLISH.items():
                    if f".{store}" in txt or f"._{store[1:] if store.startswith('_') else store}" in txt and "_set_" in txt:
                        ctx.fail("R1", f"{f.qualname}::async-store::{store}", f.loc(c), "the outcome store is started asynchronously")
    # the store chain in the state backend
    sb = repo.cls("BaseStateBackend")
    for st, (store, inner, attr, tbl) in PUBLISH.items():
        f = sb.methods.get(store)
        if f is None:
            raise AnalysisError(f"anchor-vanished: BaseStateBackend.{store}")
        inn = [c for c in calls_in(f.node) if call_name(c) == inner]
        ok = len(inn) == 1 and len(inn[0].args) == 2 and isinstance(inn[0].args[0], ast.Name) and inn[0].args[0].id == f.params[1]
        val_ok = False
        if ok:
            v = inn[0].args[1]
            src = set()
            if isinstance(v, ast.Name):
                for rv in c01._reaching_values(f, v.id):
                    src |= names_in(rv)
            val_ok = f.params[2] in src or (isinstance(v, ast.Name) and v.id == f.params[2])
            parent = parent_map(f.node).get(id(inn[0]))
            ok = isinstance(parent, ast.Expr)
        ctx.add("R1", f"{f.qualname}::delegates-synchronously", ok and val_ok, f.loc(), "" if ok and val_ok else f"{store} does not synchronously call {inner}(<id parameter>, <serialisation of the value parameter>)")
        for o in repo.overrides(sb, inner):
            if o.is_abstract:
                continue
            ws = [w for w in mem_store_writes(o.node, {attr})]
            sq = [s for s in sites if s.func is o and s.verb.startswith(("INSERT", "REPLACE", "UPDATE"))]
            if ws:
                w = ws[0].node
                ok = isinstance(w, ast.Assign) and isinstance(w.targets[0], ast.Subscript) and ast.unparse(w.targets[0].slice) == o.params[1] and ast.unparse(w.value) == o.params[2]
                ctx.add("R1", f"{o.qualname}::writes-value-under-id", ok, o.loc(w), "" if ok else ast.unparse(w)[:80])
            elif sq:
                s = sq[0]
                cols = sqlmini.insert_columns(s.template)
                ps = sqlmini.param_exprs(s) or []
                cm = dict(zip(cols, ps))
                ok = (sqlmini.target_table(s.template) or "").endswith("." + tbl) and "invocation_id" in cm and ast.unparse(cm["invocation_id"]) == o.params[1] and any(ast.unparse(v) == o.params[2] for k, v in cm.items() if k != "invocation_id")
                ctx.add("R1", f"{o.qualname}::writes-value-under-id", ok, s.where, "" if ok else f"table {sqlmini.target_table(s.template)}, columns {[(k, ast.unparse(v)) for k, v in cm.items()]}")
                ok = sqlmini.conflict_clause(s.template) in ("OR REPLACE", "DO UPDATE")
                ctx.add("R1", f"{o.qualname}::last-write-wins", ok, s.where, "" if ok else "a re-executed invocation (retry after recovery) could not replace a stale outcome")
            else:
                ctx.fail("R1", f"{o.qualname}::writes-value-under-id", o.loc(), "no store write found")
        # readers read the same slot
        getter = "_get_" + inner[len("_set_"):]
        for o in repo.overrides(sb, getter):
            if o.is_abstract:
                continue
            sq = [s for s in sites if s.func is o and s.verb == "SELECT"]
            if sq:
                ok = any(t.endswith("." + tbl) for t in sq[0].tables) and any(cn.split(".")[-1] == "invocation_id" and op == "=" for cn, op, _ in sqlmini.conditions(sqlmini.where_clause(sq[0].template)))
                ctx.add("R1", f"{o.qualname}::reads-the-written-slot", ok, o.loc(), "" if ok else f"reads {sq[0].tables}")
            else:
                subs = [n for n in walk_no_nested(o.node) if isinstance(n, ast.Subscript) and self_attr(n) == attr and ast.unparse(n.slice) == o.params[1]]
                ctx.add("R1", f"{o.qualname}::reads-the-written-slot", bool(subs), o.loc(), "" if subs else f"does not read self.{attr}[{o.params[1]}]")
    # run(): what is handed to the publishers
    f = repo.cls("DistributedInvocation").methods.get("run")
    if f is None:
        raise AnalysisError("anchor-vanished: DistributedInvocation.run")
    pm = parent_map(f.node)
    body_res = assigned_from(f.node, lambda v: isinstance(v, ast.Call) and any(isinstance(n, ast.Attribute) and n.attr == "func" for a in list(v.args) + [v.func] for n in ast.walk(a)))
    for c in calls_in(f.node):
        nm = call_name(c)
        if nm == "set_invocation_result":
            ok = len(c.args) >= 2 and ast.unparse(c.args[0]) == "self" and isinstance(c.args[1], ast.Name) and c.args[1].id in body_res
            ctx.add("R2", f"{f.qualname}::publishes-body-result", ok, f.loc(c), "" if ok else f"set_invocation_result({', '.join(ast.unparse(a) for a in c.args)}): not (self, <value returned by the task body>)")
        elif nm == "set_invocation_exception":
            h = None
            for anc in _anc(pm, c):
                if isinstance(anc, ast.ExceptHandler):
                    h = anc
                    break
            ok = h is not None and h.name is not None and len(c.args) >= 2 and ast.unparse(c.args[0]) == "self" and isinstance(c.args[1], ast.Name) and c.args[1].id == h.name
            ctx.add("R2", f"{f.qualname}::publishes-caught-exception::{ast.unparse(h.type) if h is not None and h.type is not None else '?'}", ok, f.loc(c), "" if ok else "set_invocation_exception is not given (self, <the exception caught by the enclosing handler>)")


def _anc(pm, node):
    cur = pm.get(id(node))
    while cur is not None:
        yield cur
        cur = pm.get(id(cur))


def r3(ctx: Context) -> None:
    ctx.rule("R3", "get_final_result: a stored outcome is read only behind the is_final() check (non-final raises), FAILED raises the stored exception, otherwise the stored result is returned; result/async_result wait until final before get_final_result; the status cache answers without a refresh only for a final cached status or within cached_status_time")
    repo = ctx.repo
    di = repo.cls("DistributedInvocation")
    f = di.methods.get("get_final_result")
    if f is None:
        raise AnalysisError("anchor-vanished: DistributedInvocation.get_final_result")
    g = func_cfg(repo, f)
    pm = parent_map(f.node)
    guards = [n for n in walk_no_nested(f.node) if isinstance(n, ast.If) and "is_final" in ast.unparse(n.test)]
    ok = False
    gnode = None
    for gd in guards:
        neg = isinstance(gd.test, ast.UnaryOp) and isinstance(gd.test.op, ast.Not)
        arm = gd.body if neg else gd.orelse
        if arm and all(isinstance(x, ast.Raise) or isinstance(x, ast.Expr) for x in arm) and any(isinstance(x, ast.Raise) for x in arm):
            ok = True
            gnode = gd
    ctx.add("R3", f"{f.qualname}::non-final-raises", ok, f.loc(), "" if ok else "no `if not self.status.is_final(): raise ...` guard")
    reads = [c for c in calls_in(f.node) if call_name(c) in ("get_result", "get_exception")]
    ctx.floor("R3", "outcome reads in get_final_result", len(reads), 2)
    if gnode is not None:
        tn = g.nodes_for(gnode)
        dom = g.dominators()
        for c in reads:
            cn = cfg_node_of(g, f.node, c, pm)
            ok = all(any(t.id in dom.get(n.id, set()) for t in tn) for n in cn)
            ctx.add("R3", f"{f.qualname}::read-behind-final-guard::{call_name(c)}", ok, f.loc(c), "" if ok else "a stored outcome can be returned without the is_final() check")
            a0 = c.args[0] if c.args else None
            ok = a0 is not None and ast.unparse(a0) == "self.invocation_id"
            ctx.add("R3", f"{f.qualname}::reads-own-outcome::{call_name(c)}", ok, f.loc(c), "" if ok else f"reads the outcome of {ast.unparse(a0) if a0 else None}")
    # FAILED branch raises the stored exception; otherwise returns get_result
    exc_reads = [c for c in reads if call_name(c) == "get_exception"]
    for c in exc_reads:
        par = pm.get(id(c))
        ok = isinstance(par, ast.Raise)
        br = None
        for anc in _anc(pm, c):
            if isinstance(anc, ast.If):
                br = anc
                break
        ok = ok and br is not None and "InvocationStatus.FAILED" in ast.unparse(br.test) and isinstance(br.test, ast.Compare) and isinstance(br.test.ops[0], ast.Eq)
        ctx.add("R3", f"{f.qualname}::failed-raises-stored-exception", ok, f.loc(c), "" if ok else "the stored exception is not raised exactly when status == FAILED")
    for c in [c for c in reads if call_name(c) == "get_result"]:
        par = pm.get(id(c))
        ok = isinstance(par, ast.Return)
        ctx.add("R3", f"{f.qualname}::returns-stored-result", ok, f.loc(c), "" if ok else "the stored result is not what is returned")
    # waiters
    for nm in ("result", "async_result"):
        w = di.methods.get(nm)
        if w is None:
            continue
        loops = [n for n in walk_no_nested(w.node) if isinstance(n, ast.While) and "is_final" in ast.unparse(n.test) and isinstance(n.test, ast.UnaryOp)]
        rets = [n for n in walk_no_nested(w.node) if isinstance(n, ast.Return) and n.value is not None]
        ok = bool(loops) and all(isinstance(r.value, ast.Call) and call_name(r.value) == "get_final_result" for r in rets) and bool(rets)
        # no break out of the wait loop
        ok = ok and not any(isinstance(n, ast.Break) for l in loops for n in ast.walk(l))
        ctx.add("R3", f"{w.qualname}::waits-until-final-then-reads", ok, w.loc(), "" if ok else "result does not loop `while not self.status.is_final()` and then return get_final_result()")
    # status cache
    st = di.methods.get("status")
    if st is None:
        raise AnalysisError("anchor-vanished: DistributedInvocation.status")
    early = []
    for n in walk_no_nested(st.node):
        if isinstance(n, ast.If):
            for r in n.body:
                if isinstance(r, ast.Return) and r.value is not None and "_cached_status" in ast.unparse(r.value):
                    early.append(n)
    okc = bool(early)
    for n in early:
        t = ast.unparse(n.test)
        if not ("is_final()" in t or ("cached_status_time" in t or "cache_ttl" in t) and "<" in t):
            okc = False
    ctx.add("R3", f"{st.qualname}::cache-only-final-or-fresh", okc, st.loc(), "" if okc else "the cached status is returned under another condition than 'final' or 'younger than the TTL'")
    refresh = [c for c in calls_in(st.node) if call_name(c) == "get_invocation_status"]
    ok = len(refresh) == 1 and refresh[0].args and ast.unparse(refresh[0].args[0]) == "self.invocation_id"
    ctx.add("R3", f"{st.qualname}::refreshes-own-status", ok, st.loc(), "" if ok else "the refresh does not read this invocation's status from the orchestrator")


# ------------------------------------------------------------------ R4
def _dict_keys_written(node: ast.AST, var: str | None = None) -> set[str]:
    keys = set()
    for n in ast.walk(node):
        if isinstance(n, ast.Dict):
            for k in n.keys:
                if isinstance(k, ast.Constant) and isinstance(k.value, str):
                    keys.add(k.value)
        if isinstance(n, ast.Assign):
            for t in n.targets:
                if isinstance(t, ast.Subscript) and isinstance(t.slice, ast.Constant) and isinstance(t.slice.value, str):
                    keys.add(t.slice.value)
    return keys


def _keys_read(node: ast.AST, var: str) -> set[str]:
    keys = set()
    for n in ast.walk(node):
        if isinstance(n, ast.Subscript) and isinstance(n.value, ast.Name) and n.value.id == var and isinstance(n.slice, ast.Constant) and isinstance(n.slice.value, str):
            keys.add(n.slice.value)
        if isinstance(n, ast.Call) and call_name(n) == "get" and isinstance(n.func, ast.Attribute) and isinstance(n.func.value, ast.Name) and n.func.value.id == var and n.args and isinstance(n.args[0], ast.Constant):
            keys.add(n.args[0].value)
    return keys


def r4(ctx: Context) -> None:
    ctx.rule("R4", "exception encodings agree key by key: serialize_exception/deserialize_exception; every ReservedKeys envelope written by the JSON encoder has a reader branch that reads only written keys and re-applies the exception args; every PynencError subclass serialises what its constructor needs (args included)")
    repo = ctx.repo
    sb = repo.cls("BaseStateBackend")
    ser, de = sb.methods.get("serialize_exception"), sb.methods.get("deserialize_exception")
    if ser is None or de is None:
        raise AnalysisError("anchor-vanished: serialize_exception / deserialize_exception")
    wk = _dict_keys_written(ser.node)
    var = next(iter(assigned_from(de.node, lambda v: isinstance(v, ast.Call) and call_name(v) == "loads")), "serialized_exception")
    rk = _keys_read(de.node, var)
    ok = rk <= wk and bool(rk)
    ctx.add("R4", "state-backend-envelope::reader-keys-subset-of-writer-keys", ok, de.loc(), "" if ok else f"reader uses {sorted(rk - wk)} which the writer never sets (writer: {sorted(wk)})")
    # discriminator: PynencError branch <-> from_json ; other <-> client_data_store
    s_txt, d_txt = ast.unparse(ser.node), ast.unparse(de.node)
    ok = f"isinstance({ser.params[1]}, PynencError)" in s_txt and "to_json()" in s_txt and "PynencError.from_json" in d_txt and "client_data_store.serialize" in s_txt and "client_data_store.deserialize" in d_txt
    ctx.add("R4", "state-backend-envelope::branches-paired", ok, ser.loc(), "" if ok else "the PynencError / generic branches of writer and reader are not paired (to_json<->from_json, serialize<->deserialize)")
    # deserialize reads error_name + error_data for from_json, error_data for generic
    for c in calls_in(de.node):
        if call_name(c) == "from_json":
            keys = [a.slice.value for a in c.args if isinstance(a, ast.Subscript) and isinstance(a.slice, ast.Constant)]
            ok = keys == ["error_name", "error_data"]
            ctx.add("R4", "state-backend-envelope::from_json-args", ok, de.loc(c), "" if ok else f"PynencError.from_json is given {keys}")
    # --- JSON envelopes
    jm = repo.modules.get("pynenc.serializer.json_serializer")
    if jm is None:
        raise AnalysisError("anchor-vanished: json_serializer module")
    enc = jm.classes.get("DefaultJSONEncoder")
    default = enc.methods.get("default") if enc else None
    pre = jm.functions.get("_preprocess_for_json")
    rec = jm.functions.get("_reconstruct_from_json")
    if default is None or pre is None or rec is None:
        raise AnalysisError("anchor-vanished: JSON encoder / decoder functions")
    written: dict[str, set[str]] = {}
    for fn in (default, pre):
        for n in ast.walk(fn.node):
            if isinstance(n, ast.Dict):
                for k, v in zip(n.keys, n.values):
                    if k is not None and ast.unparse(k).startswith("ReservedKeys.") and isinstance(v, ast.Dict):
                        env = ast.unparse(k).split(".")[1]
                        written.setdefault(env, set()).update(kk.value for kk in v.keys if isinstance(kk, ast.Constant))
    readers: dict[str, tuple[str, ast.If]] = {}
    for n in ast.walk(rec.node):
        if isinstance(n, ast.If) and isinstance(n.test, ast.NamedExpr) and isinstance(n.test.value, ast.Call) and call_name(n.test.value) == "get" and n.test.value.args and ast.unparse(n.test.value.args[0]).startswith("ReservedKeys."):
            env = ast.unparse(n.test.value.args[0]).split(".")[1]
            readers[env] = (n.test.target.id, n)
    ctx.floor("R4", "JSON envelopes written", len(written), 4)
    for env, keys in sorted(written.items()):
        if env not in readers:
            ctx.fail("R4", f"json-envelope::{env}::reader-branch", rec.loc(), f"the encoder writes the {env} envelope but the decoder has no branch for it")
            continue
        var, br = readers[env]
        used = set()
        for st in br.body:
            used |= _keys_read(st, var)
        ok = used <= keys
        ctx.add("R4", f"json-envelope::{env}::reader-keys-subset-of-writer-keys", ok, rec.loc(br), "" if ok else f"decoder reads {sorted(used - keys)}; encoder writes {sorted(keys)}")
        if env in ("ERROR", "CLIENT_EXCEPTION"):
            ok = "args" in keys and "args" in used and any(isinstance(a, ast.Starred) for st in br.body for c in ast.walk(st) if isinstance(c, ast.Call) for a in c.args)
            ctx.add("R4", f"json-envelope::{env}::args-round-trip", ok, rec.loc(br), "" if ok else "the exception arguments are not carried and re-applied (`cls(*args)`)")
            # encoder side: args come from obj.args
    # an envelope that carries only the class NAME is rebuilt from the builtins namespace by the
    # decoder, so the encoder may use it only for classes whose module is builtins
    pm_ = {}
    for n_ in ast.walk(default.node):
        for ch in ast.iter_child_nodes(n_):
            pm_[id(ch)] = n_
    for n_ in ast.walk(default.node):
        if isinstance(n_, ast.Dict):
            for k_, v_ in zip(n_.keys, n_.values):
                if k_ is not None and ast.unparse(k_).startswith("ReservedKeys.") and isinstance(v_, ast.Dict):
                    env = ast.unparse(k_).split(".")[1]
                    keys_ = {kk.value for kk in v_.keys if isinstance(kk, ast.Constant)}
                    if "module" in keys_ or env not in readers:
                        continue
                    rtxt = " ".join(ast.unparse(st) for st in readers[env][1].body)
                    if "builtins" not in rtxt:
                        continue
                    guard = None
                    cur = pm_.get(id(n_))
                    while cur is not None:
                        if isinstance(cur, ast.If) and any(x is n_ for st in cur.body for x in ast.walk(st)) and "isinstance" not in ast.unparse(cur.test):
                            guard = cur
                            break
                        cur = pm_.get(id(cur))
                    gt = ast.unparse(guard.test) if guard is not None else ""
                    ok = guard is not None and "__module__" in gt and "builtins" in gt and isinstance(guard.test, ast.Compare) and isinstance(guard.test.ops[0], ast.Eq)
                    ctx.add("R4", f"json-envelope::{env}::name-only-envelope-restricted-to-builtins", ok, default.loc(n_),
                            "" if ok else f"the {env} envelope stores only the class name and the decoder rebuilds it with getattr(builtins, name), but the encoder selects it under `{gt}`: a user exception class whose name shadows a builtin (e.g. a library's ConnectionError) comes back as the builtin class")
    for env in readers:
        if env not in written:
            ctx.fail("R4", f"json-envelope::{env}::writer", rec.loc(), f"the decoder handles {env} but the encoder never writes it")
    for n in ast.walk(default.node):
        if isinstance(n, ast.Dict):
            for k, v in zip(n.keys, n.values):
                if isinstance(k, ast.Constant) and k.value == "args":
                    ok = ast.unparse(v).endswith(".args")
                    ctx.add("R4", "json-envelope::encoder-args-source", ok, default.loc(n), "" if ok else f"'args' is filled from {ast.unparse(v)}")
    # --- PynencError subclasses
    pe = repo.cls("PynencError")
    base_to = pe.methods.get("_to_json_dict")
    base_from = pe.methods.get("_from_json_dict")
    if base_to is None or base_from is None:
        raise AnalysisError("anchor-vanished: PynencError._to_json_dict/_from_json_dict")
    base_carries_args = "args" in ast.unparse(base_to.node) and "args" in ast.unparse(base_from.node)
    # the arguments are carried AS THEY ARE (list(self.args) / self.args): converting them (str(), repr(), a comprehension over
    # them) changes what the reader rebuilds - RetryError("throttled", 3) comes back as RetryError("throttled", "3")
    for d_ in [n_ for n_ in ast.walk(base_to.node) if isinstance(n_, ast.Dict)]:
        for k_, v_ in zip(d_.keys, d_.values):
            if isinstance(k_, ast.Constant) and k_.value == "args":
                plain = (isinstance(v_, ast.Attribute) and v_.attr == "args") or (isinstance(v_, ast.Call) and isinstance(v_.func, ast.Name) and v_.func.id in ("list", "tuple") and len(v_.args) == 1 and isinstance(v_.args[0], ast.Attribute) and v_.args[0].attr == "args")
                ctx.add("R4", "pynenc-error::PynencError::args-stored-unchanged", plain, base_to.loc(v_), "" if plain else f"'args' is stored as `{ast.unparse(v_)[:60]}`, not as the arguments themselves: a non-string argument changes type on the distributed path (the worker's error is serialised, the sync mode re-raises the original object)")
                # ... and WHENEVER there are any: the branch that stores them is taken for every non-empty args tuple, not
                # depending on what the arguments are (`any(self.args)` drops RetryError(0) / RetryError(""))
                from ..flow import conditions_at as _cat, func_cfg as _fc, parent_map as _pmp

                conds_ = _cat(_fc(repo, base_to), base_to.node, d_, _pmp(base_to.node))
                value_dep = [c_ for c_ in conds_ if any(isinstance(x, ast.Attribute) and x.attr == "args" for x in ast.walk(c_)) and not (isinstance(c_, ast.Attribute) and c_.attr == "args") and not (isinstance(c_, ast.Compare) and isinstance(c_.left, ast.Call) and call_name(c_.left) == "len")]
                ctx.add("R4", "pynenc-error::PynencError::args-stored-whenever-present", not value_dep, base_to.loc(d_), "" if not value_dep else f"the arguments are stored only when `{ast.unparse(value_dep[0])[:60]}`: an error whose arguments are all falsy (0, '', False) is stored without them and read back as an error without arguments - the distributed path then raises something else than the sync path")
    n_cls = 0
    args_only: list[str] = []
    for c in [pe] + pe.all_subclasses():
        n_cls += 1
        init = None
        to = None
        fr = None
        for k in c.mro():
            if init is None and "__init__" in k.methods:
                init = k.methods["__init__"]
            if to is None and "_to_json_dict" in k.methods:
                to = k.methods["_to_json_dict"]
            if fr is None and "_from_json_dict" in k.methods:
                fr = k.methods["_from_json_dict"]
        where = c.module.relpath + f":{c.node.lineno}"
        if init is None:
            # Exception(*args): args must be carried by the (inherited) base implementation
            ok = (to is not base_to and "args" in ast.unparse(to.node)) or base_carries_args
            if ok:
                ctx.ok("R4", f"pynenc-error::{c.name}::args-carried", where)
            elif to is base_to:
                args_only.append(c.name)  # one root cause: the base implementation
            else:
                ctx.fail("R4", f"pynenc-error::{c.name}::args-carried", where, f"{c.name} overrides _to_json_dict without carrying Exception.args")
            continue
        params = [p for p in init.params[1:]]
        if to is base_to:
            # base serialises __dict__: every ctor param must be stored as attribute of the same name
            attrs = {t.attr for n in walk_no_nested(init.node) if isinstance(n, (ast.Assign, ast.AnnAssign)) for t in (n.targets if isinstance(n, ast.Assign) else [n.target]) if isinstance(t, ast.Attribute) and isinstance(t.value, ast.Name) and t.value.id == "self"}
            required = [p.arg for p, d in _required(init)]
            ok = set(required) <= attrs and attrs <= set(params)
            ctx.add("R4", f"pynenc-error::{c.name}::dict-matches-ctor", ok, where, "" if ok else f"__dict__ keys {sorted(attrs)} vs constructor parameters {params}")
        else:
            keys = _dict_keys_written(to.node)
            # reader: keys used by _from_json_dict
            var = fr.params[1] if len(fr.params) > 1 else "json_dict"
            used = _keys_read(fr.node, var)
            star = any(isinstance(k.value, ast.Name) and k.value.id == var for cc in calls_in(fr.node) for k in cc.keywords if k.arg is None)
            inherits_parent_keys = "super()._to_json_dict()" in ast.unparse(to.node)
            if inherits_parent_keys:
                for k in c.mro()[1:]:
                    if "_to_json_dict" in k.methods:
                        keys |= _dict_keys_written(k.methods["_to_json_dict"].node)
            ok = used <= keys or star
            ctx.add("R4", f"pynenc-error::{c.name}::reader-keys-written", ok, where, "" if ok else f"_from_json_dict reads {sorted(used - keys)}, _to_json_dict writes {sorted(keys)}")
    ctx.add("R4", "pynenc-error::base-to-json-carries-args", not args_only, base_to.loc(),
            "" if not args_only else f"PynencError._to_json_dict serialises only __dict__ and _from_json_dict calls cls(**dict): the {len(args_only)} error classes without their own __init__ ({', '.join(sorted(args_only))}) lose Exception.args - a task failing with RetryError('try later') is read back as RetryError()")
    ctx.floor("R4", "PynencError classes", n_cls, 15)
    # the reader finds the class of ANY error a body can raise, also of a class defined after the first failure was read:
    # the subclass tree is walked in the call (or re-walked on a miss), not memoised once under a class-level guard
    fj = pe.methods.get("from_json")
    if fj is None:
        raise AnalysisError("anchor-vanished: PynencError.from_json")
    from ..flow import conditions_at, func_cfg

    walks = [c for c in calls_in(fj.node) if call_name(c) in ("get_all_subclasses", "build_class_cache", "__subclasses__")]
    okw = False
    whyw = "no walk of the subclass tree (get_all_subclasses / build_class_cache / __subclasses__) in PynencError.from_json"
    if walks:
        g = func_cfg(repo, fj)
        pmj = parent_map(fj.node)
        for w in walks:
            conds = conditions_at(g, fj.node, w, pmj)
            memo = [c_ for c_ in conds if any(isinstance(x, ast.Attribute) and isinstance(x.value, ast.Name) and x.value.id in ("cls", "PynencError", "self") for x in ast.walk(c_))]
            if not memo:
                okw = True
            else:
                whyw = f"the subclass tree is walked only under `{ast.unparse(memo[0])[:60]}` - a class-level memo filled once: an error class defined (module imported) after the first failure was read is unknown to every later read in this process, FAILED then yields ValueError('Unknown error type') instead of the body's exception"
    ctx.add("R4", "pynenc-error::from_json::walks-the-live-subclass-tree", okw, fj.loc(walks[0]) if walks else fj.loc(), "" if okw else whyw)


def _required(init: FuncInfo):
    a = init.node.args
    ps = a.posonlyargs + a.args
    ds = [None] * (len(ps) - len(a.defaults)) + list(a.defaults)
    return [(p, d) for p, d in list(zip(ps, ds))[1:] if d is None]


def r6(ctx: Context, sites) -> None:
    """What a final status points at stays readable: the outcome stores only grow."""
    from ..flow import mem_store_writes
    from . import c16

    ctx.rule("R6", "a stored outcome stays stored: the containers / tables written by _set_result and _set_exception are changed by nothing else than these two writers (each inserting into its own store only) and purge - a late writer (a stale runner whose status request is refused afterwards) cannot remove what a published SUCCESS / FAILED points at; and no operation of the stores that hold outcomes (state backends, client data stores) swallows a storage error (C16/R11): a write that did not happen is not reported as done")
    base = ctx.repo.cls("BaseStateBackend")
    n = 0
    for c in [x for x in ctx.repo.classes.values() if x is not base and base in x.mro() and x.module.name.startswith("pynenc.")]:
        setters = {nm: c.methods.get(nm) for nm in ("_set_result", "_set_exception")}
        if any(v is None for v in setters.values()):
            continue
        own: dict[str, set[str]] = {}
        for nm, f in setters.items():
            mem = {w.attr for w in mem_store_writes(f.node)}
            sql = {(sqlmini.target_table(x.template) or "?").split(".")[-1] for x in sites if x.func is f and x.verb.split()[0] in ("INSERT", "REPLACE", "UPDATE", "DELETE")}
            own[nm] = {("mem", a) for a in mem} | {("sql", t) for t in sql}
        stores = own["_set_result"] | own["_set_exception"]
        shared = own["_set_result"] & own["_set_exception"]
        ctx.add("R6", f"{c.qualname}::result-and-exception-stores-are-disjoint", not shared, c.module.relpath, "" if not shared else f"both writers change {sorted(k[1] for k in shared)}: storing one kind of outcome alters the other")
        if not own["_set_result"] or not own["_set_exception"]:
            raise AnalysisError(f"outcome-store-not-identified: {c.qualname}")
        for m in c.methods.values():
            touched = {("mem", w.attr): w.node for w in mem_store_writes(m.node)}
            touched.update({("sql", (sqlmini.target_table(x.template) or "?").split(".")[-1]): x.call for x in sites if x.func is m and x.verb.split()[0] in ("INSERT", "REPLACE", "UPDATE", "DELETE", "DROP")})
            hits = {k: v for k, v in touched.items() if k in stores}
            if not hits:
                continue
            n += 1
            if m.name in setters:
                foreign = {k: v for k, v in hits.items() if k not in own[m.name]}
                removing = [x for x in sites if x.func is m and x.verb.split()[0] in ("DELETE", "DROP")] + [w for w in mem_store_writes(m.node) if w.how in ("del", "method:pop", "method:clear", "method:popitem", "rebind")]
                ok = not foreign and not removing
                why = "" if ok else (f"writes the other outcome's store {sorted(k[1] for k in foreign)}" if foreign else "removes entries") + ": an exception stored by a stale runner after another runner published SUCCESS (or the reverse) destroys the outcome the final status points at - the status request that follows is refused, the damage stays"
                ctx.add("R6", f"{m.qualname}::writes-only-its-own-outcome-store", ok, m.loc(next(iter(foreign.values()))) if foreign else m.loc(), why)
            else:
                ok = m.name.lstrip("_") in ("purge", "init", "init_tables") or m.name == "__init__"
                ctx.add("R6", f"{m.qualname}::outcome-stores-changed-only-by-setters-and-purge", ok, m.loc(next(iter(hits.values()))), "" if ok else f"changes the outcome store(s) {sorted(k[1] for k in hits)}")
    ctx.floor("R6", "methods touching an outcome store", n, 6)
    flt = lambda c_: "StateBackend" in c_.name or "ClientDataStore" in c_.name  # noqa: E731
    sub = Context("C16", ctx.repo, ctx.tier, ctx.seed)
    sub._resolver = ctx._resolver
    c16.r11(sub, flt)
    for i in sub.instances:
        ctx.add("R6", i.key.split("/", 2)[2], i.ok, i.where, i.detail)


def run(ctx: Context) -> None:
    sites = sqlmini.sites(ctx.repo)
    r1_r2(ctx, sites)
    r3(ctx)
    r4(ctx)
    # R5: "stored" includes what the stored value points at: a result / exception externalised to the client data store is
    # written there before its reference is handed out (shared with C15/R3)
    from . import c15

    ctx.rule("R5", "a value externalised to the client data store is written before its reference key is returned: what SUCCESS / FAILED publish can be resolved by any process (shared with C15/R3)")
    sub = Context("C15", ctx.repo, ctx.tier, ctx.seed)
    sub._resolver = ctx._resolver
    c15.r3(sub, sites)
    n5 = 0
    for i in sub.instances:
        k = i.key.split("/", 2)[2]
        if k.endswith(("every-returned-key-was-written", "stores-hashed-string-under-its-key", "returns-the-key", "writes-value-under-key", "reads-by-key")):
            n5 += 1
            ctx.add("R5", k, i.ok, i.where, i.detail)
    ctx.floor("R5", "externalised-value obligations", n5, 5)
    r6(ctx, sites)
    ctx.exhaustive = True
    ctx.not_decided += [
        "value equality of stored and returned results for every serializer value (quantifies over runtime values; C15 shares the limit)",
        "interleavings of a reader with the worker beyond the ordering 'store, then publish' (its necessary condition)",
    ]
    ctx.assumptions += ["a state-backend write that returned has taken effect (sqlite commit / dict assignment)"]
