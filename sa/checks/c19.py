"""C19 - sync development mode and distributed execution give the same outcome.

Only the retry-accounting and wrapper slice is decided.

R1 sibling retry logic: ConcurrentInvocation.result and DistributedInvocation.run reduce to the
   same handler table (retriable: fail <=> retries >= max_retries else retry; generic: fail and
   re-raise); both take the retriable set from task.retriable_exceptions
R2 one increment per retry, counter starts at 0, the comparison reads the counter before the increment
R3 mode switch: every submission function tests dev_mode_force_sync_tasks before choosing the
   invocation class; direct_task wrappers return .result / the aggregate of the group's results
"""

from __future__ import annotations

import ast

from .. import sqlmini
from ..flow import call_name, calls_in, mem_store_writes, names_in, self_attr, status_sites
from ..loader import AnalysisError, FuncInfo, walk_no_nested
from ..report import Context

PROPERTY = "C19"
TECHNIQUE = "static analysis: sibling cross-check of normalised exception-handler tables, comparison normalisation, increment counting, guard presence on submission paths"

FLIP = {ast.Lt: ast.Gt, ast.Gt: ast.Lt, ast.LtE: ast.GtE, ast.GtE: ast.LtE}
NEGATE = {ast.Lt: ast.GtE, ast.GtE: ast.Lt, ast.Gt: ast.LtE, ast.LtE: ast.Gt}


def norm_cmp(test: ast.AST) -> tuple[str, str, str] | None:
    """(counter text, OP, limit text) with the retry counter on the left; handles `not` and swapped operands"""
    neg = False
    while isinstance(test, ast.UnaryOp) and isinstance(test.op, ast.Not):
        test, neg = test.operand, not neg
    if not (isinstance(test, ast.Compare) and len(test.ops) == 1 and type(test.ops[0]) in FLIP):
        return None
    l, r, op = test.left, test.comparators[0], type(test.ops[0])
    if "max_retries" in ast.unparse(l):
        l, r, op = r, l, FLIP[op]
    if "max_retries" not in ast.unparse(r):
        return None
    if neg:
        op = NEGATE[op]
    sym = {ast.Lt: "<", ast.Gt: ">", ast.LtE: "<=", ast.GtE: ">="}[op]
    return ast.unparse(l), sym, ast.unparse(r)


def arm_kind(stmts: list[ast.stmt]) -> set[str]:
    """effects of a branch arm: FAIL / RETRY / RAISE / RECURSE"""
    out = set()
    for st in stmts:
        for n in ast.walk(st):
            if isinstance(n, ast.Call) and call_name(n) == "set_invocation_exception":
                out.add("FAIL")
            if isinstance(n, ast.Call) and call_name(n) == "set_invocation_retry":
                out.add("RETRY")
            if isinstance(n, ast.Attribute) and isinstance(n.value, ast.Name) and n.value.id == "InvocationStatus" and n.attr in ("FAILED", "RETRY"):
                out.add("FAIL" if n.attr == "FAILED" else "RETRY")
            if isinstance(n, ast.Raise):
                out.add("RAISE")
    return out


def handler_table(f: FuncInfo) -> dict:
    """{'retriable': {...}, 'generic': {...}} for the try statement that runs the task body"""
    tries = [n for n in walk_no_nested(f.node) if isinstance(n, ast.Try) and any(isinstance(x, ast.Attribute) and x.attr == "func" for st in n.body for x in ast.walk(st))]
    if len(tries) != 1:
        raise AnalysisError(f"anchor-vanished: {f.qualname} has {len(tries)} try statements around the task body")
    t = tries[0]
    table: dict = {"try": t}
    for h in t.handlers:
        ty = ast.unparse(h.type) if h.type is not None else ""
        if ty.endswith("retriable_exceptions"):
            ifs = [n for n in h.body if isinstance(n, ast.If) and norm_cmp(n.test) is not None]
            entry = {"handler": h, "source": ty, "name": h.name}
            if ifs:
                c = norm_cmp(ifs[0].test)
                body_k = arm_kind(ifs[0].body)
                rest = [s for s in h.body if s is not ifs[0] and h.body.index(s) > h.body.index(ifs[0])]
                else_k = arm_kind(ifs[0].orelse or rest)
                entry.update({"cmp": c, "true_arm": body_k, "false_arm": else_k, "if": ifs[0], "rest": ifs[0].orelse or rest})
            table["retriable"] = entry
        elif ty == "Exception":
            table["generic"] = {"handler": h, "kinds": arm_kind(h.body), "name": h.name}
    return table


def fail_condition(entry: dict) -> str | None:
    """normalised 'fail <=> counter OP limit'"""
    if "cmp" not in entry:
        return None
    counter, op, limit = entry["cmp"]
    if "FAIL" in entry["true_arm"] and "RETRY" in entry["false_arm"]:
        return op
    if "RETRY" in entry["true_arm"] and "FAIL" in entry["false_arm"]:
        return {"<": ">=", ">=": "<", ">": "<=", "<=": ">"}[op]
    return None


def r1_r2(ctx: Context, sites) -> None:
    ctx.rule("R1", "ConcurrentInvocation.result and DistributedInvocation.run have the same retry table: on an exception of task.retriable_exceptions fail (FAILED + re-raise the caught exception) <=> retry counter >= task.conf.max_retries, otherwise RETRY; on any other exception FAILED + re-raise")
    ctx.rule("R2", "the retry counter starts at 0, is incremented exactly once per RETRY (sync: one `+= 1` on the retry arm; distributed: set_invocation_retry = RETRY, one increment by exactly 1, one queue push) and is compared with max_retries before it is incremented")
    repo = ctx.repo
    sync = repo.cls("ConcurrentInvocation").methods.get("result")
    dist = repo.cls("DistributedInvocation").methods.get("run")
    if sync is None or dist is None:
        raise AnalysisError("anchor-vanished: result / run")
    ts, td = handler_table(sync), handler_table(dist)
    for label, f, t in (("sync", sync, ts), ("distributed", dist, td)):
        ok = "retriable" in t and t["retriable"]["source"] == "self.task.retriable_exceptions"
        ctx.add("R1", f"{label}::retriable-set-from-task", ok, f.loc(), "" if ok else "no handler for self.task.retriable_exceptions")
        if not ok:
            continue
        e = t["retriable"]
        fc = fail_condition(e)
        ok = fc == ">=" and "cmp" in e and "max_retries" in e["cmp"][2] and "task.conf" in e["cmp"][2]
        ctx.add("R1", f"{label}::fail-iff-retries>=max_retries", ok, f.loc(e.get("if", e["handler"])), "" if ok else f"normalised condition: fail <=> counter {fc} max_retries ({e.get('cmp')}); the property requires exactly max_retries+1 executions, i.e. fail <=> retries >= max_retries")
        if "cmp" in e:
            fail_arm = e["if"].body if "FAIL" in e["true_arm"] else e["rest"]
            rs = [n for st in fail_arm for n in ast.walk(st) if isinstance(n, ast.Raise)]
            ok = bool(rs) and all(r.exc is not None and isinstance(r.exc, ast.Name) and r.exc.id == e["name"] for r in rs)
            ctx.add("R1", f"{label}::exhausted-retries-re-raise-the-caught-exception", ok, f.loc(e["if"]), "" if ok else "the exhausted-retries arm does not re-raise the caught exception object")
        ok = "generic" in t and {"FAIL", "RAISE"} <= t["generic"]["kinds"] and "RETRY" not in t["generic"]["kinds"]
        ctx.add("R1", f"{label}::non-retriable-fails-and-re-raises", ok, f.loc(), "" if ok else "the generic handler does not mark FAILED and re-raise")
        if "generic" in t:
            rs = [n for n in ast.walk(t["generic"]["handler"]) if isinstance(n, ast.Raise)]
            ok = all(r.exc is not None and isinstance(r.exc, ast.Name) and r.exc.id == t["generic"]["name"] for r in rs)
            ctx.add("R1", f"{label}::non-retriable-re-raises-the-same-exception", ok, f.loc(t["generic"]["handler"]), "" if ok else "")
        # order of handlers: retriable before generic
        hs = [ast.unparse(h.type) if h.type is not None else "" for h in t["try"].handlers]
        ri = next((i for i, x in enumerate(hs) if x.endswith("retriable_exceptions")), -1)
        gi = next((i for i, x in enumerate(hs) if x == "Exception"), len(hs))
        ctx.add("R1", f"{label}::retriable-handler-before-generic", 0 <= ri < gi, f.loc(), "" if 0 <= ri < gi else f"handler order {hs}")
    # sibling equality of the normalised tables
    if "retriable" in ts and "retriable" in td:
        a, b = fail_condition(ts["retriable"]), fail_condition(td["retriable"])
        ctx.add("R1", "siblings::same-fail-condition", a == b and a is not None, sync.loc(), "" if a == b else f"sync fails when counter {a} max_retries, distributed when counter {b} max_retries")
    # R2 sync
    if "retriable" in ts and "cmp" in ts["retriable"]:
        e = ts["retriable"]
        counter = e["cmp"][0]
        incs = [n for n in walk_no_nested(sync.node) if isinstance(n, ast.AugAssign) and ast.unparse(n.target) == counter]
        retry_arm = e["rest"] if "FAIL" in e["true_arm"] else e["if"].body
        on_arm = [n for n in incs if any(n is x for st in retry_arm for x in ast.walk(st))]
        ok = len(incs) == 1 and len(on_arm) == 1 and isinstance(incs[0].op, ast.Add) and isinstance(incs[0].value, ast.Constant) and incs[0].value.value == 1
        ctx.add("R2", "sync::one-increment-by-one-on-the-retry-arm", ok, sync.loc(), "" if ok else f"{len(incs)} increments of {counter}, {len(on_arm)} on the retry arm")
        ok = bool(incs) and incs[0].lineno > e["if"].lineno
        ctx.add("R2", "sync::compare-before-increment", ok, sync.loc(), "" if ok else "the counter is incremented before it is compared")
        init = repo.cls("ConcurrentInvocation").find_method("__init__")
        ok = init is not None and any(isinstance(n, (ast.Assign, ast.AnnAssign)) and counter in ast.unparse(n.targets[0] if isinstance(n, ast.Assign) else n.target) and isinstance(n.value, ast.Constant) and n.value.value == 0 for n in walk_no_nested(init.node))
        ctx.add("R2", "sync::counter-starts-at-zero", bool(ok), init.loc() if init else "", "" if ok else "")
        # the retry re-enters result
        ok = any(isinstance(n, ast.Return) and ast.unparse(n.value) == "self.result" for st in retry_arm for n in ast.walk(st))
        ctx.add("R2", "sync::retry-re-executes", ok, sync.loc(), "" if ok else "the retry arm does not run the body again")
    # R2 distributed
    bo = repo.cls("BaseOrchestrator")
    sr = bo.methods.get("set_invocation_retry")
    if sr is None:
        raise AnalysisError("anchor-vanished: set_invocation_retry")
    seq = []
    for st in sr.node.body:
        for c in ast.walk(st):
            if isinstance(c, ast.Call):
                nm = call_name(c)
                if nm == "set_invocation_status" and any(isinstance(a, ast.Attribute) and a.attr == "RETRY" for a in c.args):
                    seq.append("S(RETRY)")
                elif nm == "increment_invocation_retries":
                    seq.append("INC")
                elif nm == "route_invocation":
                    seq.append("Q+")
    branches = [n for n in walk_no_nested(sr.node) if isinstance(n, (ast.If, ast.For, ast.While, ast.Try))]
    ok = seq == ["S(RETRY)", "INC", "Q+"] and not branches
    ctx.add("R2", "distributed::set_invocation_retry=RETRY,one-increment,one-push", ok, sr.loc(), "" if ok else f"effects {seq}, branching statements: {len(branches)}")
    ids = {ast.unparse(c.args[0]) for c in calls_in(sr.node) if call_name(c) in ("set_invocation_status", "increment_invocation_retries", "route_invocation") and c.args}
    ctx.add("R2", "distributed::same-invocation-in-all-three", ids == {sr.params[1]}, sr.loc(), "" if ids == {sr.params[1]} else f"{sorted(ids)}")
    for o in [x for x in repo.overrides(bo, "increment_invocation_retries") if not x.is_abstract]:
        ss = [s for s in sites if s.func is o and s.verb == "UPDATE"]
        if ss:
            ok = "retry_count = retry_count + 1" in " ".join(ss[0].template.split())
        else:
            ok = any(isinstance(n, ast.Assign) and isinstance(n.value, ast.BinOp) and isinstance(n.value.op, ast.Add) and isinstance(n.value.right, ast.Constant) and n.value.right.value == 1 and self_attr(n.targets[0]) == "invocation_retries" for n in walk_no_nested(o.node))
        ctx.add("R2", f"{o.qualname}::adds-exactly-one", ok, o.loc(), "" if ok else "the retry counter is not incremented by exactly 1")
    for o in [x for x in repo.overrides(bo, "get_invocation_retries") if not x.is_abstract]:
        txt = ast.unparse(o.node)
        ok = "retry_count" in txt or "invocation_retries.get(" in txt
        ctx.add("R2", f"{o.qualname}::reads-the-counter", ok, o.loc(), "")
    nr = repo.cls("DistributedInvocation").methods.get("num_retries")
    ok = nr is not None and any(call_name(c) == "get_invocation_retries" and c.args and ast.unparse(c.args[0]) == "self.invocation_id" for c in calls_in(nr.node))
    ctx.add("R2", "distributed::num_retries-reads-orchestrator-counter", bool(ok), nr.loc() if nr else "", "" if ok else "")
    # run(): compare before set_invocation_retry
    if "retriable" in td and "cmp" in td["retriable"]:
        e = td["retriable"]
        retry_calls = [c for c in ast.walk(e["handler"]) if isinstance(c, ast.Call) and call_name(c) == "set_invocation_retry"]
        ok = bool(retry_calls) and retry_calls[0].lineno > e["if"].lineno and "num_retries" in e["cmp"][0]
        ctx.add("R2", "distributed::compare-before-increment", ok, dist.loc(e["if"]), "" if ok else "")
    # initial value
    reg_sql = [s for s in sites if s.func.name == "_init_tables" and "retry_count" in s.template]
    ok = bool(reg_sql) and "retry_count INTEGER NOT NULL DEFAULT 0" in " ".join(reg_sql[0].template.split())
    ctx.add("R2", "distributed::sqlite-counter-starts-at-zero", ok, reg_sql[0].where if reg_sql else "", "")
    mreg = repo.cls("MemOrchestrator").methods.get("_register_new_invocations")
    ok = mreg is not None and any(isinstance(n, ast.Assign) and self_attr(n.targets[0]) == "invocation_retries" and isinstance(n.value, ast.Constant) and n.value.value == 0 for n in walk_no_nested(mreg.node))
    ctx.add("R2", "distributed::mem-counter-starts-at-zero", bool(ok), mreg.loc() if mreg else "", "")


def r3(ctx: Context) -> None:
    ctx.rule("R3", "Task._call, distribute_calls and can_batch_process test app.conf.dev_mode_force_sync_tasks before choosing ConcurrentInvocation vs the orchestrator; direct_task wrappers return task(...).result / await .async_result(), or the aggregate of the group's results")
    repo = ctx.repo
    task = repo.cls("Task")
    f = task.methods.get("_call")
    if f is None:
        raise AnalysisError("anchor-vanished: Task._call")
    # on the CFG, polarity-aware: the arm taken when dev_mode_force_sync_tasks holds builds a ConcurrentInvocation
    # and never routes; the other arm routes through the orchestrator and never builds one
    from ..flow import func_cfg

    g = func_cfg(repo, f)
    ok = False
    for tn in [n for n in g.nodes if n.kind == "test" and n.ast is not None]:
        t = tn.ast
        neg = False
        while isinstance(t, ast.UnaryOp) and isinstance(t.op, ast.Not):
            t, neg = t.operand, not neg
        if not (isinstance(t, ast.Attribute) and t.attr == "dev_mode_force_sync_tasks"):
            continue
        sync_lab = "false" if neg else "true"

        def reach(lab: str) -> set[int]:
            seen: set[int] = set()
            stack = [s for s, l_ in g.succ[tn.id] if l_ == lab]
            while stack:
                x = stack.pop()
                if x in seen:
                    continue
                seen.add(x)
                stack.extend(s for s, l_ in g.succ[x] if l_ != "exc")
            return seen

        a, b = reach(sync_lab), reach("true" if sync_lab == "false" else "false")
        only_a = [g.nodes[i] for i in a - b if g.nodes[i].ast is not None]
        only_b = [g.nodes[i] for i in b - a if g.nodes[i].ast is not None]
        txt_a = " ".join(ast.unparse(n.ast) for n in only_a)
        txt_b = " ".join(ast.unparse(n.ast) for n in only_b)
        ok = "ConcurrentInvocation(" in txt_a and "route_call" not in txt_a and "route_call" in txt_b and "ConcurrentInvocation(" not in txt_b
    ctx.add("R3", "Task._call::mode-switch", ok, f.loc(), "" if ok else "Task._call does not select ConcurrentInvocation under dev_mode_force_sync_tasks and the orchestrator otherwise")
    both_same_call = f"Call(self, {f.params[1]})" in ast.unparse(f.node)
    ctx.add("R3", "Task._call::same-call-both-modes", both_same_call, f.loc(), "")
    m = repo.modules.get("pynenc.task")
    dc = m.functions.get("distribute_calls") if m else None
    cb = m.functions.get("can_batch_process") if m else None
    ok = dc is not None and any(isinstance(n, ast.If) and "dev_mode_force_sync_tasks" in ast.unparse(n.test) and "ConcurrentInvocationGroup" in ast.unparse(n) for n in walk_no_nested(dc.node)) and "DistributedInvocationGroup" in ast.unparse(dc.node)
    ctx.add("R3", "distribute_calls::mode-switch", bool(ok), dc.loc() if dc else "", "" if ok else "")
    ok = cb is not None and f"not {cb.params[0]}.app.conf.dev_mode_force_sync_tasks" in ast.unparse(cb.node)
    ctx.add("R3", "can_batch_process::never-batches-in-sync-mode", bool(ok), cb.loc() if cb else "", "" if ok else "batch routing (always distributed) can be chosen in development sync mode")
    # direct_task wrappers
    wrappers = [x for x in repo.all_functions() if x.name in ("sync_wrapper", "async_wrapper") and x.parent_func is not None]
    ctx.floor("R3", "direct_task wrappers", len(wrappers), 2)
    for w in wrappers:
        rets = [n for n in walk_no_nested(w.node) if isinstance(n, ast.Return) and n.value is not None]
        good = 0
        for r in rets:
            t = ast.unparse(r.value)
            if t in ("task(*args, **kwargs).result", "await task(*args, **kwargs).async_result()") or t.startswith("_aggregate_results("):
                good += 1
        ok = len(rets) == 2 and good == 2
        ctx.add("R3", f"{w.qualname}::returns-plain-value", ok, w.loc(), "" if ok else f"returns {[ast.unparse(r.value)[:50] for r in rets]}")
        agg = [c for c in calls_in(w.node) if call_name(c) == "_aggregate_results"]
        ok = all(("results" in ast.unparse(c.args[0])) for c in agg if c.args)
        ctx.add("R3", f"{w.qualname}::aggregates-group-results", ok, w.loc(), "")
    # the sync group yields each invocation's result in order
    cg = repo.cls("ConcurrentInvocationGroup").methods.get("results")
    ok = cg is not None and any(isinstance(n, ast.For) and ast.unparse(n.iter) == "self.invocations" and any(isinstance(x, ast.Yield) and ast.unparse(x.value).endswith(".result") for x in ast.walk(n)) for n in walk_no_nested(cg.node))
    ctx.add("R3", "ConcurrentInvocationGroup.results::each-result", bool(ok), cg.loc() if cg else "", "")


def r4(ctx: Context) -> None:
    ctx.rule("R4", "the sync invocation executes its body once whatever it returns: the cache-hit test of ConcurrentInvocation.result is a flag that is set wherever the cache is filled, never a test on the cached VALUE (a body returning None / 0 / '' would run again on every read, which the distributed mode never does)")
    repo = ctx.repo
    ci = repo.cls("ConcurrentInvocation")
    f = ci.methods.get("result")
    if f is None:
        raise AnalysisError("anchor-vanished: ConcurrentInvocation.result")
    hits = [n for n in walk_no_nested(f.node) if isinstance(n, ast.If) and n.body and isinstance(n.body[-1], ast.Return) and isinstance(n.body[-1].value, ast.Attribute) and isinstance(n.body[-1].value.value, ast.Name) and n.body[-1].value.value.id == "self"]
    ctx.floor("R4", "cache-hit exits of the sync result", len(hits), 1)
    for h in hits:
        cache_attr = h.body[-1].value.attr
        t = h.test
        flag = t.attr if isinstance(t, ast.Attribute) and isinstance(t.value, ast.Name) and t.value.id == "self" else None
        value_dependent = any(isinstance(x, ast.Attribute) and x.attr == cache_attr for x in ast.walk(t))
        ok = flag is not None and flag != cache_attr and not value_dependent
        detail = ""
        if ok:
            # the flag is set to True in every method that fills the cache, and nowhere reset to False except before a (re)execution
            fillers = [m for m in ci.methods.values() if any(isinstance(a, ast.Assign) and any(isinstance(tg, ast.Attribute) and tg.attr == cache_attr and isinstance(tg.value, ast.Name) and tg.value.id == "self" for tg in a.targets) for a in walk_no_nested(m.node)) and m.name != "__init__"]
            sets = lambda m: any(isinstance(a, ast.Assign) and isinstance(a.value, ast.Constant) and a.value.value is True and any(isinstance(tg, ast.Attribute) and tg.attr == flag for tg in a.targets) for a in walk_no_nested(m.node))  # noqa: E731
            missing = [m.name for m in fillers if not sets(m)]
            ok = bool(fillers) and not missing
            detail = "" if ok else f"the cache is filled in {missing or 'no method'} without setting self.{flag}"
        else:
            detail = f"the cache-hit test `{ast.unparse(t)}` depends on the cached value: a task body that returns None (or another value the test treats as 'empty') is executed again on every read of .result / group results in sync mode, once in distributed mode"
        ctx.add("R4", f"{f.qualname}::cache-hit-test-is-a-flag", ok, f.loc(h), detail)


def r6(ctx: Context) -> None:
    """The distributed path cuts a group into batches; the sync path does not."""
    from ..flow import chunk_loop_defects

    ctx.rule("R6", "a group is executed entire in both modes: every loop of pynenc that cuts a sequence into chunks (`for i in range(A, B, S): X[i:i + S]`) starts at 0, runs up to len(X) and slices X[i:i + S] - the batch route of parallelize / direct tasks then routes every call of the group, as the sync path (which does not batch) executes every call")
    n = 0
    for f in ctx.repo.all_functions():
        if not f.module.name.startswith("pynenc."):
            continue
        loops = [lp for lp in walk_no_nested(f.node) if isinstance(lp, ast.For) and isinstance(lp.iter, ast.Call) and call_name(lp.iter) == "range" and len(lp.iter.args) == 3]
        if not loops:
            continue
        defects = chunk_loop_defects(f.node)
        for lp in loops:
            sliced = any(isinstance(x, ast.Subscript) and isinstance(x.slice, ast.Slice) and isinstance(x.slice.lower, ast.Name) and isinstance(lp.target, ast.Name) and x.slice.lower.id == lp.target.id for x in ast.walk(lp))
            if not sliced:
                continue
            n += 1
            mine = [d for d in defects if d[0] is lp]
            ctx.add("R6", f"{f.qualname}::chunks-cover-every-element", not mine, f.loc(lp), "" if not mine else f"{mine[0][2]}: for some group sizes (k * batch + 1 ...) the last calls of the group are never routed in distributed mode - the group returns fewer results than in sync mode and their bodies never run")
    ctx.floor("R6", "chunk loops", n, 3)


def run(ctx: Context) -> None:
    sites = sqlmini.sites(ctx.repo)
    r1_r2(ctx, sites)
    r3(ctx)
    r4(ctx)
    # R5: the error a caller catches is the same object in both modes only if the distributed path carries it unchanged (C05/R4)
    from . import c05

    ctx.rule("R5", "errors cross the distributed path unchanged: exception envelopes are written and read key by key, arguments stored as they are (shared with C05/R4)")
    sub = Context("C05", ctx.repo, ctx.tier, ctx.seed)
    sub._resolver = ctx._resolver
    c05.r4(sub)
    for i in sub.instances:
        ctx.add("R5", i.key.split("/", 2)[2], i.ok, i.where, i.detail)
    ctx.floor("R5", "exception encoding obligations", ctx.count("R5"), 20)
    r6(ctx)
    ctx.exhaustive = True
    ctx.not_decided += [
        "equality of outcomes for generated task programs (behavioural: nested calls, groups, values)",
        "the number of body executions as a run-time count (decided as: counter starts at 0, +1 per RETRY, fail iff counter >= max_retries before the increment)",
    ]
