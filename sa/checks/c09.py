"""C09 - waiting on sub-tasks is tracked exactly and cannot deadlock a runner.

R1 release on final: a successful transition to a final status always releases the waiters of
   that invocation; purge paths release too
R2 definition agreement between the backends: reported = waited on, not itself waiting, in an
   available status, limit applied after the filters; release deletes every edge into the id
R3 blocking invocations are claimed first and counted; a task that waits notifies the
   orchestrator before it enters the runner's wait loop; the thread runner does not count waiting
   threads against its slots and forgets finished ones
"""

from __future__ import annotations

import ast

from .. import sqlmini
from ..flow import (call_name, calls_in, cfg_node_of, derived_names, feasible_reach, func_cfg, mem_store_writes,
                    names_in, parent_map, self_attr)
from ..loader import AnalysisError, walk_no_nested
from ..report import Context
from . import c01

PROPERTY = "C09"
TECHNIQUE = "static analysis: CFG must-pass-through after the atomic transition, SQL clause extraction vs Python filter structure (sibling agreement), ordering / def-use rules in the poll and the wait path"


def r1(ctx: Context, sites) -> None:
    ctx.rule("R1", "set_invocation_status: on every path on which the requested status is final, release_waiters(<the same id>) runs after the successful atomic transition; release_waiters delegates to the blocking control's release for the same id; auto-purge / clean-up release the purged id")
    repo = ctx.repo
    bo = repo.cls("BaseOrchestrator")
    f = bo.methods.get("set_invocation_status")
    if f is None:
        raise AnalysisError("anchor-vanished: set_invocation_status")
    g = func_cfg(repo, f)
    pm = parent_map(f.node)
    trans = [c for c in calls_in(f.node) if call_name(c) == "_atomic_status_transition"]
    rel = [c for c in calls_in(f.node) if call_name(c) == "release_waiters"]
    ok = len(trans) == 1 and len(rel) >= 1
    ctx.add("R1", f"{f.qualname}::release-call-present", ok, f.loc(), "" if ok else "set_invocation_status does not call release_waiters")
    if ok:
        tn = {n.id for n in cfg_node_of(g, f.node, trans[0], pm)}
        reach = c01._reachable_without_normal_exit(g, tn)
        for c in rel:
            rn = cfg_node_of(g, f.node, c, pm)
            o = all(n.id not in reach for n in rn)
            ctx.add("R1", f"{f.qualname}::release-only-after-successful-transition", o, f.loc(c), "" if o else "waiters can be released although the transition failed")
            o = bool(c.args) and ast.unparse(c.args[0]) == f.params[1]
            ctx.add("R1", f"{f.qualname}::release-for-the-transitioned-id", o, f.loc(c), "" if o else f"release_waiters({ast.unparse(c.args[0]) if c.args else ''})")
            guard = None
            for anc in _anc(pm, c):
                if isinstance(anc, ast.If):
                    guard = anc
                    break
            o = guard is not None and ast.unparse(guard.test) == f"{f.params[2]}.is_final()" and not guard.orelse or guard is None
            ctx.add("R1", f"{f.qualname}::release-whenever-final", bool(o), f.loc(c), "" if o else f"the release is conditioned on {ast.unparse(guard.test) if guard is not None else '?'} instead of `status.is_final()`")
            # nothing that can fail (a call into another component: history, triggers, ...) lies between the accepted
            # transition and the release: the invocation is already final when such a call raises, its waiters would stay
            # recorded as waiting for good
            tset = {n.id for n in cfg_node_of(g, f.node, trans[0], pm)}
            rset = {n.id for n in rn}
            between = None
            for oc in calls_in(f.node):
                if oc is c or oc is trans[0] or not isinstance(oc.func, ast.Attribute):
                    continue
                recv = ast.unparse(oc.func.value)
                if not (recv.startswith("self.app.") or recv == "self.app") or recv.startswith("self.app.logger"):
                    continue
                on = {n.id for n in cfg_node_of(g, f.node, oc, pm)}
                # reachable: transition -> oc -> release (normal edges)
                def _reach(src: set[int]) -> set[int]:
                    seen_: set[int] = set()
                    st_ = list(src)
                    while st_:
                        x_ = st_.pop()
                        for s_, l_ in g.succ[x_]:
                            if l_ != "exc" and s_ not in seen_:
                                seen_.add(s_)
                                st_.append(s_)
                    return seen_
                if on & _reach(tset) and rset & _reach(on):
                    between = oc
                    break
            ctx.add("R1", f"{f.qualname}::release-is-the-first-effect-after-the-transition", between is None, f.loc(between) if between is not None else f.loc(c), "" if between is None else f"`{ast.unparse(between)[:60]}` runs between the accepted final transition and release_waiters: if it raises, the invocation is final but every invocation waiting on it keeps its wait edge - it is reported as 'itself waiting' for ever and its own waiters are never offered")
            # the is_final branch itself is on every normal path after the transition
            if guard is not None:
                dom = g.dominators(exc_edges=False)
                gn = g.nodes_for(guard)
                o = all(x.id in dom.get(g.exit, set()) for x in gn)
                ctx.add("R1", f"{f.qualname}::final-test-on-every-path", o, f.loc(guard), "" if o else "some path after the transition skips the is_final() test")
    rw = bo.methods.get("release_waiters")
    o = rw is not None and any(call_name(c) == "release_waiters" and isinstance(c.func, ast.Attribute) and "blocking_control" in ast.unparse(c.func.value) and c.args and ast.unparse(c.args[0]) == rw.params[1] for c in calls_in(rw.node))
    ctx.add("R1", "BaseOrchestrator.release_waiters::delegates-same-id", bool(o), rw.loc() if rw else "", "" if o else "release_waiters does not forward the id to blocking_control.release_waiters")
    # purge paths
    for cname, meth in (("MemOrchestrator", "clean_up_invocation"), ("SQLiteOrchestrator", "auto_purge")):
        m = repo.cls(cname).methods.get(meth)
        if m is None:
            raise AnalysisError(f"anchor-vanished: {cname}.{meth}")
        o = any(call_name(c) == "release_waiters" for c in calls_in(m.node))
        ctx.add("R1", f"{m.qualname}::purge-releases-waiters", o, m.loc(), "" if o else "a purged invocation keeps its wait edges")


def r2(ctx: Context, sites) -> None:
    ctx.rule("R2", "get_blocking_invocations: sqlite selects waited ids that are not waiters, joined with invocations in an available status, LIMIT bound to the requested maximum in the same statement; mem takes candidates from the maintained ready set, keeps those whose status is_available_for_run() and counts only yielded ids against the limit; release_waiters removes every edge into the finished id in both; waiting_for_results records an edge waiter->waited for each awaited id in both")
    repo = ctx.repo
    bc = repo.cls("BaseBlockingControl")
    impls = [c for c in bc.all_subclasses()]
    if len(impls) < 2:
        raise AnalysisError("anchor-vanished: fewer than two blocking-control implementations")
    for c in impls:
        gb = c.methods.get("get_blocking_invocations")
        rel = c.methods.get("release_waiters")
        wfr = c.methods.get("waiting_for_results")
        if gb is None or rel is None or wfr is None:
            ctx.fail("R2", f"{c.qualname}::interface", c.module.relpath, "missing method")
            continue
        ss = [s for s in sites if s.func is gb and s.verb == "SELECT"]
        if ss:
            t = " ".join(ss[0].template.split())
            o = "NOT IN ( SELECT waiter_id FROM" in t.replace("(SELECT", "( SELECT") and "b.waited_id NOT IN" in t
            ctx.add("R2", f"{gb.qualname}::not-itself-waiting", o, ss[0].where, "" if o else "reported ids are not restricted to ids that are not waiters themselves")
            o = "SELECT DISTINCT b.waited_id" in t or "SELECT DISTINCT waited_id" in t
            ctx.add("R2", f"{gb.qualname}::waited-on-by-someone", o, ss[0].where, "" if o else "reported ids are not taken from the waited side of the edges")
            o = "i.status IN (" in t and "get_available_for_run_statuses" in ast.unparse(gb.node) and "ON b.waited_id = i.invocation_id" in t
            ctx.add("R2", f"{gb.qualname}::available-status-filter", o, ss[0].where, "" if o else "no join with the invocation status restricted to the available statuses")
            lim = sqlmini.limit_of(ss[0].template)
            p = gb.params[1]
            o = lim == "?" and p in ast.unparse(gb.node).split("LIMIT")[-1]
            ctx.add("R2", f"{gb.qualname}::limit-after-filters", o, ss[0].where, "" if o else "the limit is not applied inside the filtered statement / not bound to the requested maximum")
            rs = [s for s in sites if s.func is rel and s.verb == "DELETE"]
            conds = sqlmini.conditions(sqlmini.where_clause(rs[0].template)) if rs else []
            o = bool(rs) and [(a.split(".")[-1], b) for a, b, _ in conds] == [("waited_id", "=")] and (sqlmini.param_exprs(rs[0]) or [None])[0] is not None and ast.unparse(sqlmini.param_exprs(rs[0])[0]) == rel.params[1]
            ctx.add("R2", f"{rel.qualname}::removes-every-edge-into-id", o, rel.loc(), "" if o else f"release condition {conds}")
            ws = [s for s in sites if s.func is wfr and s.verb.startswith("INSERT")]
            o = bool(ws) and all(sqlmini.insert_columns(s.template) == ["waiter_id", "waited_id"] for s in ws)
            loopv = [n for n in walk_no_nested(wfr.node) if isinstance(n, ast.For) and ast.unparse(n.iter) == wfr.params[2]]
            o = o and bool(loopv)
            if o:
                ps = sqlmini.param_exprs(ws[0]) or []
                srcs = {ast.unparse(v) for nm in names_in(ps[0]) for v in c01._reaching_values(wfr, nm)} | {ast.unparse(ps[0])}
                o = wfr.params[1] in srcs and ast.unparse(ps[1]) == ast.unparse(loopv[0].target)
            ctx.add("R2", f"{wfr.qualname}::records-edge-per-awaited-id", bool(o), wfr.loc(), "" if o else "not one (waiter, waited) edge per awaited id")
        else:
            # mem: candidates from the ready set; availability filter; limit counts yields only
            txt = ast.unparse(gb.node)
            cand = any(isinstance(n, ast.Assign) and isinstance(n.value, ast.Call) and call_name(n.value) == "list" and n.value.args and self_attr(n.value.args[0]) == "_ready" for n in walk_no_nested(gb.node))
            ctx.add("R2", f"{gb.qualname}::candidates-from-ready-set", cand, gb.loc(), "" if cand else "candidates are not a snapshot of the maintained ready set")
            from ..flow import conditions_at

            gcfg, gpm = func_cfg(ctx.repo, gb), parent_map(gb.node)

            def avail(node) -> bool:
                return any(isinstance(c_, ast.Call) and call_name(c_) == "is_available_for_run" for c_ in conditions_at(gcfg, gb.node, node, gpm))

            yields = [n for n in walk_no_nested(gb.node) if isinstance(n, (ast.Yield, ast.YieldFrom))]
            o = bool(yields) and all(avail(y) for y in yields)
            ctx.add("R2", f"{gb.qualname}::available-status-filter", o, gb.loc(), "" if o else "ids are yielded without the is_available_for_run() filter")
            # the limit counts yields only: every decrement of the quota happens under the availability condition, and a test of
            # the quota ends the iteration
            decs = [n for n in walk_no_nested(gb.node) if isinstance(n, ast.AugAssign) and isinstance(n.op, ast.Sub) and ast.unparse(n.target) == gb.params[1]]
            stop = [n for n in walk_no_nested(gb.node) if isinstance(n, (ast.Return, ast.Break)) and any(isinstance(c_, ast.Compare) and gb.params[1] in names_in(c_) for c_ in conditions_at(gcfg, gb.node, n, gpm))]
            o = bool(decs) and all(avail(d_) for d_ in decs) and bool(stop)
            ctx.add("R2", f"{gb.qualname}::limit-after-filters", o, gb.loc(), "" if o else "the limit is consumed by ids that are filtered out (or never stops the iteration)")
            # the ready set definition: added when waited and not waiting; removed when it starts waiting / is released
            # (matched structurally: receivers by store attribute, arguments by role, not by variable name)
            W = derived_names(wfr.node, {wfr.params[1]})
            vloops = [n for n in walk_no_nested(wfr.node) if isinstance(n, ast.For) and ast.unparse(n.iter) == wfr.params[2]]
            V = names_in(vloops[0].target) if vloops else set()

            def store_call(fn, meth, attr, key_names=None, arg_names=None):
                out = []
                for c_ in calls_in(fn.node):
                    if call_name(c_) != meth or self_attr(c_.func) != attr:
                        continue
                    recv = c_.func.value
                    if key_names is not None:
                        if not (isinstance(recv, ast.Subscript) and names_in(recv.slice) & key_names):
                            continue
                    elif isinstance(recv, ast.Subscript):
                        continue
                    if arg_names is not None and not (c_.args and names_in(c_.args[0]) & arg_names):
                        continue
                    out.append(c_)
                return out

            def guarded_by(fn, node, pred):
                # the condition holds on every path to the node, however the branches are written
                from ..flow import conditions_at

                return any(pred(c_) for c_ in conditions_at(func_cfg(ctx.repo, fn), fn.node, node, parent_map(fn.node)))

            ready_add = store_call(wfr, "add", "_ready", None, V)
            o = bool(ready_add) and all(guarded_by(wfr, c_, lambda t: isinstance(t, ast.Compare) and isinstance(t.ops[0], ast.NotIn) and names_in(t.left) & V and self_attr(t.comparators[0]) == "waiting_for") for c_ in ready_add) and bool(store_call(wfr, "discard", "_ready", None, W))
            ctx.add("R2", f"{wfr.qualname}::ready-set-maintained-on-wait", o, wfr.loc(), "" if o else "the ready set is not updated as 'waited on and not itself waiting' when a wait is declared")
            o = bool(store_call(wfr, "add", "waited_by", V, W)) and bool(store_call(wfr, "add", "waiting_for", W, V))
            ctx.add("R2", f"{wfr.qualname}::records-edge-per-awaited-id", o, wfr.loc(), "" if o else "not one (waiter, waited) edge per awaited id in both directions")
            P = {rel.params[1]}
            rloops = [n for n in walk_no_nested(rel.node) if isinstance(n, ast.For) and self_attr(n.iter) == "waited_by" and names_in(n.iter) & P]
            X = names_in(rloops[0].target) if rloops else set()
            o = bool(store_call(rel, "pop", "waited_by", None, P)) and bool(store_call(rel, "discard", "waiting_for", X, P)) and bool(store_call(rel, "discard", "_ready", None, P))
            ctx.add("R2", f"{rel.qualname}::removes-every-edge-into-id", o, rel.loc(), "" if o else "release does not drop waited_by[id], the id from each waiter's set and from the ready set")
            freed = store_call(rel, "add", "_ready", None, X)
            o = bool(freed) and all(guarded_by(rel, c_, lambda t: isinstance(t, ast.Compare) and isinstance(t.ops[0], ast.In) and names_in(t.left) & X and self_attr(t.comparators[0]) == "waited_by") and guarded_by(rel, c_, lambda t: isinstance(t, ast.UnaryOp) and isinstance(t.op, ast.Not) and self_attr(t.operand) == "waiting_for") for c_ in freed)
            ctx.add("R2", f"{rel.qualname}::freed-waiter-becomes-ready", o, rel.loc(), "" if o else "a waiter that no longer waits (and is itself waited on) is not added to the ready set")
            # all under the lock
            for m in (wfr, rel):
                ws = mem_store_writes(m.node, {"waiting_for", "waited_by", "_ready"})
                withs = [n for n in walk_no_nested(m.node) if isinstance(n, ast.With) and any(self_attr(i.context_expr) == "_lock" for i in n.items)]
                o = bool(ws) and all(any(any(x is w.node for x in ast.walk(wi)) for wi in withs) for w in ws)
                ctx.add("R2", f"{m.qualname}::graph-updates-under-lock", o, m.loc(), "" if o else "wait-graph updates outside the blocking-control lock")


def r3(ctx: Context) -> None:
    ctx.rule("R3", "get_invocations_to_run drains the blocking generator before it polls the broker and asks the broker only for max - len(claimed blocking ids); DistributedInvocation.result / group results notify orchestrator.waiting_for_results(parent, ids) before the first runner.waiting_for_results; ThreadRunner._waiting_for_results records the waiting invocation, _reclaim_available_slots subtracts recorded waiters and forgets finished threads")
    repo = ctx.repo
    bo = repo.cls("BaseOrchestrator")
    f = bo.methods.get("get_invocations_to_run")
    if f is None:
        raise AnalysisError("anchor-vanished: get_invocations_to_run")
    g = func_cfg(repo, f)
    pm = parent_map(f.node)
    bl = [c for c in calls_in(f.node) if call_name(c) == "get_blocking_invocations_to_run"]
    ad = [c for c in calls_in(f.node) if call_name(c) == "get_additional_invocations_to_run"]
    ok = len(bl) == 1 and len(ad) == 1
    if ok:
        # the for loop over the blocking generator completes before the additional call
        loops = [n for n in walk_no_nested(f.node) if isinstance(n, ast.For) and any(x is bl[0] for x in ast.walk(n.iter))]
        ok = bool(loops) and loops[0].end_lineno < ad[0].lineno and not any(isinstance(x, ast.Break) for x in ast.walk(loops[0]))
    ctx.add("R3", f"{f.qualname}::blocking-first", ok, f.loc(), "" if ok else "the broker is polled before (or without) draining the invocations that block others")
    if len(ad) == 1 and len(bl) == 1:
        a0 = ad[0].args[0] if ad[0].args else None
        setname = ast.unparse(bl[0].args[1]) if len(bl[0].args) > 1 else "?"
        src = " ".join(ast.unparse(v) for v in c01._reaching_values(f, a0.id)) if isinstance(a0, ast.Name) else (ast.unparse(a0) if a0 is not None else "")
        ok = f"{f.params[1]} - len({setname})" in src
        ctx.add("R3", f"{f.qualname}::broker-quota-subtracts-claimed-blocking", ok, f.loc(ad[0]), "" if ok else f"the additional quota is {src!r}")
        ok = len(ad[0].args) > 1 and ast.unparse(ad[0].args[1]) == setname
        ctx.add("R3", f"{f.qualname}::claimed-blocking-ids-shared", ok, f.loc(ad[0]), "" if ok else "the broker poll does not receive the set of already-claimed blocking ids (a duplicate message would be claimed twice)")
    # the set of claimed blocking ids (it reduces the broker quota and makes the broker pass skip - and drop - a popped
    # id) only ever receives ids whose PENDING claim by this runner succeeded
    gb = bo.methods.get("get_blocking_invocations_to_run")
    if gb is None:
        raise AnalysisError("anchor-vanished: get_blocking_invocations_to_run")
    gg = func_cfg(repo, gb)
    gpm = parent_map(gb.node)
    gdom = gg.dominators(exc_edges=True)
    setp = gb.params[2]
    adds = [c for c in calls_in(gb.node) if call_name(c) in ("add", "update") and isinstance(c.func, ast.Attribute) and isinstance(c.func.value, ast.Name) and c.func.value.id == setp]
    claims = [c for c in calls_in(gb.node) if call_name(c) == "set_invocation_status" and any(isinstance(x, ast.Attribute) and x.attr == "PENDING" for a_ in c.args for x in ast.walk(a_))]
    claim_nodes = {n.id: c for c in claims for n in cfg_node_of(gg, gb.node, c, gpm)}
    for c in adds:
        okc = bool(claim_nodes)
        for n in cfg_node_of(gg, gb.node, c, gpm):
            doms = [cid for cid in claim_nodes if cid in gdom.get(n.id, set()) and cid != n.id]
            same_id = any(c.args and claim_nodes[cid].args and ast.unparse(claim_nodes[cid].args[0]) == ast.unparse(c.args[0]) for cid in doms)
            okc = okc and bool(doms) and same_id
        ctx.add("R3", f"{gb.qualname}::claimed-set-gets-only-claimed-ids", okc, gb.loc(c), "" if okc else f"`{ast.unparse(c)}` is not preceded by this runner's successful PENDING request for the same id: an id that was skipped (concurrency control, lost race) still reduces the broker quota - the awaited leaf is never fetched and a finite call tree deadlocks - and its queue message is dropped by the broker pass")
    ctx.floor("R3", "claimed-set insertions", len(adds), 1)
    # notify before waiting
    di = repo.cls("DistributedInvocation")
    grp = repo.cls("DistributedInvocationGroup")
    for cls, names in ((di, ("result", "async_result")), (grp, ("results", "async_results"))):
        for nm in names:
            m = cls.methods.get(nm)
            if m is None:
                continue
            g2 = func_cfg(repo, m)
            pm2 = parent_map(m.node)
            ow = [c for c in calls_in(m.node) if call_name(c) == "waiting_for_results" and "orchestrator" in ast.unparse(c.func)]
            rw = [c for c in calls_in(m.node) if call_name(c) in ("waiting_for_results", "async_waiting_for_results") and "runner" in ast.unparse(c.func)]
            ok = bool(ow) and bool(rw)
            if ok:
                on = {n.id for c in ow for n in cfg_node_of(g2, m.node, c, pm2)}
                # the runner wait is unreachable (on feasible paths) without passing the notification
                seen = feasible_reach(g2, on)
                ok = all(n.id not in seen for c in rw for n in cfg_node_of(g2, m.node, c, pm2))
            ctx.add("R3", f"{m.qualname}::notifies-orchestrator-before-waiting", ok, m.loc(), "" if ok else "the runner's wait loop can be entered without the wait having been declared to the orchestrator: the awaited invocation is not prioritised and a single-slot runner can deadlock")
            for c in ow:
                ok = len(c.args) == 2 and "parent_invocation_id" in ast.unparse(c.args[0])
                ctx.add("R3", f"{m.qualname}::declares-parent-as-waiter", ok, m.loc(c), "" if ok else ast.unparse(c)[:80])
    # thread runner
    tr = repo.cls("ThreadRunner")
    w = tr.methods.get("_waiting_for_results")
    rc = tr.methods.get("_reclaim_available_slots")
    if w is None or rc is None:
        raise AnalysisError("anchor-vanished: ThreadRunner wait strategy")
    ok = any(call_name(c) == "add" and self_attr(c.func) == "waiting_invocation_ids" and c.args and ast.unparse(c.args[0]) == w.params[1] for c in calls_in(w.node))
    ctx.add("R3", f"{w.qualname}::records-waiter", ok, w.loc(), "" if ok else "the waiting invocation is not recorded: its thread keeps occupying a slot")
    txt = ast.unparse(rc.node)
    ok = "not in self.waiting_invocation_ids" in txt and "self.max_parallel_slots - len(" in txt
    ctx.add("R3", f"{rc.qualname}::waiters-not-counted", ok, rc.loc(), "" if ok else "waiting threads are counted against the available slots")
    ok = any(call_name(c) == "discard" and self_attr(c.func) == "waiting_invocation_ids" for c in calls_in(rc.node)) and "is_alive()" in txt
    ctx.add("R3", f"{rc.qualname}::finished-threads-forgotten", ok, rc.loc(), "" if ok else "finished threads stay in the waiting set / thread table")
    li = tr.methods.get("runner_loop_iteration")
    ok = li is not None and any(call_name(c) == "get_invocations_to_run" and c.args and "_reclaim_available_slots" in ast.unparse(c.args[0]) for c in calls_in(li.node))
    ctx.add("R3", f"{tr.qualname}::polls-with-reclaimed-slots", bool(ok), li.loc() if li else "", "" if ok else "the loop does not ask for as many invocations as there are reclaimed slots")


def _anc(pm, node):
    cur = pm.get(id(node))
    while cur is not None:
        yield cur
        cur = pm.get(id(cur))


def r4(ctx: Context) -> None:
    """A wait is recorded against the waiter's id: an invocation created inside a running one must carry that id."""
    from ..flow import build_cfg, reaching_definitions, negate, _conjuncts

    ctx.rule("R4", "a child invocation knows its parent on every path: in DistributedInvocation.from_parent the parent_invocation_id handed to the constructor is the parent's invocation id whenever a parent was given (whatever workflow branch was taken) - result() / waiting_for_results use it as the waiter id; with None the wait is recorded nowhere and the runner keeps the slot busy")
    di = ctx.repo.cls("DistributedInvocation")
    f = di.methods.get("from_parent")
    if f is None:
        raise AnalysisError("anchor-vanished: DistributedInvocation.from_parent")
    p_parent = f.params[2] if len(f.params) > 2 else "parent_invocation"
    ctors = [c for c in calls_in(f.node) if isinstance(c.func, ast.Name) and c.func.id in ("cls", di.name) and any(k.arg == "parent_invocation_id" for k in c.keywords)]
    if not ctors:
        raise AnalysisError("anchor-vanished: from_parent constructs no invocation with parent_invocation_id")
    g = build_cfg(f.node)
    pm = parent_map(f.node)
    defs, IN = reaching_definitions(g)

    def is_parent_id(v: ast.AST) -> bool:
        return isinstance(v, ast.Attribute) and v.attr == "invocation_id" and isinstance(v.value, ast.Name) and v.value.id == p_parent

    def none_edge(t_ast: ast.AST, lab: str) -> bool:
        cond = t_ast if lab == "true" else negate(t_ast)
        for c_ in _conjuncts(cond):
            if isinstance(c_, ast.Compare) and len(c_.ops) == 1 and isinstance(c_.ops[0], ast.Is) and isinstance(c_.left, ast.Name) and c_.left.id == p_parent and isinstance(c_.comparators[0], ast.Constant) and c_.comparators[0].value is None:
                return True
            if isinstance(c_, ast.UnaryOp) and isinstance(c_.op, ast.Not) and isinstance(c_.operand, ast.Name) and c_.operand.id == p_parent:
                return True
        return False

    for k, c in enumerate(ctors):
        v = next(kw.value for kw in c.keywords if kw.arg == "parent_invocation_id")
        why = None
        if isinstance(v, ast.IfExp):
            t_ok = (isinstance(v.test, ast.Name) and v.test.id == p_parent) or ast.unparse(v.test) == f"{p_parent} is not None"
            if not (t_ok and is_parent_id(v.body)):
                why = f"`{ast.unparse(v)[:60]}` is not `<parent>.invocation_id if <parent> else None`"
        elif is_parent_id(v):
            why = None
        elif isinstance(v, ast.Name):
            cn = {n.id for n in cfg_node_of(g, f.node, c, pm)}
            rd = {d for nid in cn for d in IN[nid] if d.name == v.id}
            if not rd:
                why = f"`{v.id}` has no definition"
            for d in rd:
                if d.value is not None and is_parent_id(d.value):
                    continue
                if d.value is not None and isinstance(d.value, ast.IfExp) and is_parent_id(d.value.body):
                    continue
                # a None (or other) definition may reach the constructor only along paths on which no parent was given
                strong = {x.node for x in defs if x.name == v.id and x is not d}
                seen: set[int] = set()
                stack = [d.node]
                hit = False
                while stack and not hit:
                    x = stack.pop()
                    for s_, l_ in g.succ[x]:
                        nd = g.nodes[x]
                        if nd.kind == "test" and nd.ast is not None and l_ in ("true", "false") and none_edge(nd.ast, l_):
                            continue
                        if l_ == "exc" or s_ in seen:
                            continue
                        if s_ in cn:
                            hit = True
                            break
                        if s_ in strong:
                            continue
                        seen.add(s_)
                        stack.append(s_)
                # the definition itself may sit under the `parent is None` branch
                if hit:
                    from ..flow import conditions_at

                    holder = next((n_.ast for n_ in g.nodes if n_.id == d.node and n_.ast is not None), None)
                    under_none = holder is not None and any(none_edge(c_, "true") for c_ in conditions_at(g, f.node, holder, pm))
                    if not under_none:
                        why = f"`{v.id} = {ast.unparse(d.value) if d.value is not None else '?'}` reaches the constructor on a path where a parent was given"
        else:
            why = f"`{ast.unparse(v)[:60]}`"
        ctx.add("R4", f"{f.qualname}::child-carries-the-parents-id::{k}", why is None, f.loc(c), "" if why is None else f"{why}: the child is created without parent_invocation_id although it runs inside the parent - the parent's result() wait is recorded against None, no edge is stored, the runner never marks the parent as waiting and a single-slot runner deadlocks on the sub-task")
    ctx.floor("R4", "invocation constructions in from_parent", len(ctors), 1)


def run(ctx: Context) -> None:
    sites = sqlmini.sites(ctx.repo)
    r1(ctx, sites)
    r2(ctx, sites)
    r3(ctx)
    r4(ctx)
    ctx.exhaustive = True
    ctx.not_decided += [
        "that the in-memory ready set equals its definition after arbitrary histories (a data-structure invariant over histories: needs execution or a proof assistant); only its maintenance statements are checked",
        "deadlock freedom of call trees on a single-slot runner (liveness over schedules)",
    ]
