#!/usr/bin/env python3
"""keep_seed.py <seed dir> <id> <caught-by (comma list or 'none')> <note>  -> /verif/seeded/<id>/"""
import json, shutil, sys
from pathlib import Path
src, sid, caught, note = Path(sys.argv[1]), sys.argv[2], sys.argv[3], sys.argv[4]
dst = Path("/verif/seeded") / sid
dst.mkdir(parents=True, exist_ok=True)
for f in src.iterdir():
    if f.is_file():
        shutil.copy2(f, dst / f.name)
meta = json.loads((dst / "meta.json").read_text()) if (dst / "meta.json").exists() else {}
meta["confirmed_by_me"] = "demo run in a scratch worktree: exit 0 on the unchanged tree, non-zero with patch.diff applied (tools/try_seed.sh); patch applied to /repo, all quick checks run, patch undone"
meta["caught_by"] = [] if caught == "none" else caught.split(",")
meta["note"] = note
(dst / "meta.json").write_text(json.dumps(meta, indent=1))
print("kept", dst)
