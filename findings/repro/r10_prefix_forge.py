# C17/R3: purge by `LIKE prefix%` + user-controlled leading text => an app whose id equals
# another app's storage prefix loses its queue when the other app purges.
import os, tempfile
from pynenc import Pynenc
from pynenc.util.sqlite_utils import TableNames
db = os.path.join(tempfile.mkdtemp(), "shared.db")
def mk(app_id):
    return Pynenc(config_values={"app_id": app_id, "sqlite_db_path": db,
        "broker_cls": "SQLiteBroker", "orchestrator_cls": "SQLiteOrchestrator",
        "state_backend_cls": "SQLiteStateBackend", "trigger_cls": "SQLiteTrigger",
        "client_data_store_cls": "SQLiteClientDataStore"})
a = mk("x")
b_id = TableNames("x", "broker").table_prefix          # e.g. x_2d711642__broker
b = mk(b_id)
b.broker.route_invocation("inv-of-B-1"); b.broker.route_invocation("inv-of-B-2")
print("app B id:", b_id, " B queue before A.purge:", b.broker.count_invocations())
a.broker.purge()
print("B queue after A.broker.purge():", b.broker.count_invocations())
